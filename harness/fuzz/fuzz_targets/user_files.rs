//! Side campaign for C17: byte 0 selects the entry point, the rest is the file. Any panic is a finding.
#![no_main]
use libfuzzer_sys::fuzz_target;

fuzz_target!(|data: &[u8]| {
    if data.is_empty() {
        return;
    }
    let (sel, d) = (data[0], &data[1..]);
    match sel % 8 {
        0 => {
            if let Some(mut c) = physis::cfg::ConfigFile::from_existing(d) {
                let _ = c.has_key("Language");
                c.set_value("Language", "1");
                let _ = c.write_to_buffer();
            }
        }
        1 => {
            if let Some(e) = physis::exl::EXL::from_existing(d) {
                let _ = e.write_to_buffer();
            }
        }
        2 => {
            if let Some(f) = physis::fiin::FileInfo::from_existing(d) {
                let _ = f.write_to_buffer();
            }
        }
        3 => {
            if let Some(c) = physis::chardat::CharacterData::from_existing(d) {
                let _ = c.write_to_buffer();
            }
        }
        4 => {
            if let Some(g) = physis::gearsets::GearSets::from_existing(d) {
                let _ = g.write_to_buffer();
            }
        }
        5 => {
            let _ = physis::log::ChatLog::from_existing(d);
        }
        6 => {
            let t = String::from_utf8_lossy(d);
            let l = physis::patchlist::PatchList::from_string(physis::patchlist::PatchListType::Boot, &t);
            let _ = l.to_string(physis::patchlist::PatchListType::Boot);
        }
        _ => {
            let t = String::from_utf8_lossy(d);
            let l = physis::patchlist::PatchList::from_string(physis::patchlist::PatchListType::Game, &t);
            let _ = l.to_string(physis::patchlist::PatchListType::Game);
        }
    }
});

//! Side campaign for C18: byte 0 selects the parser (the Havok-backed skeleton reader is a listed finding and is
//! left out), the rest is the file. Any panic is a finding.
#![no_main]
use libfuzzer_sys::fuzz_target;

fuzz_target!(|data: &[u8]| {
    if data.is_empty() {
        return;
    }
    let (sel, d) = (data[0], &data[1..]);
    match sel % 24 {
        0 => {
            let _ = physis::model::MDL::from_existing(d);
        }
        1 => {
            let _ = physis::mtrl::Material::from_existing(d);
        }
        2 => {
            if let Some(s) = physis::shpk::ShaderPackage::from_existing(d) {
                for n in s.nodes.iter().take(16) {
                    let _ = s.find_node(n.selector);
                }
                let _ = s.find_node(0);
            }
        }
        3 => {
            let _ = physis::tex::Texture::from_existing(d);
        }
        4 => {
            let _ = physis::exh::EXH::from_existing(d);
        }
        5 => {
            // first u16 LE = length of the header part
            if d.len() >= 2 {
                let n = u16::from_le_bytes([d[0], d[1]]) as usize;
                let rest = &d[2..];
                let n = n.min(rest.len());
                if let (Some(exh), Some(exd)) = (physis::exh::EXH::from_existing(&rest[..n]), physis::exd::EXD::from_existing(&rest[n..])) {
                    for id in [0u32, 1, 2, 3, 10, 100, u32::MAX] {
                        let _ = exd.read_row(&exh, id);
                    }
                    for p in exh.pages.iter().take(2) {
                        for k in 0..p.row_count.min(8) {
                            let _ = exd.read_row(&exh, p.start_id.wrapping_add(k));
                        }
                    }
                }
            }
        }
        6 => {
            if let Some(p) = physis::pbd::PreBoneDeformer::from_existing(d) {
                for f in [0u16, 101, 201, 301, 401] {
                    for t in [0u16, 101, 201, 301, 401] {
                        let _ = p.get_deform_matrices(f, t);
                    }
                }
                if d.len() >= 6 {
                    let a = u16::from_le_bytes([d[4], d[5]]);
                    let _ = p.get_deform_matrices(a, 101);
                    let _ = p.get_deform_matrices(101, a);
                }
            }
        }
        7 => {
            let _ = physis::cmp::CMP::from_existing(d);
        }
        8 => {
            if let Some(t) = physis::tera::Terrain::from_existing(d) {
                let _ = t.write_to_buffer();
            }
        }
        9 => {
            let _ = physis::stm::StainingTemplate::from_existing(d);
        }
        10 => {
            let _ = physis::dic::Dictionary::from_existing(d);
        }
        11 => {
            let _ = physis::layer::LayerGroup::from_existing(d);
        }
        12 => {
            let _ = physis::avfx::Avfx::from_existing(d);
        }
        13 => {
            let _ = physis::uld::Uld::from_existing(d);
        }
        14 => {
            let _ = physis::sgb::Sgb::from_existing(d);
        }
        15 => {
            let _ = physis::scd::Scd::from_existing(d);
        }
        16 => {
            let _ = physis::hwc::Hwc::from_existing(d);
        }
        17 => {
            let _ = physis::iwc::Iwc::from_existing(d);
        }
        18 => {
            let _ = physis::tmb::Tmb::from_existing(d);
        }
        19 => {
            let _ = physis::skp::Skp::from_existing(d);
        }
        20 => {
            let _ = physis::schd::Schd::from_existing(d);
        }
        21 => {
            let _ = physis::phyb::Phyb::from_existing(d);
        }
        22 => {
            let _ = physis::pap::Pap::from_existing(d);
        }
        _ => {
            let _ = physis::sqpack::SqPackDatabase::from_existing(d);
        }
    }
});

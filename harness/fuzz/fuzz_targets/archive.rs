//! Side campaign for C17/C18 entry points that work on files: byte 0 selects index / dat / patch, the rest is the
//! file, written to a scratch directory under /dev/shm. Any panic is a finding.
#![no_main]
use libfuzzer_sys::fuzz_target;
use std::sync::OnceLock;

fn dir() -> &'static std::path::PathBuf {
    static D: OnceLock<std::path::PathBuf> = OnceLock::new();
    D.get_or_init(|| {
        // a corrupted patch may ask for hundreds of gigabytes of zeroes: cap file sizes (EFBIG) instead of filling
        // the scratch file system
        unsafe {
            let r = libc::rlimit { rlim_cur: 16 << 20, rlim_max: 16 << 20 };
            libc::setrlimit(libc::RLIMIT_FSIZE, &r);
            libc::signal(libc::SIGXFSZ, libc::SIG_IGN);
        }
        let base = if std::path::Path::new("/dev/shm").is_dir() { "/dev/shm".to_string() } else { std::env::temp_dir().to_string_lossy().to_string() };
        let p = std::path::PathBuf::from(base).join(format!("pv-fuzz-{}", std::process::id()));
        let _ = std::fs::create_dir_all(&p);
        p
    })
}

fuzz_target!(|data: &[u8]| {
    if data.is_empty() {
        return;
    }
    let (sel, d) = (data[0], &data[1..]);
    let root = dir();
    match sel % 3 {
        0 => {
            let p = root.join("0a0000.win32.index");
            if std::fs::write(&p, d).is_ok() {
                if let Some(ix) = physis::sqpack::SqPackIndex::from_existing(&p.to_string_lossy()) {
                    for q in ["exd/root.exl", "exd/data/file.bin", "bg/ex1/01_zone/level/planlive.lgb"] {
                        let _ = ix.exists(q);
                        let _ = ix.find_entry(q);
                    }
                }
            }
        }
        1 => {
            let p = root.join("0a0000.win32.dat0");
            if std::fs::write(&p, d).is_ok() {
                if let Some(mut dat) = physis::sqpack::SqPackData::from_existing(&p.to_string_lossy()) {
                    for off in [0u64, 128, 1024, 2048, 2048 + 128, 4096] {
                        let _ = dat.read_from_offset(off);
                    }
                }
            }
        }
        _ => {
            let p = root.join("f.patch");
            let data_dir = root.join("data");
            let _ = std::fs::remove_dir_all(&data_dir);
            let _ = std::fs::create_dir_all(data_dir.join("sqpack/ffxiv"));
            if std::fs::write(&p, d).is_ok() {
                let _ = physis::patch::ZiPatch::apply(&data_dir.to_string_lossy(), &p.to_string_lossy());
            }
        }
    }
});

//! C17 -- untrusted user and launcher files never crash the caller (fault enumeration in isolated workers).
use crate::engine::util::pack_files;
use crate::engine::worker::{self, Outcome, Request};
use crate::engine::*;
use crate::props::mutate::{Mut, Pos};
use crate::props::robust::*;
use proptest::prelude::*;
use std::sync::OnceLock;

fn utf16be(s: &str) -> Vec<u8> {
    s.encode_utf16().flat_map(|u| u.to_be_bytes()).collect()
}

fn chat_log(entries: &[(u32, u8, u8, &str)]) -> Vec<u8> {
    // content size 0, file size N, N offsets, entries (time, filter, channel, u32, text)
    let mut w = crate::build::W::new();
    w.u32(0).u32(entries.len() as u32);
    let mut off = 0u32;
    for e in entries {
        w.u32(off);
        off += 10 + e.3.len() as u32;
    }
    for e in entries {
        w.u32(e.0).u8(e.1).u8(e.2).u32(1).bytes(e.3.as_bytes());
    }
    w.b
}

fn launcher_exe(url: &str, prefix: usize, suffix: usize, terminated: bool) -> Vec<u8> {
    let mut b = crate::build::mdl::random_bytes(7, prefix);
    // make sure the random prefix does not contain the needle's first bytes by accident: it cannot (random)
    b.extend_from_slice(&utf16be(url));
    if terminated {
        b.extend_from_slice(&[0, 0]);
    }
    b.extend_from_slice(&crate::build::mdl::random_bytes(9, suffix));
    b
}

fn build_registry() -> Registry {
    let ctx = Ctx::new("C17", Tier::Quick, 0, true);
    // the thorough tier sweeps three times as many generated seed files per format
    let k = global_tier().pick(1usize, 3usize);
    let mut seeds: Vec<SeedFile> = vec![];
    let (cfgs, exls) = crate::props::c08::seed_files(&ctx, 3 * k);
    for (n, b) in cfgs {
        seeds.push(SeedFile::new("cfg", n, b));
    }
    // hand-written shapes next to the generated ones: categories without keys, repeated keys, no trailing NUL
    seeds.push(SeedFile::new("cfg", "hand", b"\r\n<A>\r\nk\tv\r\nk\tw\r\n\r\n<B>\r\n\r\n<C>\r\nLanguage\t1\r\nx\t\r\n".to_vec()));
    for (n, b) in exls {
        seeds.push(SeedFile::new("exl", n, b));
    }
    let (presets, tables) = crate::props::c09::seed_files(&ctx, 2 * k);
    for (n, b) in presets {
        seeds.push(SeedFile::new("chardat", n, b).magic(4));
    }
    for (n, b) in tables {
        let marks: Vec<u32> = std::iter::once(17u32).chain((0..=100u32).map(|k| 21 + 452 * k)).collect();
        seeds.push(SeedFile::new("gearsets", n, b).magic(4).marks(marks));
    }
    let (fiins, boots, games) = crate::props::c10::seed_files(&ctx, 2 * k);
    for (n, b) in fiins {
        let marks: Vec<u32> = (0..=b.len() as u32 / 96).map(|k| 1024 + 96 * k).collect();
        seeds.push(SeedFile::new("fiin", n, b).magic(8).marks(marks));
    }
    for (n, b) in boots {
        seeds.push(SeedFile::new("patchlist-boot", n, b));
    }
    for (n, b) in games {
        seeds.push(SeedFile::new("patchlist-game", n, b));
    }
    // the two lists the repository's own tests parse
    seeds.push(SeedFile::new("patchlist-boot", "repo-test", b"--477D80B1_38BC_41d4_8B48_5273ADB89CAC\r\nContent-Type: application/octet-stream\r\nContent-Location: ffxivpatch/2b5cbc63/metainfo/D2013.06.18.0000.0000.http\r\nX-Patch-Length: 19458977\r\n\r\n19458977\t42965800\t71\t11\t2023.09.15.0000.0001\thttp://patch-dl.ffxiv.com/boot/2b5cbc63/D2023.09.15.0000.0001.patch\r\n--477D80B1_38BC_41d4_8B48_5273ADB89CAC--\r\n".to_vec()));
    seeds.push(SeedFile::new("patchlist-game", "repo-test", b"--477D80B1_38BC_41d4_8B48_5273ADB89CAC\r\nContent-Type: application/octet-stream\r\nContent-Location: ffxivpatch/4e9a232b/metainfo/2023.07.26.0000.0000.http\r\nX-Patch-Length: 1664916486\r\n\r\n1479062470\t44145529682\t71\t11\t2023.09.15.0000.0000\tsha1\t50000000\t1c66becde2a8cf26a99d0fc7c06f15f8bab2d87c,950725418366c965d824228bf20f0496f81e0b9a,cabef48f7bf00fbf18b72843bdae2f61582ad264\thttp://patch-dl.ffxiv.com/game/4e9a232b/D2023.09.15.0000.0000.patch\r\n61259063\t44145955874\t71\t11\t2023.09.15.0000.0001\tsha1\t50000000\t18e3b40a2f7a6e9b4b5c9b1c6b1a1b4e6e4d2c3a,1c66becde2a8cf26a99d0fc7c06f15f8bab2d87c\thttp://patch-dl.ffxiv.com/game/4e9a232b/D2023.09.15.0000.0001.patch\r\n--477D80B1_38BC_41d4_8B48_5273ADB89CAC--\r\n".to_vec()));
    // chat logs (hand-built from the reader's layout)
    seeds.push(SeedFile::new("log", "three", chat_log(&[(1_700_000_000, 3, 0, "Welcome to Eorzea!"), (1_700_000_005, 64, 3, "You obtain 3 gil."), (1_700_000_009, 41, 51, "The striking dummy takes 12 damage.")])).marks(vec![8, 20]));
    seeds.push(SeedFile::new("log", "one", chat_log(&[(5, 20, 2, "x")])));
    seeds.push(SeedFile::new("log", "utf8", chat_log(&[(1, 57, 8, "caf\u{e9} \u{2192} \u{1F600}"), (2, 29, 50, "")])));
    // launcher executables
    seeds.push(SeedFile::new("exe", "new-url", launcher_exe("https://launcher.finalfantasyxiv.com/v600/index.html?rc_lang=en", 200, 100, true)).marks(vec![200, 200 + 2 * 63]));
    seeds.push(SeedFile::new("exe", "old-url", launcher_exe("https://frontier.ffxiv.com/version_5_0_win/index.html", 40, 0, true)));
    seeds.push(SeedFile::new("exe", "url-at-end", launcher_exe("https://launcher.finalfantasyxiv.com/v700/", 64, 0, false)));
    // patches
    let exps: Vec<(String, Vec<u8>)> = crate::props::c03::seed_exps().into_iter().map(|e| (format!("sqpack/{}/", e), vec![])).collect();
    {
        let (bytes, eof_at) = all_chunks_patch();
        let mut s = SeedFile::new("zipatch", "all-chunks", bytes.clone());
        s.args = vec![bytes.clone(), pack_files(&exps), vec![0]];
        s.magic = 12;
        s.must_fail_below = Some(eof_at + 8);
        s.marks = chunk_marks(&bytes);
        seeds.push(s);
    }
    {
        // an AddFile whose first block is empty and whose second block carries the file: valid, and the place
        // where block-size arithmetic decides whether the reader makes progress
        use crate::build::deflate::Mode;
        use crate::build::zipatch as zp;
        let mut b = zp::file_header();
        b.extend_from_slice(&zp::target_info(0, -1, false, 0));
        let blocks = vec![zp::file_block(b"", Mode::Raw), zp::file_block(b"thirteen byte", Mode::Raw), zp::file_block(b"", Mode::Raw)];
        b.extend_from_slice(&zp::file_op(b'A', 0, 13, 0, "boot/empty-first.bin", &blocks));
        let eof_at = b.len();
        b.extend_from_slice(&zp::eof());
        let mut s = SeedFile::new("zipatch", "empty-blocks", b.clone());
        s.args = vec![b.clone(), pack_files(&exps), vec![0]];
        s.magic = 12;
        s.must_fail_below = Some(eof_at + 8);
        s.marks = chunk_marks(&b);
        seeds.push(s);
    }
    for (n, bytes, initial, eof_at) in crate::props::c03::seed_patches(&ctx, 4 * k) {
        let mut tree = exps.clone();
        tree.extend(initial);
        let mut s = SeedFile::new("zipatch", n, bytes.clone());
        s.args = vec![bytes.clone(), pack_files(&tree), vec![0]];
        s.magic = 12;
        s.must_fail_below = Some(eof_at + 8);
        s.marks = chunk_marks(&bytes);
        seeds.push(s);
    }
    // boot data: version file contents, and a patch applied through BootData
    let mut s = SeedFile::new("bootdata", "ver", b"2012.01.01.0000.0000".to_vec());
    s.args = vec![vec![3], b"2012.01.01.0000.0000".to_vec()];
    s.target = 1;
    seeds.push(s);
    if let Some((_, bytes, _, _)) = crate::props::c03::seed_patches(&ctx, 1).into_iter().next() {
        let mut s = SeedFile::new("bootdata", "patch", bytes.clone());
        s.args = vec![vec![3], b"2012.01.01.0000.0000".to_vec(), bytes];
        s.target = 2;
        s.magic = 12;
        seeds.push(s);
    }
    // blowfish: fixed valid keys, arbitrary data
    for (i, key) in [&b"abcdefgh"[..], &b"0123456789abcdef"[..], &[0xFFu8; 56][..]].iter().enumerate() {
        let mut s = SeedFile::new("blowfish", format!("key{}", i), b"hello, world! 0123456789".to_vec());
        s.args = vec![key.to_vec(), b"hello, world! 0123456789".to_vec()];
        s.target = 1;
        seeds.push(s);
    }
    Registry::new(seeds)
}

/// text-like content that deflates well (so that deflated blocks have real Huffman-coded payloads)
fn compressible(n: usize) -> Vec<u8> {
    (0..n).map(|i| b"The quick brown fox jumps over the lazy dog. 0123456789\n"[(i * 7 + i / 13) % 56]).collect()
}

/// one patch that contains every chunk and command kind, with a multi-block AddFile mixing raw and deflated blocks
fn all_chunks_patch() -> (Vec<u8>, usize) {
    use crate::build::deflate::Mode;
    use crate::build::zipatch as zp;
    let mut b = zp::file_header();
    b.extend_from_slice(&zp::fhdr(true, 7));
    b.extend_from_slice(&zp::aply(1, 0));
    b.extend_from_slice(&zp::dir_chunk(true, "sqpack/ex1"));
    b.extend_from_slice(&zp::target_info(0, -1, false, 1));
    b.extend_from_slice(&zp::patch_info(1, 2, 1000));
    b.extend_from_slice(&zp::index_cmd(true, false, 0x1234_5678_9abc_def0, 3, 1));
    b.extend_from_slice(&zp::add_data(2, 0x0100, 0, 2, &[0xAB; 256], 1));
    b.extend_from_slice(&zp::delete_or_expand(false, 2, 0x0100, 0, 1, 1));
    b.extend_from_slice(&zp::delete_or_expand(true, 2, 0x0100, 1, 0, 2));
    b.extend_from_slice(&zp::header_update(false, b'V', 2, 0x0100, 0, &[3u8; 1024]));
    b.extend_from_slice(&zp::header_update(true, b'I', 2, 0x0100, 0, &[4u8; 1024]));
    let c1 = compressible(700);
    let c2 = compressible(300);
    let blocks = vec![zp::file_block(&c1, Mode::Dynamic), zp::file_block(b"raw block", Mode::Raw), zp::file_block(&c2, Mode::Fixed), zp::file_block(&c2[..40], Mode::Stored)];
    b.extend_from_slice(&zp::file_op(b'A', 0, (700 + 9 + 300 + 40) as u64, 0, "boot/data/file.bin", &blocks));
    b.extend_from_slice(&zp::file_op(b'M', 0, 0, 0, "movie/ffxiv/dir/x", &[]));
    b.extend_from_slice(&zp::file_op(b'D', 0, 0, 0, "boot/data/file.bin", &[]));
    b.extend_from_slice(&zp::file_op(b'R', 0, 0, 2, "", &[]));
    b.extend_from_slice(&zp::dir_chunk(false, "old"));
    let eof_at = b.len();
    b.extend_from_slice(&zp::eof());
    (b, eof_at)
}

/// Leak probes: the same failing call repeated; the residual heap must not grow per call. The failing shape is a
/// deflated AddFile block whose stream is damaged at each of its first 96 bytes (and whose declared size is wrong).
fn leak_probes(_: &Ctx) -> Vec<RCase> {
    use crate::build::deflate::Mode;
    use crate::build::zipatch as zp;
    let reg = registry();
    let s = reg.get("zipatch", "all-chunks").expect("all-chunks seed");
    let patch = s.args[0].clone();
    let first = zp::file_block(&compressible(700), Mode::Dynamic);
    let at = patch.windows(first.len()).position(|w| w == &first[..]).expect("block inside patch");
    let mut v = vec![];
    for i in 0..96usize {
        let mut p = patch.clone();
        p[at + 16 + i] ^= 0x5A;
        let mut c = RCase::explicit("zipatch", "leak:damaged-deflate-stream", vec![p, s.args[1].clone(), vec![0]]);
        c.reps = 120;
        v.push(c);
    }
    for delta in [1i32, -1, 1000] {
        let mut p = patch.clone();
        let y = i32::from_le_bytes([p[at + 12], p[at + 13], p[at + 14], p[at + 15]]) + delta;
        p[at + 12..at + 16].copy_from_slice(&y.to_le_bytes());
        let mut c = RCase::explicit("zipatch", "leak:wrong-declared-size", vec![p, s.args[1].clone(), vec![0]]);
        c.reps = 120;
        v.push(c);
    }
    // every single-field corruption of that block's 16-byte header (sizes 0, huge, off by a block ...), repeated
    v.extend(header_leak_cases("zipatch", "leak:block-header-field", &[patch.clone(), s.args[1].clone(), vec![0]], 0, at, 16, 120));
    // control: the undamaged patch, repeated (must not be reported)
    let mut c = RCase::explicit("zipatch", "leak:control-valid-patch", vec![patch, s.args[1].clone(), vec![0]]);
    c.reps = 120;
    v.push(c);
    v
}

/// (offset of the 16-byte block header, stored length, declared inflated length) of every deflated block of every
/// AddFile command of a well-formed patch
fn deflated_blocks(b: &[u8]) -> Vec<(usize, usize, usize)> {
    let mut out = vec![];
    let mut at = 12usize;
    while at + 8 <= b.len() {
        let size = u32::from_be_bytes([b[at], b[at + 1], b[at + 2], b[at + 3]]) as usize;
        let tag = &b[at + 4..at + 8];
        if tag == b"EOF_" || at + 8 + size > b.len() {
            break;
        }
        let body = at + 8;
        if tag == b"SQPK" && size > 5 + 27 && b[body + 4] == b'F' && b[body + 5] == b'A' {
            // inner size (4), command (1), operation (1), padding (2), offset (8), size (8), path length (4), expansion (2), padding (2), path
            let path_len = u32::from_be_bytes([b[body + 24], b[body + 25], b[body + 26], b[body + 27]]) as usize;
            let mut p = body + 32 + path_len;
            let end = body + size;
            while p + 16 <= end {
                let stored = i32::from_le_bytes([b[p + 8], b[p + 9], b[p + 10], b[p + 11]]);
                let inflated = i32::from_le_bytes([b[p + 12], b[p + 13], b[p + 14], b[p + 15]]) as usize;
                let payload = if stored == 32000 { inflated } else { stored as usize };
                if stored != 32000 {
                    out.push((p, stored as usize, inflated));
                }
                p += (payload + 143) & !127;
            }
        }
        at += 8 + size + 4;
    }
    out
}

/// "A patch that fails part-way reports an error rather than success": every deflated AddFile block of the seed
/// patches with one byte of its stream damaged. Whether the damage makes the stream undecodable is decided by an
/// independent inflater (miniz_oxide) given exactly the bytes and the output bound Physis' reader has; where it
/// does (invalid, incomplete, or more output than the block declares), apply must return Err.
fn damaged_blocks(ctx: &Ctx) -> Vec<RCase> {
    let reg = registry();
    let cap = ctx.tier.pick(160usize, 2000usize);
    let mut v = vec![];
    for s in reg.seeds.iter().filter(|s| s.entry == "zipatch") {
        let patch = &s.args[0];
        for (bi, (at, stored, inflated)) in deflated_blocks(patch).into_iter().enumerate() {
            let region = ((stored + 143) & !127) - 16;
            for i in crate::props::mutate::sweep_offsets(stored, cap) {
                for mask in [0x01u8, 0x20, 0xFF] {
                    let mut p = patch.clone();
                    p[at + 16 + i as usize] ^= mask;
                    let undecodable = miniz_oxide::inflate::decompress_to_vec_with_limit(&p[at + 16..at + 16 + region], inflated).is_err();
                    let mut c = RCase::explicit("zipatch", if undecodable { "damaged-block:undecodable" } else { "damaged-block:still-decodable" }, vec![p, s.args[1].clone(), vec![0]]);
                    if undecodable {
                        c = c.expect_err();
                        c.note = format!("damaged-block:undecodable: seed {}, deflated block #{} ({} -> {} bytes), stream byte {} xor {:#04x}", s.name, bi, stored, inflated, i, mask);
                    }
                    v.push(c);
                }
            }
        }
    }
    v
}

/// "A patch that fails part-way reports an error rather than success": every byte of the seed patches that *names*
/// what a chunk is (first byte of the chunk tag, SQPK command letter, file-operation letter, file and header kind of a
/// header update) set to values that name nothing (0x00, 0xFF, 'Q', the lower-case letter). Chunk sizes stay
/// correct, so a reader could skip the chunk - but a command it cannot identify is a command it has not applied.
fn unknown_commands(_: &Ctx) -> Vec<RCase> {
    let reg = registry();
    let mut v = vec![];
    for s in reg.seeds.iter().filter(|s| s.entry == "zipatch") {
        let b = &s.args[0];
        let mut at = 12usize;
        let mut spots: Vec<(usize, &str)> = vec![];
        while at + 8 <= b.len() {
            let size = u32::from_be_bytes([b[at], b[at + 1], b[at + 2], b[at + 3]]) as usize;
            let tag = &b[at + 4..at + 8];
            if tag == b"EOF_" || at + 8 + size > b.len() {
                break;
            }
            spots.push((at + 4, "chunk tag"));
            let body = at + 8;
            if tag == b"SQPK" && size >= 6 {
                spots.push((body + 4, "SQPK command"));
                match b[body + 4] {
                    b'F' => spots.push((body + 5, "file operation")),
                    b'H' if size >= 7 => {
                        spots.push((body + 5, "header update file kind"));
                        spots.push((body + 6, "header update header kind"));
                    }
                    _ => {}
                }
            }
            at += 8 + size + 4;
        }
        for (pos, what) in spots {
            for val in [0x00u8, 0xFF, b'Q', b[pos].to_ascii_lowercase()] {
                if val == b[pos] {
                    continue;
                }
                let mut p = b.clone();
                p[pos] = val;
                let mut c = RCase::explicit("zipatch", "unknown-command", vec![p, s.args[1].clone(), vec![0]]).expect_err();
                c.note = format!("unknown-command: seed {}, {} at offset {} set to {:#04x}", s.name, what, pos, val);
                v.push(c);
            }
        }
    }
    v
}

/// chunk boundaries of a ZiPatch stream (12-byte file header, then BE size + tag + body + crc)
fn chunk_marks(b: &[u8]) -> Vec<u32> {
    let mut v = vec![12u32];
    let mut at = 12usize;
    while at + 8 <= b.len() {
        let size = u32::from_be_bytes([b[at], b[at + 1], b[at + 2], b[at + 3]]) as usize;
        let tag = &b[at + 4..at + 8];
        if tag == b"EOF_" {
            break;
        }
        // inner SQPK header
        v.push(at as u32 + 8);
        v.push(at as u32 + 13);
        at += 8 + size + 4;
        v.push(at as u32);
    }
    v
}

pub fn registry() -> &'static Registry {
    static R: OnceLock<Registry> = OnceLock::new();
    R.get_or_init(build_registry)
}

fn prop(c: &RCase, ctx: &Ctx) -> PResult {
    run(registry(), c, ctx)
}

fn truncations(ctx: &Ctx) -> Vec<RCase> {
    truncation_cases(registry(), ctx.tier.pick(4096, 65536))
}

fn fields(ctx: &Ctx) -> Vec<RCase> {
    field_cases(registry(), ctx.tier.pick(768, 8192), ctx.tier.pick(3, 99))
}

fn text_fields(_: &Ctx) -> Vec<RCase> {
    text_field_cases(registry(), &[("cfg", b"\t<>"), ("exl", b","), ("patchlist-boot", b"\t: "), ("patchlist-game", b"\t,: ")])
}

fn case_mapping(ctx: &Ctx) -> Vec<RCase> {
    case_mapping_cases(registry(), &["cfg", "exl", "patchlist-boot", "patchlist-game"], ctx.tier.pick(1024, 8192), ctx.tier.pick(2, 99))
}

/// Chat logs built from the layout with every shape of offset table over a tail in which every 10-byte unit is a
/// well-formed entry header: sorted (valid), descending, zig-zag, constant, one swap, shuffled. An unsorted table makes
/// message ranges overlap, so the text a reader hands out is out of proportion to the file unless it rejects them.
fn log_tables(ctx: &Ctx) -> Vec<RCase> {
    let mut v = vec![];
    let sizes: Vec<usize> = ctx.tier.pick(vec![16usize, 1000, 20000], vec![16usize, 1000, 20000, 90000]);
    for k in sizes {
        let mut tail = crate::build::W::new();
        for i in 0..k as u32 {
            tail.u32(1_700_000_000 + i).u8(3).u8(0).u32(1);
        }
        let step = |i: usize| (10 * i) as u32;
        let mut tables: Vec<(&str, Vec<u32>)> = vec![
            ("sorted", (0..k).map(step).collect()),
            ("descending", (0..k).rev().map(step).collect()),
            ("zig-zag", (0..k).map(|i| if i % 2 == 0 { step(i / 2) } else { step(k - 1 - i / 2) }).collect()),
            ("constant-zero", vec![0; k]),
            ("constant-last", vec![step(k - 1); k]),
            ("one-swap", (0..k).map(|i| if i == k / 2 { step(k / 2 + 1) } else if i == k / 2 + 1 { step(k / 2) } else { step(i) }).collect()),
        ];
        let mut shuffled: Vec<u32> = (0..k).map(step).collect();
        let mut x = k as u64;
        for i in (1..k).rev() {
            x = util::splitmix64(x);
            shuffled.swap(i, (x % (i as u64 + 1)) as usize);
        }
        tables.push(("shuffled", shuffled));
        for (name, t) in tables {
            let mut w = crate::build::W::new();
            w.u32(0).u32(k as u32);
            for o in &t {
                w.u32(*o);
            }
            w.bytes(&tail.b);
            let mut c = RCase::explicit("log", "log-table", vec![w.b]);
            c.note = format!("log-table: {} entries, offset table {}", k, name);
            v.push(c);
        }
    }
    v
}

/// Well-formed files at the upper end of the quantifier's size (1 MiB) made of as many distinct small records as fit:
/// work that grows faster than the input (a scan per record, a copy per record) crosses the CPU budget here.
fn scale(_: &Ctx) -> Vec<RCase> {
    scale_at(1 << 20)
}

fn growth(_: &Ctx) -> Vec<GrowthCase> {
    growth_cases(scale_at(1 << 20), scale_at(1 << 19))
}

fn prop_growth(c: &GrowthCase, ctx: &Ctx) -> PResult {
    run_growth(registry(), c, ctx)
}

#[allow(non_snake_case)]
fn scale_at(MAX: usize) -> Vec<RCase> {
    let b36 = |mut n: usize| {
        let mut s = vec![];
        loop {
            s.push(b"0123456789abcdefghijklmnopqrstuvwxyz"[n % 36]);
            n /= 36;
            if n == 0 {
                break;
            }
        }
        s.reverse();
        String::from_utf8(s).unwrap()
    };
    let fill = |rec: &dyn Fn(usize) -> String, head: &str, tail: &str| -> Vec<u8> {
        let mut out = head.as_bytes().to_vec();
        let mut i = 0;
        loop {
            let r = rec(i);
            if out.len() + r.len() + tail.len() > MAX {
                break;
            }
            out.extend_from_slice(r.as_bytes());
            i += 1;
        }
        out.extend_from_slice(tail.as_bytes());
        out
    };
    let mut v = vec![];
    let mut push = |entry: &str, what: &str, bytes: Vec<u8>| {
        let mut c = RCase::explicit(entry, "scale", vec![bytes]);
        c.note = format!("scale: {}", what);
        v.push(c);
    };
    push("cfg", "1 MiB of distinct empty categories", fill(&|i| format!("<{}>\r\n", b36(i)), "", ""));
    push("cfg", "1 MiB of distinct categories with one key each", fill(&|i| format!("<{}>\r\n{}\t{}\r\n\r\n", b36(i), b36(i), i % 7), "", ""));
    push("cfg", "1 MiB of distinct keys in one category", fill(&|i| format!("{}\t1\r\n", b36(i)), "<A>\r\n", ""));
    push("cfg", "1 MiB of one repeated category and key", fill(&|_| "<A>\r\nLanguage\t1\r\n".to_string(), "", ""));
    push("exl", "1 MiB of distinct rows", fill(&|i| format!("{},{}\n", b36(i), i), "EXLT,2\n", ""));
    push("exl", "1 MiB of the same row", fill(&|_| "Achievement,1\n".to_string(), "EXLT,2\n", ""));
    let head = "--477D80B1_38BC_41d4_8B48_5273ADB89CAC\r\nContent-Type: application/octet-stream\r\nContent-Location: ffxivpatch/2b5cbc63/metainfo/D2013.06.18.0000.0000.http\r\nX-Patch-Length: 19458977\r\n\r\n";
    let tail = "--477D80B1_38BC_41d4_8B48_5273ADB89CAC--\r\n";
    push("patchlist-boot", "1 MiB of boot entries", fill(&|i| format!("{}\t{}\t71\t11\t2023.09.15.0000.{:04}\thttp://patch-dl.ffxiv.com/boot/2b5cbc63/D{}.patch\r\n", 1000 + i, 2000 + i, i % 10000, b36(i)), head, tail));
    push("patchlist-game", "1 MiB of game entries with many hashes", fill(&|i| format!("{}\t{}\t71\t11\t2023.09.15.0000.{:04}\tsha1\t50000000\t{}\thttp://patch-dl.ffxiv.com/game/4e9a232b/D{}.patch\r\n", 1000 + i, 2000 + i, i % 10000, vec!["1c66becde2a8cf26a99d0fc7c06f15f8bab2d87c"; 1 + i % 5].join(","), b36(i)), head, tail));
    push("patchlist-game", "one game entry with 1 MiB of hashes", {
        let n = (MAX - 400) / 41;
        format!("{}1\t2\t71\t11\t2023.09.15.0000.0000\tsha1\t50000000\t{}\thttp://patch-dl.ffxiv.com/game/4e9a232b/D.patch\r\n{}", head, vec!["1c66becde2a8cf26a99d0fc7c06f15f8bab2d87c"; n].join(","), tail).into_bytes()
    });
    // file-info table with as many records as fit
    {
        let n = (MAX - 1024) / 96;
        let mut w = crate::build::W::new();
        w.bytes(b"FileInfo").zeros(16).i32(1024).i32((96 * n) as i32);
        w.pad_to(1024);
        for i in 0..n {
            let name = format!("file{}.bin", b36(i));
            w.i32(i as i32).zeros(4);
            let mut nm = name.into_bytes();
            nm.resize(64, 0);
            w.bytes(&nm);
            w.fill(20, (i % 251) as u8).zeros(4);
        }
        push("fiin", "1 MiB of records", w.b);
    }
    v
}

fn seeds_as_they_are(_: &Ctx) -> Vec<RCase> {
    seed_cases(registry())
}

fn mutants(_: &Ctx) -> BoxedStrategy<RCase> {
    mutant_strategy(registry())
}

fn blobs(ctx: &Ctx) -> BoxedStrategy<RCase> {
    blob_strategy(registry(), ctx.tier.pick(64 << 10, 1 << 20))
}

/// I/O fault sequences: missing files, paths of the wrong kind, unwritable targets, truncated patch streams
fn io_faults(_: &Ctx) -> Vec<RCase> {
    let reg = registry();
    let mut v = vec![];
    // launcher executable
    v.push(RCase::explicit("exe", "io:missing-path", vec![vec![], vec![1]]));
    v.push(RCase::explicit("exe", "io:path-is-directory", vec![vec![], vec![2]]));
    v.push(RCase::explicit("exe", "io:empty-file", vec![vec![], vec![0]]));
    // boot directory
    for mode in 0u8..3 {
        v.push(RCase::explicit("bootdata", ["io:missing-directory", "io:directory-is-a-file", "io:no-version-file"][mode as usize], vec![vec![mode]]));
    }
    v.push(RCase::explicit("bootdata", "io:version-file-not-utf8", vec![vec![3], vec![0xFF, 0xFE, 0x00, 0xC3]]));
    // file-info table from a list of paths
    let files = pack_files(&[("a.bin".to_string(), vec![1, 2, 3]), ("sub/b.bin".to_string(), vec![]), ("dir/".to_string(), vec![])]);
    v.push(RCase::explicit("fiin-new", "io:all-present", vec![files.clone(), b"a.bin\nsub/b.bin".to_vec()]));
    v.push(RCase::explicit("fiin-new", "io:missing-file", vec![files.clone(), b"a.bin\nmissing.bin".to_vec()]));
    v.push(RCase::explicit("fiin-new", "io:path-is-directory", vec![files.clone(), b"dir".to_vec()]));
    v.push(RCase::explicit("fiin-new", "io:no-files", vec![files.clone(), vec![]]));
    // patches
    for s in reg.seeds.iter().filter(|s| s.entry == "zipatch") {
        let patch = s.args[0].clone();
        let tree = s.args[1].clone();
        v.push(RCase::explicit("zipatch", "io:patch-file-missing", vec![patch.clone(), tree.clone(), vec![1]]).expect_err());
        v.push(RCase::explicit("zipatch", "io:patch-path-is-directory", vec![patch.clone(), tree.clone(), vec![2]]).expect_err());
        v.push(RCase::explicit("zipatch", "io:data-directory-is-a-file", vec![patch.clone(), tree.clone(), vec![3]]));
        v.push(RCase::explicit("zipatch", "io:data-directory-missing", vec![patch.clone(), tree.clone(), vec![4]]));
        v.push(RCase::explicit("zipatch", "io:empty-patch-file", vec![vec![], tree.clone(), vec![0]]).expect_err());
    }
    // unwritable targets: every command kind aimed at a path whose parent is a regular file / that is a directory
    use crate::build::zipatch as zp;
    let head = |body: Vec<Vec<u8>>| -> Vec<u8> {
        let mut b = zp::file_header();
        b.extend_from_slice(&zp::target_info(0, -1, false, 0));
        for c in body {
            b.extend_from_slice(&c);
        }
        b.extend_from_slice(&zp::eof());
        b
    };
    let blk = zp::file_block(b"payload-bytes", crate::build::deflate::Mode::Raw);
    // sqpack/ffxiv is a regular file: in-place commands cannot create their dat file
    let blocked = pack_files(&[("sqpack/ffxiv".to_string(), b"i am a file".to_vec())]);
    let dat_dir = pack_files(&[("sqpack/ffxiv/020000.win32.dat0/".to_string(), vec![]), ("sqpack/ffxiv/020000.win32.index/".to_string(), vec![])]);
    let cmds: Vec<(&str, Vec<u8>)> = vec![
        ("add-data", zp::add_data(2, 0, 0, 0, &[7u8; 128], 0)),
        ("delete-data", zp::delete_or_expand(false, 2, 0, 0, 0, 1)),
        ("expand-data", zp::delete_or_expand(true, 2, 0, 0, 0, 1)),
        ("header-update-dat", zp::header_update(false, b'V', 2, 0, 0, &[1u8; 1024])),
        ("header-update-index", zp::header_update(true, b'I', 2, 0, 0, &[1u8; 1024])),
    ];
    for (name, cmd) in &cmds {
        let mut c = RCase::explicit("zipatch", "io:unwritable-target", vec![head(vec![cmd.clone()]), blocked.clone(), vec![0]]).expect_err();
        c.note = format!("io:unwritable-target: {} where sqpack/ffxiv is a regular file", name);
        v.push(c);
        let mut c = RCase::explicit("zipatch", "io:unwritable-target", vec![head(vec![cmd.clone()]), dat_dir.clone(), vec![0]]).expect_err();
        c.note = format!("io:unwritable-target: {} where the target file name is an existing directory", name);
        v.push(c);
    }
    // the same blocked targets behind an APLY chunk (ignore-missing / ignore-old-mismatch set to 1, as retail patches
    // carry them): a directory sitting where the file has to go is not a missing file
    for (name, cmd) in &cmds {
        for option in [1u32, 2] {
            let mut c = RCase::explicit("zipatch", "io:unwritable-target", vec![head(vec![zp::aply(option, 1), cmd.clone()]), dat_dir.clone(), vec![0]]).expect_err();
            c.note = format!("io:unwritable-target: APLY option {} = 1, then {} where the target file name is an existing directory", option, name);
            v.push(c);
        }
    }
    // AddFile: parent is a regular file; target is an existing directory
    let addfile = zp::file_op(b'A', 0, 13, 0, "boot/readme.txt", &[blk.clone()]);
    let mut c = RCase::explicit("zipatch", "io:unwritable-target", vec![head(vec![addfile.clone()]), pack_files(&[("boot".to_string(), b"file".to_vec())]), vec![0]]).expect_err();
    c.note = "io:unwritable-target: AddFile boot/readme.txt where boot is a regular file".into();
    v.push(c);
    let mut c = RCase::explicit("zipatch", "io:unwritable-target", vec![head(vec![addfile.clone()]), pack_files(&[("boot/readme.txt/".to_string(), vec![])]), vec![0]]).expect_err();
    c.note = "io:unwritable-target: AddFile boot/readme.txt where that path is an existing directory".into();
    v.push(c);
    // write faults after a successful open: the target is a link to /dev/full (ENOSPC on every write), or the write
    // crosses the file-size limit (EFBIG)
    if std::path::Path::new("/dev/full").exists() {
        let small = zp::file_op(b'A', 128, 13, 0, "boot/full.bin", &[blk.clone()]);
        let mut c = RCase::explicit("zipatch", "io:write-fault", vec![head(vec![small]), pack_files(&[("boot/full.bin@".to_string(), b"/dev/full".to_vec())]), vec![0]]).expect_err();
        c.note = "io:write-fault: AddFile (13 bytes at offset 128) onto a link to /dev/full".into();
        v.push(c);
        let big_payload = crate::build::mdl::random_bytes(5, 9000);
        let big = zp::file_op(b'A', 128, 9000, 0, "boot/full.bin", &[zp::file_block(&big_payload, crate::build::deflate::Mode::Raw)]);
        let mut c = RCase::explicit("zipatch", "io:write-fault", vec![head(vec![big]), pack_files(&[("boot/full.bin@".to_string(), b"/dev/full".to_vec())]), vec![0]]).expect_err();
        c.note = "io:write-fault: AddFile (9000 bytes at offset 128) onto a link to /dev/full".into();
        v.push(c);
        for (name, cmd) in &cmds {
            let tree = pack_files(&[("sqpack/ffxiv/020000.win32.dat0@".to_string(), b"/dev/full".to_vec()), ("sqpack/ffxiv/020000.win32.index@".to_string(), b"/dev/full".to_vec())]);
            let mut c = RCase::explicit("zipatch", "io:write-fault", vec![head(vec![cmd.clone()]), tree, vec![0]]).expect_err();
            c.note = format!("io:write-fault: {} onto a link to /dev/full", name);
            v.push(c);
        }
    }
    {
        let far = zp::file_op(b'A', crate::engine::worker::FSIZE_LIMIT, 13, 0, "boot/far.bin", &[blk.clone()]);
        let mut c = RCase::explicit("zipatch", "io:write-fault", vec![head(vec![far]), vec![], vec![0]]).expect_err();
        c.note = "io:write-fault: AddFile whose write crosses the file-size limit (EFBIG)".into();
        v.push(c);
    }
    // MakeDirTree whose directory cannot be made: a regular file sits where the directory has to go (the command does
    // nothing else, so nothing later would notice), or at an inner component of the path
    for (blocked, what) in [("boot/tree", "a regular file sits at the directory's own path"), ("boot", "a regular file sits at an inner component")] {
        let mk = zp::file_op(b'M', 0, 0, 0, "boot/tree/leaf", &[]);
        let mut c = RCase::explicit("zipatch", "io:unwritable-target", vec![head(vec![mk]), pack_files(&[(blocked.to_string(), b"file".to_vec())]), vec![0]]).expect_err();
        c.note = format!("io:unwritable-target: MakeDirTree boot/tree/leaf where {}", what);
        v.push(c);
    }
    // commands before target info
    for (name, cmd) in &cmds {
        let mut b = zp::file_header();
        b.extend_from_slice(cmd);
        b.extend_from_slice(&zp::target_info(0, -1, false, 0));
        b.extend_from_slice(&zp::eof());
        let mut c = RCase::explicit("zipatch", "order:command-before-target-info", vec![b, pack_files(&[("sqpack/ffxiv/".to_string(), vec![])]), vec![0]]);
        c.note = format!("order:command-before-target-info: {}", name);
        v.push(c);
    }
    // AddFile whose declared size exceeds its blocks (stream ends inside the file) / zero-length block with size > 0
    let short = zp::file_op(b'A', 0, 5000, 0, "boot/short.bin", &[blk.clone()]);
    let mut c = RCase::explicit("zipatch", "io:truncated-stream", vec![head(vec![short]), vec![], vec![0]]);
    c.note = "io:truncated-stream: AddFile declares 5000 bytes but carries one 13-byte block".into();
    v.push(c);
    let empty_blk = zp::file_block(b"", crate::build::deflate::Mode::Raw);
    let zero = zp::file_op(b'A', 0, 10, 0, "boot/zero.bin", &[empty_blk.clone(), empty_blk]);
    let mut c = RCase::explicit("zipatch", "io:truncated-stream", vec![head(vec![zero]), vec![], vec![0]]);
    c.note = "io:truncated-stream: AddFile declares 10 bytes but its blocks are empty".into();
    v.push(c);
    // every command that cannot be carried out, once more between two AddFile commands that can: a failure in the middle of a
    // patch is a failure of the patch, whatever succeeds after it
    let ti = zp::target_info(0, -1, false, 0).len();
    let hl = zp::file_header().len();
    let el = zp::eof().len();
    let ok1 = zp::file_op(b'A', 0, 13, 0, "extra/ok1.bin", &[blk.clone()]);
    let ok2 = zp::file_op(b'A', 0, 13, 0, "extra/ok2.bin", &[blk.clone()]);
    let mut more = vec![];
    for c in v.iter().filter(|c| c.expect == "err" && (c.note.starts_with("io:unwritable-target") || c.note.starts_with("io:write-fault"))) {
        let p = match &c.args {
            Some(a) if !a.is_empty() => &a[0].0,
            _ => continue,
        };
        if p.len() < hl + ti + el || p[..hl] != zp::file_header()[..] {
            continue;
        }
        let mut b = p[..hl + ti].to_vec();
        b.extend_from_slice(&ok1);
        b.extend_from_slice(&p[hl + ti..p.len() - el]);
        b.extend_from_slice(&ok2);
        b.extend_from_slice(&zp::eof());
        let mut d = c.clone();
        if let Some(a) = d.args.as_mut() {
            a[0] = crate::engine::util::Bytes(b);
        }
        d.note = format!("{} - between two AddFile commands that succeed", c.note);
        more.push(d);
    }
    v.extend(more);
    v
}

/// The machinery must be able to see every outcome class: provoke each on purpose.
fn pre(ctx: &Ctx) {
    let probe = |mode: u8, reps: u32| worker::exec(&Request { entry: "selftest", reps, args: vec![&[mode]] });
    let mut problems = vec![];
    if probe(0, 1).0 != Outcome::Value {
        problems.push("value");
    }
    if probe(1, 1).0 != Outcome::Rejected {
        problems.push("rejected");
    }
    if !matches!(probe(2, 1).0, Outcome::Panic { .. }) {
        problems.push("panic");
    }
    if !matches!(probe(3, 1).0, Outcome::Died { refused: Some(_), .. }) {
        problems.push("refused allocation");
    }
    if !matches!(probe(8, 1).0, Outcome::Died { refused: Some(_), .. }) {
        problems.push("refused cumulative allocation");
    }
    match probe(5, 1).0 {
        Outcome::Died { ref stderr, .. } if stderr.contains("overflowed its stack") => {}
        _ => problems.push("stack overflow"),
    }
    if !matches!(probe(7, 1).0, Outcome::Died { .. }) {
        problems.push("abort");
    }
    let (o, st) = probe(6, 50);
    if o != Outcome::Value || st.growth < 38 * 4096 {
        problems.push("leak measurement");
    }
    let (o, st) = probe(0, 50);
    if o != Outcome::Value || st.growth >= 50 * 1024 {
        problems.push("leak measurement (false positive)");
    }
    if ctx.tier == Tier::Thorough && !matches!(probe(4, 1).0, Outcome::Hang { .. }) {
        problems.push("hang");
    }
    if !problems.is_empty() {
        ctx.infra(&format!("isolation worker self-test failed to observe: {}", problems.join(", ")));
    }
    ctx.class_n("selftest/outcome-classes-provoked", 9);
}

fn post(_: &Ctx) {
    dump_harvest("C17");
}

pub fn property() -> Property {
    Property {
        id: "C17",
        rule: "cases = (entry point, valid seed file, corruption) executed in an isolated worker process. Entry points: ConfigFile, EXL, FileInfo (from_existing and new), CharacterData, GearSets, ChatLog, PatchList (boot and game) from_string+to_string, ZiPatch::apply on a scratch tree, extract_frontier_url, BootData (+apply_patch), Blowfish on arbitrary data; values that parse are also written back / queried. Seeds: repository fixtures, output of the C03/C08/C09/C10 generators for fixed internal seeds, hand-built chat logs and launcher executables. Corruptions: every truncation point; every offset x width {1,2,4,8} x value {0, 1, 0x7F.., 0x80.., 0xFF.., +1, -1} x byte order; random compositions of truncate/field/bit-flip/byte/insert (incl. invalid UTF-8, NUL, line structure)/remove/duplicate/copy-range/append; random blobs up to 1 MiB behind intact magic; text formats with characters whose case mapping changes their UTF-8 length at every line start, and at the start of the text combined with every truncation / a two-byte character at every offset; well-formed 1 MiB files made of as many distinct small records as fit (cfg categories / keys, exl rows, patch-list entries and hashes, file-info records) against the CPU budget, and each of them against itself at half size (at least 1 s of CPU and more than 3.2 times the half-size time = work growing faster than the input); chat logs of 16 / 1000 / 20 000 (90 000 thorough) entries with sorted, descending, zig-zag, constant, swapped and shuffled offset tables; I/O fault recipes (missing path, path of the wrong kind, unwritable targets for every patch command, commands before target info, patch streams ending early). Oracle: worker outcome must be value or ordinary failure -- no panic, abort, stack overflow, more than 10 s CPU, or live heap above max(64 MiB, 256 x input); a patch stream without its end-of-file chunk, with an unwritable target, with a chunk tag / SQPK command letter / file-operation letter / header-update kind that names nothing (sizes intact), or with a deflated AddFile block whose stream an independent inflater (miniz_oxide) cannot decode within the declared size (every stream byte of every deflated block of the seed patches xor 0x01 / 0x20 / 0xFF) must return Err. Non-trivial: input differs from the seed, is non-empty and keeps the seed's magic; distinct by hash of (entry, arguments).",
        assumptions: &["Blowfish keys are 8..56 bytes (caller-chosen, not untrusted input; the key schedule reads the first 8 bytes)", "PatchList::from_string takes &str: arbitrary bytes are converted lossily to text first", "files a case writes are capped at 16 MiB by RLIMIT_FSIZE (reported to the library as an I/O error)", "wall-clock time is not judged; the CPU budget is 10 s per case"],
        pre: Some(pre),
        parts: vec![
            Box::new(Part { name: "seeds", driver: Driver::Enum(seeds_as_they_are), prop, exhaustive: true }),
            Box::new(Part { name: "io-faults", driver: Driver::Enum(io_faults), prop, exhaustive: true }),
            Box::new(Part { name: "leak-probes", driver: Driver::Enum(leak_probes), prop, exhaustive: false }),
            Box::new(Part { name: "unknown-commands", driver: Driver::Enum(unknown_commands), prop, exhaustive: true }),
            Box::new(Part { name: "damaged-blocks", driver: Driver::Enum(damaged_blocks), prop, exhaustive: true }),
            Box::new(Part { name: "scale", driver: Driver::Enum(scale), prop, exhaustive: true }),
            Box::new(Part { name: "scale-growth", driver: Driver::Enum(growth), prop: prop_growth, exhaustive: true }),
            Box::new(Part { name: "log-tables", driver: Driver::Enum(log_tables), prop, exhaustive: true }),
            Box::new(Part { name: "case-mapping", driver: Driver::Enum(case_mapping), prop, exhaustive: true }),
            Box::new(Part { name: "text-fields", driver: Driver::Enum(text_fields), prop, exhaustive: true }),
            Box::new(Part { name: "truncations", driver: Driver::Enum(truncations), prop, exhaustive: true }),
            Box::new(Part { name: "fields", driver: Driver::Enum(fields), prop, exhaustive: true }),
            Box::new(Part { name: "random-mutants", driver: Driver::Gen(mutants, 40_000, 3_000_000), prop, exhaustive: false }),
            Box::new(Part { name: "random-blobs", driver: Driver::Gen(blobs, 4_000, 200_000), prop, exhaustive: false }),
        ],
        post: Some(post),
    }
}

#[allow(dead_code)]
fn unused(_: Mut, _: Pos) {}

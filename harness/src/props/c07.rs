//! C07 — written models re-read as the same model, including after edits.
use crate::build::mdl::*;
use crate::engine::panics::guard;
use crate::engine::*;
use crate::props::c06::{self, case_strategy, compare_model, mesh_seed, realise, realise_mesh, sweep_spec, MeshSeed};
use crate::{ensure, ensure_eq};
use physis::model::{Vertex, MDL};
use proptest::collection::vec;
use proptest::prelude::*;
use serde::{Deserialize, Serialize};
use serde_json::json;

fn parse(bytes: &[u8], what: &str) -> Result<MDL, Failure> {
    match guard("MDL::from_existing", || MDL::from_existing(bytes))? {
        Some(m) => Ok(m),
        None => fail("model-rejected", format!("MDL::from_existing returned None for {}", what)),
    }
}

fn write(m: &MDL) -> Result<Vec<u8>, Failure> {
    match guard("MDL::write_to_buffer", || m.write_to_buffer())? {
        Some(b) => Ok(b),
        None => fail("write-none", "write_to_buffer returned None"),
    }
}

// ------------------------------------------------------------------------------------------------
// (a) round trip of unedited models
// ------------------------------------------------------------------------------------------------

fn prop_roundtrip_spec(spec: &ModelSpec, ctx: &Ctx) -> PResult {
    let built = encode(spec);
    let m1 = parse(&built.bytes, "the generated model")?;
    // When the offset copies the reader does not consult disagree with the ones it does, the statement does not say
    // which copy is authoritative: only Physis' own write -> parse consistency is asserted for such models.
    let skewed = spec.skew_unused_copies != 0;
    if !skewed {
        compare_model(&m1, &built.expected, spec, None).map_err(|f| Failure { slug: format!("first-parse/{}", f.slug), msg: f.msg })?;
    }
    let written = write(&m1)?;
    let m2 = match guard("MDL::from_existing", || MDL::from_existing(&written))? {
        Some(m) => m,
        None => return fail("rewritten-model-rejected", "the file written by write_to_buffer does not parse"),
    };
    // header: an unedited model is written with the header it was read with
    if written.len() < 0x44 || written[..0x44] != built.bytes[..0x44] {
        return fail("file-header-changed", format!("written header {} != original {}", util::hex_trunc(&written, 0x44), util::hex_trunc(&built.bytes, 0x44)));
    }
    if m1.model_data != m2.model_data {
        let a = format!("{:?}", m1.model_data);
        let b = format!("{:?}", m2.model_data);
        let pos = a.bytes().zip(b.bytes()).position(|(x, y)| x != y).unwrap_or(0);
        let from = pos.saturating_sub(160);
        return fail("model-data-differs", format!("re-parsed model_data differs from the original near: original …{}… vs re-parsed …{}…", &a[from..(pos + 80).min(a.len())], &b[from..(pos + 80).min(b.len())]));
    }
    if skewed {
        let (a, b) = (format!("{:?}", m1.lods), format!("{:?}", m2.lods));
        if a != b {
            let pos = a.bytes().zip(b.bytes()).position(|(x, y)| x != y).unwrap_or(0);
            let from = pos.saturating_sub(120);
            return fail("reparse/geometry-differs-from-first-parse", format!("a model whose unused offset copies disagree with the used ones is written and re-parsed to different geometry near: first parse …{}… vs re-parse …{}…", &a[from..(pos + 80).min(a.len())], &b[from..(pos + 80).min(b.len())]));
        }
        ensure_eq!(&m1.material_names, &m2.material_names, "reparse/material-names", "material names");
        ensure_eq!(&m1.affected_bone_names, &m2.affected_bone_names, "reparse/bone-names", "bone names");
        ctx.class("roundtrip:unused-offset-copies-disagree");
    } else {
        compare_model(&m2, &built.expected, spec, Some(ctx)).map_err(|f| Failure { slug: format!("reparse/{}", f.slug), msg: f.msg })?;
    }
    Ok(())
}

fn prop_roundtrip(c: &c06::Case, ctx: &Ctx) -> PResult {
    let mut spec = realise(c, &WRITE_PAIRS, true);
    if c.seed % 4 == 0 {
        spec.skew_unused_copies = 1 + ((c.seed >> 8) % 3) as u8;
    }
    prop_roundtrip_spec(&spec, ctx)?;
    let meshes: usize = spec.lods.iter().map(|l| l.len()).sum();
    ctx.classf(format!("roundtrip:lods:{}", spec.lods.len()));
    if meshes >= 2 {
        ctx.nontrivial(&encode(&spec).bytes);
        if ctx.want_sample() {
            ctx.sample(json!({"part": "roundtrip", "lods": spec.lods.iter().map(|l| l.iter().map(|m| json!({"vertices": m.vertex_count, "indices": m.indices.len(), "elements": m.elements.iter().map(|e| pair_name(e.usage, e.ty)).collect::<Vec<_>>()})).collect::<Vec<_>>()).collect::<Vec<_>>()}));
        }
    }
    Ok(())
}

fn roundtrip_strategy(_: &Ctx) -> BoxedStrategy<c06::Case> {
    case_strategy(40)
}

// (b) codec sweeps: every canonical encoding re-encodes to the stored bytes
fn sweep_cases(_: &Ctx) -> Vec<u8> {
    vec![0, 1]
}

fn prop_sweep(variant: &u8, ctx: &Ctx) -> PResult {
    let spec = sweep_spec(*variant, false, true);
    prop_roundtrip_spec(&spec, ctx)?;
    ctx.evals_add(spec.lods[0][0].vertex_count as u64);
    ctx.classf(format!("sweep-variant:{}", variant));
    ctx.nontrivial(format!("sweep{}", variant).as_bytes());
    Ok(())
}

// ------------------------------------------------------------------------------------------------
// (c) edit histories
// ------------------------------------------------------------------------------------------------

#[derive(Clone, Debug, Serialize, Deserialize)]
pub enum Edit {
    /// replace every mesh of a LOD: per mesh (new vertex count, new index count, sub-mesh weights, seed)
    ReplaceLod { lod: u8, meshes: Vec<(u16, u16, Vec<u8>, u64)> },
    RemoveShapeMeshes,
    /// after a removal: add empty shape meshes in order; (shape, lod, part, how many)
    AddEmptyShapeMeshes { items: Vec<(u8, u8, u8, u8)> },
}

#[derive(Clone, Debug, Serialize, Deserialize)]
pub struct EditCase {
    pub model: c06::Case,
    pub edits: Vec<Edit>,
}

fn edit_strategy(big: bool) -> BoxedStrategy<Edit> {
    let vc = if big { prop_oneof![1 => Just(65535u16), 1 => 1000u16..5000].boxed() } else { prop_oneof![1 => Just(0u16), 8 => 0u16..=300].boxed() };
    prop_oneof![
        6 => (0u8..3, vec((vc, prop_oneof![1 => Just(0u16), 6 => 0u16..600], vec(any::<u8>(), 1..=3), any::<u64>()), 3)).prop_map(|(lod, meshes)| Edit::ReplaceLod { lod, meshes }),
        1 => Just(Edit::RemoveShapeMeshes),
        1 => vec((0u8..3, 0u8..3, 0u8..3, 0u8..3), 0..5).prop_map(|items| Edit::AddEmptyShapeMeshes { items }),
    ]
    .boxed()
}

fn history_strategy(_: &Ctx) -> BoxedStrategy<EditCase> {
    (case_strategy(30), vec(edit_strategy(false), 1..=6)).prop_map(|(model, edits)| EditCase { model, edits }).boxed()
}

fn big_cases(_: &Ctx) -> Vec<EditCase> {
    // one case at the 65 535-vertex limit, one mid-size
    let mk = |vc: u16, seed: u64| {
        let m = MeshSeed { elems: vec![(0, 2, 0, 0, 0), (3, 0, 0, 0, 1), (4, 0, 1, 0, 2), (7, 0, 1, 0, 3)], stream_count: 2, tail_gaps: [0; 3], stream_gaps: [0; 3], vertex_count: 3, index_count: 3, material_index: 0, submesh_weights: vec![1], bone_table_index: 0, seed };
        EditCase {
            model: c06::Case { v6: false, lods: vec![vec![m.clone()], vec![m]], materials: vec!["/a.mtrl".into()], bones: vec!["j".into()], attributes: vec![], extra_strings: vec![], bone_tables: vec![vec![0]], shapes: vec![], element_ids: 0, bone_map: vec![], padding: 0, flags1_bit: 0, flags2_bit: 8, section_gap: 0, has_flags: (false, false), seed },
            edits: vec![Edit::ReplaceLod { lod: 0, meshes: vec![(vc, 900, vec![1, 2], seed ^ 5)] }, Edit::ReplaceLod { lod: 1, meshes: vec![(7, 12, vec![1], seed ^ 6)] }],
        }
    };
    vec![mk(65535, 1), mk(40000, 2)]
}

fn to_vertex(e: &ExpVertex) -> Vertex {
    Vertex { position: e.position, uv0: e.uv0, uv1: e.uv1, normal: e.normal, bitangent: e.bitangent, color: e.color, bone_weight: e.bone_weight.unwrap_or([0.0; 4]), bone_id: e.bone_id.unwrap_or([0; 4]) }
}

fn rd32(b: &[u8], at: usize) -> u32 {
    u32::from_le_bytes([b[at], b[at + 1], b[at + 2], b[at + 3]])
}
fn rd16(b: &[u8], at: usize) -> u16 {
    u16::from_le_bytes([b[at], b[at + 1]])
}

/// Independent reader of a version-5 file written by Physis: header self-consistency.
fn check_written_header(w: &[u8], spec: &ModelSpec) -> PResult {
    ensure!(w.len() >= 0x44, "written-too-short", "written file has {} bytes", w.len());
    let stack = rd32(w, 4) as usize;
    let runtime = rd32(w, 8) as usize;
    let decls = rd16(w, 12) as usize;
    let lod_count = w[64] as usize;
    ensure_eq!(stack, decls * 136, "header-stack-size", "stack size vs {} declarations", decls);
    ensure_eq!(lod_count, spec.lods.len(), "header-lod-count", "LOD count");
    // walk the runtime block
    let r0 = 0x44 + stack;
    ensure!(w.len() >= r0 + 8, "written-too-short", "no runtime block");
    let string_size = rd32(w, r0 + 4) as usize;
    let h = r0 + 8 + string_size; // 56-byte model header
    ensure!(w.len() >= h + 56, "written-too-short", "no model header");
    let cnt = |i: usize| rd16(w, h + 4 + 2 * i) as usize;
    let (mesh_count, attr_count, submesh_count, material_count, bone_count, bone_table_count, shape_count, shape_mesh_count, shape_value_count) = (cnt(0), cnt(1), cnt(2), cnt(3), cnt(4), cnt(5), cnt(6), cnt(7), cnt(8));
    let element_ids = rd16(w, h + 24) as usize;
    let lods_at = h + 56 + 32 * element_ids;
    let meshes_at = lods_at + 180;
    let mut p = meshes_at + 36 * mesh_count + 4 * attr_count + 16 * submesh_count + 4 * material_count + 4 * bone_count + 132 * bone_table_count + 16 * shape_count + 12 * shape_mesh_count + 4 * shape_value_count;
    ensure!(w.len() >= p + 4, "written-too-short", "runtime block truncated");
    let bone_map_size = rd32(w, p) as usize;
    p += 4 + bone_map_size;
    ensure!(w.len() > p, "written-too-short", "runtime block truncated at padding");
    let pad = w[p] as usize;
    p += 1 + pad + 4 * 32 + 32 * bone_count;
    let runtime_actual = p - r0;
    ensure_eq!(runtime, runtime_actual, "header-runtime-size", "runtime_size in the header vs the runtime block actually written");
    let data_start = 0x44 + stack + runtime;
    // sections
    let mut sections: Vec<(usize, usize, String)> = vec![(0, data_start, "header+stack+runtime".into())];
    let mut mesh_i = 0usize;
    for l in 0..lod_count {
        let voff = rd32(w, 16 + 4 * l) as usize;
        let ioff = rd32(w, 28 + 4 * l) as usize;
        let vsize = rd32(w, 40 + 4 * l) as usize;
        let isize_ = rd32(w, 52 + 4 * l) as usize;
        let rec = lods_at + 60 * l;
        let (r_mesh_index, r_mesh_count) = (rd16(w, rec) as usize, rd16(w, rec + 2) as usize);
        ensure_eq!((rd32(w, rec + 44) as usize, rd32(w, rec + 48) as usize, rd32(w, rec + 52) as usize, rd32(w, rec + 56) as usize), (vsize, isize_, voff, ioff), "lod-record-vs-header", "LOD {} record (vsize, isize, voff, ioff) vs file header", l);
        ensure_eq!(r_mesh_count, spec.lods[l].len(), "lod-mesh-count", "LOD {} mesh count", l);
        ensure_eq!(r_mesh_index, mesh_i, "lod-mesh-index", "LOD {} first mesh", l);
        let mut vbytes = 0usize;
        let mut ibytes = 0usize;
        for k in 0..r_mesh_count {
            let m = meshes_at + 36 * (mesh_i + k);
            let vc = rd16(w, m) as usize;
            let ic = rd32(w, m + 4) as usize;
            let start = rd32(w, m + 16) as usize;
            let sc = w[m + 35] as usize;
            let mut stride_sum = 0usize;
            for s in 0..sc.min(3) {
                let so = rd32(w, m + 20 + 4 * s) as usize;
                let st = w[m + 32 + s] as usize;
                stride_sum += st;
                ensure!(so + vc * st <= vsize, "stream-out-of-section", "LOD {} mesh {} stream {}: [{}, +{}) exceeds the vertex section of {} bytes", l, k, s, so, vc * st, vsize);
            }
            ensure!(2 * (start + ic) <= isize_, "indices-out-of-section", "LOD {} mesh {}: indices [{}, +{}) exceed the index section of {} bytes", l, k, start, ic, isize_);
            vbytes += vc * stride_sum;
            ibytes += 2 * ic;
        }
        mesh_i += r_mesh_count;
        ensure_eq!(vsize, vbytes, "vertex-buffer-size", "LOD {} vertex_buffer_size vs sum of count x strides", l);
        ensure!(isize_ % 16 == 0, "index-buffer-padding", "LOD {} index_buffer_size {} is not a multiple of 16", l, isize_);
        ensure!(isize_ >= ibytes, "index-buffer-size", "LOD {} index_buffer_size {} < bytes used {}", l, isize_, ibytes);
        // an empty section has no addressed bytes: its offset is not constrained
        ensure!(vsize == 0 || voff + vsize <= w.len(), "vertex-section-out-of-file", "LOD {} vertex section [{}, +{}) outside the {}-byte file", l, voff, vsize, w.len());
        ensure!(ibytes == 0 || ioff + ibytes <= w.len(), "index-section-out-of-file", "LOD {} used index bytes [{}, +{}) outside the {}-byte file", l, ioff, ibytes, w.len());
        if vsize > 0 {
            sections.push((voff, voff + vsize, format!("LOD {} vertex", l)));
        }
        if ibytes > 0 {
            sections.push((ioff, ioff + ibytes, format!("LOD {} index", l)));
        }
    }
    for i in 0..sections.len() {
        for j in i + 1..sections.len() {
            let (a, b) = (&sections[i], &sections[j]);
            ensure!(a.1 <= b.0 || b.1 <= a.0, "sections-overlap", "{} [{}, {}) overlaps {} [{}, {})", a.2, a.0, a.1, b.2, b.0, b.1);
        }
    }
    Ok(())
}

fn prop_history(c: &EditCase, ctx: &Ctx) -> PResult {
    let mut spec = realise(&c.model, &WRITE_PAIRS, true);
    let mut built = encode(&spec);
    // A third of the histories start from a file whose header understates the runtime block (a field the reader
    // does not consult): an edit must lay the file out from the real sizes, not from what the header claimed.
    // (only where an edit is actually carried out: a history without one writes the header back as it was read)
    if c.model.seed % 3 == 0 && c.edits.iter().any(|e| matches!(e, Edit::ReplaceLod { .. } | Edit::RemoveShapeMeshes)) {
        let declared = u32::from_le_bytes(built.bytes[8..12].try_into().unwrap());
        let lowered = declared.saturating_sub(64 * (1 + (c.model.seed >> 8) % 8) as u32);
        built.bytes[8..12].copy_from_slice(&lowered.to_le_bytes());
        ctx.class("history:header-understates-runtime-size");
    }
    let mut mdl = parse(&built.bytes, "the generated model")?;
    let mut expected = built.expected.clone();
    let mut changed_vertex_mesh: Option<(usize, usize)> = None;
    let mut changed_index_other = false;
    let mut shapes_cleared = false;
    // replacing geometry while shape values still reference the old index/vertex lists is not a supported
    // use of the API: a removal is inserted before the first replacement (construction, not rejection)
    let mut edits: Vec<Edit> = vec![];
    let mut removed = false;
    for e in &c.edits {
        if matches!(e, Edit::RemoveShapeMeshes) {
            removed = true;
        }
        if matches!(e, Edit::ReplaceLod { .. }) && !removed && !spec.shapes.is_empty() {
            edits.push(Edit::RemoveShapeMeshes);
            removed = true;
            ctx.class("adapted:remove-shapes-before-replace");
        }
        edits.push(e.clone());
    }
    for e in &edits {
        match e {
            Edit::ReplaceLod { lod, meshes } => {
                let l = *lod as usize % spec.lods.len();
                let n = spec.lods[l].len();
                // pass 1: the new meshes (same declaration, new geometry, canonical encodings)
                let mut new_meshes: Vec<MeshSpec> = vec![];
                for p in 0..n {
                    let (vc, ic, weights, seed) = &meshes[p % meshes.len()];
                    let old = &spec.lods[l][p];
                    let seed_mesh = MeshSeed { elems: old.elements.iter().map(|e| (e.usage, 0, e.stream, 0, 0)).collect(), stream_count: old.stream_count, tail_gaps: [0; 3], stream_gaps: [0; 3], vertex_count: *vc, index_count: if *vc == 0 { 0 } else { *ic }, material_index: old.material_index, submesh_weights: weights.iter().take(old.submeshes.len()).copied().chain(std::iter::repeat(1)).take(old.submeshes.len()).collect(), bone_table_index: old.bone_table_index, seed: *seed };
                    let mut new_mesh = realise_mesh(&seed_mesh, &WRITE_PAIRS, true);
                    // keep the exact declaration (types and offsets) of the existing mesh
                    new_mesh.elements = old.elements.clone();
                    new_mesh.strides = old.strides;
                    // regenerate canonical streams for the kept layout
                    new_meshes.push(relay(&new_mesh, *seed));
                }
                // where each mesh's indices lie in the LOD's index section is the caller's choice (it is expressed only
                // through the sub-mesh ranges): usually in mesh order, in a third of the edits in another order
                let sel = meshes[0].3;
                let mut order: Vec<usize> = (0..n).collect();
                if n >= 2 && sel % 3 == 0 {
                    order.rotate_left(1 + (sel >> 8) as usize % (n - 1));
                    if (sel >> 16) & 1 == 1 {
                        order.reverse();
                    }
                    ctx.class("edit:index-section-not-in-mesh-order");
                }
                let mut starts = vec![0u32; n];
                let mut at = 0u32;
                for &p in &order {
                    starts[p] = at;
                    at += new_meshes[p].indices.len() as u32;
                }
                // the sub-mesh values handed in can only be copies of parsed ones (their table slot is private): a
                // caller may have taken them from the part being edited or from any other part of the model
                let donors: Vec<(usize, usize)> = mdl.lods.iter().enumerate().flat_map(|(dl, lod)| lod.parts.iter().enumerate().filter(|(_, part)| !part.submeshes.is_empty()).map(move |(dp, _)| (dl, dp))).collect();
                // every mesh of the LOD is resubmitted, in mesh order or (every other edit) in reverse: the result is
                // a function of the ranges supplied, not of the order of the calls
                let mut call_order: Vec<usize> = (0..n).collect();
                if (sel >> 20) & 1 == 1 && n >= 2 {
                    call_order.reverse();
                    ctx.class("edit:meshes-resubmitted-in-reverse-order");
                }
                for p in call_order {
                    let new_mesh = new_meshes[p].clone();
                    let old = spec.lods[l][p].clone();
                    let old = &old;
                    let start = starts[p];
                    let seed = meshes[p % meshes.len()].3;
                    let vc = &meshes[p % meshes.len()].0;
                    let verts: Vec<Vertex> = (0..new_mesh.vertex_count as usize).map(|k| to_vertex(&decode_vertex(&new_mesh, k))).collect();
                    let mut subs = mdl.lods[l].parts[p].submeshes.clone();
                    if (seed >> 24) % 3 == 0 && !donors.is_empty() && !subs.is_empty() {
                        let (dl, dp) = donors[(seed >> 32) as usize % donors.len()];
                        if (dl, dp) != (l, p) {
                            let d = &mdl.lods[dl].parts[dp].submeshes;
                            subs = (0..subs.len()).map(|i| d[i % d.len()]).collect();
                            ctx.class("edit:sub-mesh-values-copied-from-another-part");
                        }
                    }
                    let mut so = start;
                    let mut exp_sub = vec![];
                    for (i, (cnt, _, _, _)) in new_mesh.submeshes.iter().enumerate() {
                        subs[i].index_count = *cnt;
                        subs[i].index_offset = so;
                        exp_sub.push((*cnt, so));
                        so += cnt;
                    }
                    guard("replace_vertices", || mdl.replace_vertices(l, p, &verts, &new_mesh.indices, &subs))?;
                    if new_mesh.vertex_count != old.vertex_count {
                        changed_vertex_mesh.get_or_insert((l, p));
                    }
                    if new_mesh.indices.len() != old.indices.len() && changed_vertex_mesh.map(|m| m != (l, p)).unwrap_or(false) {
                        changed_index_other = true;
                    }
                    let ep = &mut expected.lods[l][p];
                    ep.vertices = (0..new_mesh.vertex_count as usize).map(|k| decode_vertex(&new_mesh, k)).collect();
                    ep.indices = new_mesh.indices.clone();
                    ep.submeshes = exp_sub;
                    ep.streams = (0..new_mesh.stream_count as usize).map(|s| new_mesh.streams[s].clone()).collect();
                    ep.start_index = start;
                    spec.lods[l][p] = new_mesh;
                    ctx.class(if *vc as usize > old.vertex_count as usize { "edit:grow" } else { "edit:shrink-or-same" });
                }
            }
            Edit::RemoveShapeMeshes => {
                guard("remove_shape_meshes", || mdl.remove_shape_meshes())?;
                shapes_cleared = true;
                for l in expected.lods.iter_mut() {
                    for p in l.iter_mut() {
                        p.shape_names.clear();
                    }
                }
                ctx.class("edit:remove-shape-meshes");
            }
            Edit::AddEmptyShapeMeshes { items } => {
                if !shapes_cleared || spec.shapes.is_empty() {
                    continue;
                }
                // in order: grouped by (shape, lod)
                let mut it: Vec<(usize, usize, usize, usize)> = items.iter().map(|(s, l, p, n)| (*s as usize % spec.shapes.len(), *l as usize % spec.lods.len(), *p as usize, *n as usize)).collect();
                it.sort();
                it.dedup_by_key(|x| (x.0, x.1));
                for (s, l, p, n) in it {
                    let p = p % spec.lods[l].len();
                    for k in 0..n {
                        guard("add_shape_mesh", || mdl.add_shape_mesh(l, s, k, p, &[]))?;
                    }
                }
                // empty shape meshes carry no values: no shape affects any mesh
                shapes_cleared = false; // further additions would not be "in order" any more
                ctx.class("edit:add-empty-shape-meshes");
            }
        }
    }
    let written = write(&mdl)?;
    check_written_header(&written, &spec)?;
    let m2 = match guard("MDL::from_existing", || MDL::from_existing(&written))? {
        Some(m) => m,
        None => return fail("edited-model-rejected", "the edited model written by write_to_buffer does not parse"),
    };
    compare_model(&m2, &expected, &spec, Some(ctx)).map_err(|f| Failure { slug: format!("after-edit/{}", f.slug), msg: f.msg })?;
    // everything else the model reports (bounding boxes, bone tables, names, counts ...) must survive the write too:
    // a section laid over the tail of the runtime block would show here
    if m2.model_data != mdl.model_data {
        let a = format!("{:?}", mdl.model_data);
        let b = format!("{:?}", m2.model_data);
        let pos = a.bytes().zip(b.bytes()).position(|(x, y)| x != y).unwrap_or(0);
        let from = pos.saturating_sub(160);
        return fail("after-edit/model-data-differs", format!("the edited model's data differs after write -> parse near: in memory …{}… vs re-parsed …{}…", &a[from..(pos + 80).min(a.len())], &b[from..(pos + 80).min(b.len())]));
    }
    ctx.classf(format!("history-length:{}", c.edits.len()));
    if changed_vertex_mesh.is_some() && changed_index_other {
        ctx.nontrivial(format!("{:?}", c).as_bytes());
        if ctx.want_sample() {
            ctx.sample(json!({"part": "edit-history", "edits": c.edits.iter().map(|e| format!("{:?}", e).chars().take(120).collect::<String>()).collect::<Vec<_>>(), "written_len": written.len(), "written_header": util::hex_trunc(&written, 0x44)}));
        }
    }
    Ok(())
}

/// Re-generate canonical stream bytes for a mesh whose declaration layout is fixed.
fn relay(m: &MeshSpec, seed: u64) -> MeshSpec {
    let mut out = m.clone();
    for st in 0..m.stream_count as usize {
        out.streams[st] = vec![0u8; m.strides[st] as usize * m.vertex_count as usize];
    }
    for (ei, e) in m.elements.iter().enumerate() {
        let st = e.stream as usize;
        let sz = type_size(e.ty);
        let rnd = random_bytes(seed ^ (0x900 + ei as u64), sz * m.vertex_count as usize);
        for k in 0..m.vertex_count as usize {
            let at = m.strides[st] as usize * k + e.offset as usize;
            let mut b = rnd[k * sz..(k + 1) * sz].to_vec();
            canonical_bytes(&mut b, e.usage, e.ty);
            out.streams[st][at..at + sz].copy_from_slice(&b);
        }
    }
    c06::copy_repeated_elements(&m.elements, &m.strides, &mut out.streams, m.vertex_count as usize);
    out
}

fn canonical_bytes(bytes: &mut [u8], usage: u8, ty: u8) {
    // same rule as c06::canonicalise (kept local: exponent-31 halves and NaN floats are not canonical, padded w fixed)
    match ty {
        T_HALF4 => {
            for k in 0..4 {
                if bytes[2 * k + 1] & 0x7C == 0x7C {
                    bytes[2 * k + 1] &= !0x04;
                }
            }
            if usage == U_POSITION {
                bytes[6..8].copy_from_slice(&0x3C00u16.to_le_bytes());
            }
            if usage == U_NORMAL {
                bytes[6..8].copy_from_slice(&0u16.to_le_bytes());
            }
        }
        T_SINGLE3 | T_SINGLE4 => {
            let n = if ty == T_SINGLE3 { 3 } else { 4 };
            for k in 0..n {
                if bytes[4 * k + 3] & 0x7F == 0x7F && bytes[4 * k + 2] & 0x80 == 0x80 {
                    bytes[4 * k + 2] &= 0x7F;
                }
            }
            if ty == T_SINGLE4 && usage == U_POSITION {
                bytes[12..16].copy_from_slice(&1.0f32.to_le_bytes());
            }
        }
        T_BYTEFLOAT4 if usage == U_BITANGENT => bytes[3] = if bytes[3] & 1 == 1 { 255 } else { 0 },
        _ => {}
    }
}

pub fn property() -> Property {
    let _ = mesh_seed;
    Property {
        id: "C07",
        rule: "(a) round trip: version-5 models from the C06 generator restricted to the 11 (usage, type) pairs the writer implements, canonical encodings only (exponent-31 halves and NaN floats excluded, padded w = 1.0 / 0.0, bitangent w in {0, 255}, zero gap bytes), parse -> write_to_buffer -> parse: written header = original header, model_data equal (PartialEq), every part's vertices / indices / sub-meshes / raw streams / names equal the generated geometry. (b) codec sweeps: all 63 488 non-exponent-31 half patterns in each Half4 role and all 256 values of every normalised-byte component re-encode to the stored bytes (raw vertex streams compared). (c) edit histories of 1..6 steps: replace_vertices for every mesh of a LOD with new vertex counts 0..300 (dedicated cases at 40 000 and 65 535), new index lists 0..600 and contiguous sub-mesh splits recomputed across the LOD; remove_shape_meshes; add_shape_mesh with empty value lists in order after a removal; then the written file is decoded by an independent reader: stack/runtime sizes, LOD records = file header, vertex_buffer_size = sum count x strides, index_buffer_size multiple of 16 and >= bytes used, sections in bounds and pairwise disjoint (also from header+stack+runtime), and re-parsing returns exactly the supplied geometry. Non-trivial: (a) >= 2 meshes; (c) a history changing a vertex count and an index count of different meshes; distinct by hash.",
        assumptions: &["trailing padding of the last index section need not be materialised in the file", "add_shape_mesh only with empty value lists (README: custom shape keys not fully supported)", "a remove_shape_meshes is inserted before the first replace_vertices of a model that has shapes (shape values reference the old geometry)"],
        pre: None,
        post: None,
        parts: vec![
            Box::new(Part { name: "codec-sweep", driver: Driver::Enum(sweep_cases), prop: prop_sweep, exhaustive: true }),
            Box::new(Part { name: "roundtrip", driver: Driver::Gen(roundtrip_strategy, 40_000, 640_000), prop: prop_roundtrip, exhaustive: false }),
            Box::new(Part { name: "edit-big", driver: Driver::Enum(big_cases), prop: prop_history, exhaustive: false }),
            Box::new(Part { name: "edit-histories", driver: Driver::Gen(history_strategy, 40_000, 640_000), prop: prop_history, exhaustive: false }),
        ],
    }
}

//! Structure-aware corruptions of valid files, shared by the robustness properties C17 and C18.
use crate::engine::util::{pick_idx, Bytes};
use proptest::collection::vec;
use proptest::prelude::*;
use serde::{Deserialize, Serialize};

#[derive(Clone, Debug, Serialize, Deserialize, PartialEq)]
pub enum Pos {
    Abs(u32),
    /// 16-bit fraction of the current length (random mutants: independent of the seed's size, shrinks toward 0)
    Frac(u16),
}

impl Pos {
    fn at(&self, len: usize) -> usize {
        match self {
            Pos::Abs(a) => (*a as usize).min(len),
            Pos::Frac(f) => pick_idx(*f, len + 1),
        }
    }
}

/// field values of the quantifier: 0, 1, 0x7F.., 0x80.., 0xFF.., value + 1, value - 1; each in both byte orders
pub const KINDS: u8 = 12;
/// plus values that stand in a relation to sizes and alignments of the formats (a field that is off by one block,
/// by one alignment unit, doubled, or equal to a block-header size / alignment / the "stored raw" marker): these
/// reach arithmetic that only goes wrong for a particular relation between two fields
pub const KINDS_EXT: u8 = 28;

#[derive(Clone, Debug, Serialize, Deserialize, PartialEq)]
pub enum Mut {
    /// keep the first n bytes
    Trunc(Pos),
    /// overwrite a 1/2/4/8-byte field; kind: 0 zero, 1 all-ones, 2/3 one (LE/BE), 4/5 max-signed (LE/BE),
    /// 6/7 min-signed (LE/BE), 8/9 value+1 (LE/BE), 10/11 value-1 (LE/BE)
    Set { at: Pos, width: u8, kind: u8 },
    Flip { at: Pos, bit: u8 },
    Byte { at: Pos, val: u8 },
    Insert { at: Pos, data: Bytes },
    Remove { at: Pos, len: u16 },
    /// duplicate the range [at, at+len) in place
    Dup { at: Pos, len: u16 },
    /// overwrite a range with a copy of another range of the same file
    Copy { from: Pos, to: Pos, len: u16 },
    Append(Bytes),
    /// text formats: operate on one separated field of one line. op: 0 empty it, 1 delete it (with a separator),
    /// 2 duplicate it, 3..=6 replace it by "0" / "-1" / "99999999999999999999" / "x", 7 delete the line,
    /// 8 duplicate the line, 9 empty the line, 10 / 11 append "/" / ".http" to the field, 12 prepend "/",
    /// 13 replace every '/' of the field by "/../"
    Text { line: u16, col: u16, sep: u8, op: u8 },
}

pub const TEXT_OPS: u8 = 14;

/// U+0130 (2 bytes, lower case 3), U+212A Kelvin sign (3 bytes, lower case 1), U+023A (2 -> 3), sharp s (upper case "SS"),
/// U+FB01 ligature (upper case "FI"), U+0149 (upper case 2 characters), U+1E9E capital sharp s (3 bytes, lower case 2)
pub const CASE_LENGTH_CHARS: [&str; 7] = ["\u{130}", "\u{212A}", "\u{23A}", "\u{DF}", "\u{FB01}", "\u{149}", "\u{1E9E}"];

fn text_edit(b: &mut Vec<u8>, line: usize, col: usize, sep: u8, op: u8) {
    // lines are separated by LF (a CR stays with its line)
    let mut lines: Vec<Vec<u8>> = b.split(|c| *c == b'\n').map(|l| l.to_vec()).collect();
    if line >= lines.len() {
        return;
    }
    match op {
        7 => {
            lines.remove(line);
        }
        8 => {
            let l = lines[line].clone();
            lines.insert(line, l);
        }
        9 => {
            let keep_cr = lines[line].ends_with(b"\r");
            lines[line] = if keep_cr { b"\r".to_vec() } else { vec![] };
        }
        _ => {
            let l = &lines[line];
            let (body, cr): (&[u8], &[u8]) = if l.ends_with(b"\r") { (&l[..l.len() - 1], b"\r") } else { (&l[..], b"") };
            let mut cols: Vec<Vec<u8>> = body.split(|c| *c == sep).map(|c| c.to_vec()).collect();
            if col >= cols.len() {
                return;
            }
            match op {
                0 => cols[col].clear(),
                1 => {
                    cols.remove(col);
                }
                2 => {
                    let c = cols[col].clone();
                    cols.insert(col, c);
                }
                3 => cols[col] = b"0".to_vec(),
                4 => cols[col] = b"-1".to_vec(),
                5 => cols[col] = b"99999999999999999999".to_vec(),
                10 => cols[col].push(b'/'),
                11 => cols[col].extend_from_slice(b".http"),
                12 => cols[col].insert(0, b'/'),
                13 => {
                    let parts: Vec<Vec<u8>> = cols[col].split(|c| *c == b'/').map(|c| c.to_vec()).collect();
                    cols[col] = parts.join(&b"/../"[..]);
                }
                _ => cols[col] = b"x".to_vec(),
            }
            let mut nl = cols.join(&sep);
            nl.extend_from_slice(cr);
            lines[line] = nl;
        }
    }
    *b = lines.join(&b'\n');
}

pub fn field_bytes(orig: &[u8], width: usize, kind: u8) -> Vec<u8> {
    let w = width;
    let be = kind % 2 == 1;
    let mut v: Vec<u8> = match kind {
        0 => vec![0; w],
        1 => vec![0xFF; w],
        2 | 3 => {
            let mut x = vec![0; w];
            x[0] = 1;
            x
        }
        4 | 5 => {
            let mut x = vec![0xFF; w];
            x[w - 1] = 0x7F;
            x
        }
        6 | 7 => {
            let mut x = vec![0; w];
            x[w - 1] = 0x80;
            x
        }
        _ => {
            // derived from the current value in the given byte order, or a format constant
            let mut le: Vec<u8> = orig[..w].to_vec();
            if be {
                le.reverse();
            }
            let mut val: u64 = 0;
            for (i, b) in le.iter().enumerate() {
                val |= (*b as u64) << (8 * i);
            }
            val = match kind {
                8 | 9 => val.wrapping_add(1),
                10 | 11 => val.wrapping_sub(1),
                12 | 13 => val.wrapping_add(16),
                14 | 15 => val.wrapping_sub(16),
                16 | 17 => val.wrapping_add(128),
                18 | 19 => val.wrapping_sub(128),
                20 | 21 => val.wrapping_mul(2),
                22 | 23 => 16,
                24 | 25 => 128,
                _ => 32000,
            };
            (0..w).map(|i| (val >> (8 * i)) as u8).collect()
        }
    };
    // v is little-endian here; big-endian kinds reverse
    if be && kind >= 2 {
        v.reverse();
    }
    v
}

pub fn apply_one(b: &mut Vec<u8>, m: &Mut) {
    match m {
        Mut::Trunc(p) => {
            let n = p.at(b.len());
            b.truncate(n);
        }
        Mut::Set { at, width, kind } => {
            let w = (*width as usize).clamp(1, 8);
            if b.len() < w {
                return;
            }
            let o = at.at(b.len()).min(b.len() - w);
            let nb = field_bytes(&b[o..o + w], w, *kind % KINDS_EXT);
            b[o..o + w].copy_from_slice(&nb);
        }
        Mut::Flip { at, bit } => {
            if b.is_empty() {
                return;
            }
            let o = at.at(b.len()).min(b.len() - 1);
            b[o] ^= 1 << (bit % 8);
        }
        Mut::Byte { at, val } => {
            if b.is_empty() {
                return;
            }
            let o = at.at(b.len()).min(b.len() - 1);
            b[o] = *val;
        }
        Mut::Insert { at, data } => {
            let o = at.at(b.len());
            let tail = b.split_off(o);
            b.extend_from_slice(&data.0);
            b.extend_from_slice(&tail);
        }
        Mut::Remove { at, len } => {
            let o = at.at(b.len());
            let e = (o + *len as usize).min(b.len());
            b.drain(o..e);
        }
        Mut::Dup { at, len } => {
            let o = at.at(b.len());
            let e = (o + *len as usize).min(b.len());
            let chunk = b[o..e].to_vec();
            let tail = b.split_off(e);
            b.extend_from_slice(&chunk);
            b.extend_from_slice(&tail);
        }
        Mut::Copy { from, to, len } => {
            let f = from.at(b.len());
            let fe = (f + *len as usize).min(b.len());
            let chunk = b[f..fe].to_vec();
            let t = to.at(b.len());
            let te = (t + chunk.len()).min(b.len());
            b[t..te].copy_from_slice(&chunk[..te - t]);
        }
        Mut::Append(d) => b.extend_from_slice(&d.0),
        Mut::Text { line, col, sep, op } => text_edit(b, *line as usize, *col as usize, *sep, *op % TEXT_OPS),
    }
}

pub fn apply(seed: &[u8], muts: &[Mut]) -> Vec<u8> {
    let mut b = seed.to_vec();
    for m in muts {
        apply_one(&mut b, m);
    }
    b
}

pub fn kind_name(m: &Mut) -> &'static str {
    match m {
        Mut::Trunc(_) => "truncate",
        Mut::Set { .. } => "field",
        Mut::Flip { .. } => "bit-flip",
        Mut::Byte { .. } => "byte",
        Mut::Insert { .. } => "insert",
        Mut::Remove { .. } => "remove",
        Mut::Dup { .. } => "duplicate",
        Mut::Copy { .. } => "copy-range",
        Mut::Append(_) => "append",
        Mut::Text { .. } => "text-field",
    }
}

fn junk() -> BoxedStrategy<Bytes> {
    prop_oneof![
        3 => vec(any::<u8>(), 0..16),
        1 => vec(any::<u8>(), 0..300),
        // invalid UTF-8, NULs, line structure, high bytes
        2 => prop::sample::select(vec![vec![0xFFu8], vec![0xC3], vec![0xE2, 0x82], vec![0xF0, 0x9F, 0x98], vec![0x00], vec![b'\r', b'\n'], vec![b'\t'], vec![b'<'], vec![b'>'], vec![b','], vec![0x80, 0x80, 0x80, 0x80]]),
        // characters whose lower- or upper-case form has another UTF-8 length (byte offsets found in a case-folded copy do not fit the text)
        1 => prop::sample::select(CASE_LENGTH_CHARS.iter().map(|c| c.as_bytes().to_vec()).collect::<Vec<_>>()),
    ]
    .prop_map(Bytes)
    .boxed()
}

pub fn random_mut() -> BoxedStrategy<Mut> {
    let pos = any::<u16>().prop_map(Pos::Frac);
    prop_oneof![
        3 => pos.clone().prop_map(Mut::Trunc),
        8 => (pos.clone(), prop::sample::select(vec![1u8, 2, 4, 8]), 0..KINDS_EXT).prop_map(|(at, width, kind)| Mut::Set { at, width, kind }),
        3 => (pos.clone(), 0u8..8).prop_map(|(at, bit)| Mut::Flip { at, bit }),
        3 => (pos.clone(), any::<u8>()).prop_map(|(at, val)| Mut::Byte { at, val }),
        2 => (pos.clone(), junk()).prop_map(|(at, data)| Mut::Insert { at, data }),
        2 => (pos.clone(), prop_oneof![3 => 1u16..16, 1 => 1u16..2000]).prop_map(|(at, len)| Mut::Remove { at, len }),
        1 => (pos.clone(), prop_oneof![3 => 1u16..64, 1 => 1u16..2000]).prop_map(|(at, len)| Mut::Dup { at, len }),
        1 => (pos.clone(), pos.clone(), 1u16..64).prop_map(|(from, to, len)| Mut::Copy { from, to, len }),
        1 => junk().prop_map(Mut::Append),
        2 => (0u16..40, 0u16..12, prop::sample::select(vec![b'\t', b',', b' ', b':']), 0..TEXT_OPS).prop_map(|(line, col, sep, op)| Mut::Text { line, col, sep, op }),
    ]
    .boxed()
}

/// offsets visited by a deterministic sweep over a seed of `len` bytes: all of them up to `cap`, otherwise the
/// first cap/2 and an even spread over the rest
pub fn sweep_offsets(len: usize, cap: usize) -> Vec<u32> {
    if len <= cap {
        return (0..len as u32).collect();
    }
    let head = cap / 2;
    let mut v: Vec<u32> = (0..head as u32).collect();
    let rest = cap - head;
    for i in 0..rest {
        v.push((head + i * (len - head) / rest) as u32);
    }
    v.dedup();
    v
}

//! C06 — model parsing yields the stored geometry for every vertex layout.
use crate::build::mdl::*;
use crate::engine::panics::guard;
use crate::engine::*;
use crate::gen;
use physis::model::MDL;
use proptest::collection::vec;
use proptest::prelude::*;
use serde::{Deserialize, Serialize};
use serde_json::json;

/// One element before layout: (usage, type choice, stream choice, gap before it, order key)
pub type ElemSeed = (u8, u8, u8, u8, u16);

#[derive(Clone, Debug, Serialize, Deserialize)]
pub struct MeshSeed {
    pub elems: Vec<ElemSeed>,
    pub stream_count: u8,
    pub tail_gaps: [u8; 3],
    pub stream_gaps: [u8; 3],
    pub vertex_count: u16,
    pub index_count: u16,
    pub material_index: u16,
    pub submesh_weights: Vec<u8>,
    pub bone_table_index: u16,
    pub seed: u64,
}

#[derive(Clone, Debug, Serialize, Deserialize)]
pub struct ShapeSeed {
    pub name: String,
    pub lods: [Vec<(u16, Vec<(u16, u16)>)>; 3],
}

#[derive(Clone, Debug, Serialize, Deserialize)]
pub struct Case {
    pub v6: bool,
    pub lods: Vec<Vec<MeshSeed>>,
    pub materials: Vec<String>,
    pub bones: Vec<String>,
    pub attributes: Vec<String>,
    pub extra_strings: Vec<String>,
    pub bone_tables: Vec<Vec<u16>>,
    pub shapes: Vec<ShapeSeed>,
    pub element_ids: u8,
    pub bone_map: Vec<u16>,
    pub padding: u8,
    pub flags1_bit: u8,
    pub flags2_bit: u8,
    pub section_gap: u8,
    pub has_flags: (bool, bool),
    pub seed: u64,
}

fn pairs_for(usage: u8, table: &[(u8, u8)]) -> Vec<u8> {
    table.iter().filter(|p| p.0 == usage).map(|p| p.1).collect()
}

/// Canonical bytes for one element (what the writer produces for the decoded value).
fn canonicalise(bytes: &mut [u8], usage: u8, ty: u8) {
    let fix_half = |b: &mut [u8]| {
        // exponent 31 (inf/NaN) is not canonical
        if b[1] & 0x7C == 0x7C {
            b[1] &= !0x04;
        }
    };
    let fix_f32 = |b: &mut [u8]| {
        if b[3] & 0x7F == 0x7F && b[2] & 0x80 == 0x80 {
            b[2] &= 0x7F;
        }
    };
    match ty {
        T_HALF4 => {
            for k in 0..4 {
                fix_half(&mut bytes[2 * k..2 * k + 2]);
            }
            if usage == U_POSITION {
                bytes[6..8].copy_from_slice(&0x3C00u16.to_le_bytes());
            }
            if usage == U_NORMAL {
                bytes[6..8].copy_from_slice(&0u16.to_le_bytes());
            }
        }
        T_SINGLE3 => {
            for k in 0..3 {
                fix_f32(&mut bytes[4 * k..4 * k + 4]);
            }
        }
        T_SINGLE4 => {
            for k in 0..4 {
                fix_f32(&mut bytes[4 * k..4 * k + 4]);
            }
            if usage == U_POSITION {
                bytes[12..16].copy_from_slice(&1.0f32.to_le_bytes());
            }
        }
        T_BYTEFLOAT4 => {
            if usage == U_BITANGENT {
                bytes[3] = if bytes[3] & 1 == 1 { 255 } else { 0 };
            }
        }
        _ => {}
    }
}

/// Turn a mesh seed into a concrete mesh: declaration layout + raw stream bytes.
pub fn realise_mesh(s: &MeshSeed, table: &[(u8, u8)], canonical: bool) -> MeshSpec {
    let stream_count = s.stream_count.clamp(1, 3);
    // unique usages; keep the first occurrence
    let mut seen = [false; 8];
    let mut chosen: Vec<(u8, u8, u8, u8, u16)> = vec![];
    for (usage, tsel, ssel, gap, key) in &s.elems {
        let u = usage % 8;
        let types = pairs_for(u, table);
        if seen[u as usize] || types.is_empty() {
            continue;
        }
        seen[u as usize] = true;
        chosen.push((u, types[*tsel as usize % types.len()], ssel % stream_count, if canonical { gap % 2 * 4 } else { gap % 4 }, *key));
    }
    if chosen.is_empty() {
        let types = pairs_for(U_POSITION, table);
        chosen.push((U_POSITION, types[0], 0, 0, 0));
    }
    let mut order: Vec<usize> = (0..chosen.len()).collect();
    order.sort_by_key(|&i| (chosen[i].4, i));
    let mut extent = [0usize; 3];
    let mut elements = vec![Element { stream: 0, offset: 0, ty: 0, usage: 0, usage_index: 0 }; chosen.len()];
    for i in order {
        let (u, t, st, gap, _) = chosen[i];
        let st = st as usize;
        let mut off = extent[st] + gap as usize;
        if off + type_size(t) > 255 {
            off = extent[st];
        }
        // one element in six carries a usage index other than 0 although it is the only element of its usage (UV
        // excepted, where the index selects the set): what is decoded depends on stream, offset, stride and type
        let (_, _, _, _, key) = chosen[i];
        let usage_index = if u != U_UV && key % 6 == 0 { 1 + (key / 6 % 3) as u8 } else { 0 };
        elements[i] = Element { stream: st as u8, offset: off as u8, ty: t, usage: u, usage_index };
        extent[st] = off + type_size(t);
    }
    // every fifth mesh with a four-component UV element also declares a second, two-component UV element with
    // usage index 1 behind it (the layout of newer models)
    if !canonical && s.seed % 5 == 0 {
        if let Some(first) = elements.iter().find(|e| e.usage == U_UV && type_size(e.ty) > 4).cloned() {
            let st = first.stream as usize;
            if extent[st] + 4 <= 255 && pairs_for(U_UV, table).contains(&T_HALF2) {
                elements.push(Element { stream: st as u8, offset: extent[st] as u8, ty: T_HALF2, usage: U_UV, usage_index: 1 });
                extent[st] += 4;
            }
        }
    }
    // every eleventh mesh fills its declaration block: further tangent elements (a usage the reader decodes into no
    // reported field) with rising usage indices bring it to 12..16 elements - 16 is all a 17-slot block holds
    // besides its end marker
    if !canonical && s.seed % 11 == 0 && pairs_for(U_TANGENT, table).contains(&T_BYTEFLOAT4) {
        let target = if (s.seed >> 8) % 2 == 0 { 16 } else { 12 + ((s.seed >> 12) % 4) as usize };
        let mut idx = 1u8;
        while elements.len() < target {
            let st = (idx as usize) % stream_count as usize;
            if extent[st] + 4 > 255 {
                break;
            }
            elements.push(Element { stream: st as u8, offset: extent[st] as u8, ty: T_BYTEFLOAT4, usage: U_TANGENT, usage_index: idx });
            extent[st] += 4;
            idx += 1;
        }
    }
    // the writer's side of the same boundary: every eleventh canonical mesh fills its declaration with further colour
    // elements (usage indices 1, 2, ...) that carry the same bytes as the first one, so that parse and write agree on
    // them whichever of the copies a reader reports
    if canonical && s.seed % 11 == 0 && pairs_for(U_COLOR, table).contains(&T_BYTEFLOAT4) {
        elements.iter_mut().filter(|e| e.usage == U_COLOR).for_each(|e| e.usage_index = 0);
        if !elements.iter().any(|e| e.usage == U_COLOR) && extent[0] + 4 <= 255 {
            elements.push(Element { stream: 0, offset: extent[0] as u8, ty: T_BYTEFLOAT4, usage: U_COLOR, usage_index: 0 });
            extent[0] += 4;
        }
        if elements.iter().any(|e| e.usage == U_COLOR && e.ty == T_BYTEFLOAT4) {
            let target = if (s.seed >> 8) % 2 == 0 { 16 } else { 12 + ((s.seed >> 12) % 4) as usize };
            let mut idx = 1u8;
            while elements.len() < target {
                let st = (idx as usize) % stream_count as usize;
                if extent[st] + 4 > 255 {
                    break;
                }
                elements.push(Element { stream: st as u8, offset: extent[st] as u8, ty: T_BYTEFLOAT4, usage: U_COLOR, usage_index: idx });
                extent[st] += 4;
                idx += 1;
            }
        }
    }
    let mut strides = [0u8; 3];
    let mut streams: [Vec<u8>; 3] = [vec![], vec![], vec![]];
    for st in 0..stream_count as usize {
        let tail = if canonical { 0 } else { s.tail_gaps[st] % 5 };
        strides[st] = (extent[st] + tail as usize).min(255) as u8;
        let n = strides[st] as usize * s.vertex_count as usize;
        streams[st] = if canonical { vec![0u8; n] } else { random_bytes(s.seed ^ (st as u64 + 1), n) };
    }
    if canonical {
        // element bytes random but canonical; everything else zero
        for (ei, e) in elements.iter().enumerate() {
            let st = e.stream as usize;
            let rnd = random_bytes(s.seed ^ (0x100 + ei as u64), type_size(e.ty) * s.vertex_count as usize);
            for k in 0..s.vertex_count as usize {
                let at = strides[st] as usize * k + e.offset as usize;
                let sz = type_size(e.ty);
                let mut b = rnd[k * sz..(k + 1) * sz].to_vec();
                canonicalise(&mut b, e.usage, e.ty);
                streams[st][at..at + sz].copy_from_slice(&b);
            }
        }
        copy_repeated_elements(&elements, &strides, &mut streams, s.vertex_count as usize);
    }
    let idx_rnd = random_bytes(s.seed ^ 0x77, s.index_count as usize * 2);
    let indices: Vec<u16> = (0..s.index_count as usize).map(|i| u16::from_le_bytes([idx_rnd[2 * i], idx_rnd[2 * i + 1]]) % s.vertex_count.max(1)).collect();
    // contiguous sub-mesh split by weights
    let weights: Vec<u32> = if s.submesh_weights.is_empty() { vec![1] } else { s.submesh_weights.iter().map(|w| *w as u32 + 1).collect() };
    let total: u32 = weights.iter().sum();
    let mut submeshes = vec![];
    let mut used = 0u32;
    for (i, w) in weights.iter().enumerate() {
        let cnt = if i + 1 == weights.len() { s.index_count as u32 - used } else { (s.index_count as u32 * w / total).min(s.index_count as u32 - used) };
        submeshes.push((cnt, (s.seed >> (i * 4)) as u32 & 0xff, (i * 3) as u16, 2u16));
        used += cnt;
    }
    MeshSpec {
        elements,
        strides,
        stream_count,
        vertex_count: s.vertex_count,
        streams,
        stream_gaps: if canonical { [0; 3] } else { [s.stream_gaps[0] % 4, s.stream_gaps[1] % 4, s.stream_gaps[2] % 4] },
        indices,
        material_index: s.material_index,
        submeshes,
        bone_table_index: s.bone_table_index,
    }
}

/// elements with a usage index above 0 that repeat the usage and type of an index-0 element get that element's bytes
pub fn copy_repeated_elements(elements: &[Element], strides: &[u8; 3], streams: &mut [Vec<u8>; 3], vertex_count: usize) {
    for e in elements.iter().filter(|e| e.usage_index > 0 && e.usage == U_COLOR) {
        let Some(base) = elements.iter().find(|b| b.usage == e.usage && b.usage_index == 0 && b.ty == e.ty) else { continue };
        let sz = type_size(e.ty);
        for k in 0..vertex_count {
            let from = strides[base.stream as usize] as usize * k + base.offset as usize;
            let to = strides[e.stream as usize] as usize * k + e.offset as usize;
            let b = streams[base.stream as usize][from..from + sz].to_vec();
            streams[e.stream as usize][to..to + sz].copy_from_slice(&b);
        }
    }
}

pub fn realise(c: &Case, table: &[(u8, u8)], canonical: bool) -> ModelSpec {
    ModelSpec {
        version: if c.v6 && !canonical { 0x0100_0006 } else { 0x0100_0005 },
        lods: c.lods.iter().map(|l| l.iter().map(|m| realise_mesh(m, table, canonical)).collect()).collect(),
        materials: c.materials.clone(),
        bones: c.bones.clone(),
        attributes: c.attributes.clone(),
        extra_strings: c.extra_strings.clone(),
        bone_tables: c.bone_tables.iter().map(|t| if c.v6 && !canonical { t.clone() } else { t.iter().take(64).copied().collect() }).collect(),
        shapes: c.shapes.iter().map(|s| ShapeSpec { name: s.name.clone(), lods: s.lods.clone() }).collect(),
        element_ids: c.element_ids,
        bone_map: c.bone_map.clone(),
        padding: c.padding,
        flags1_bit: c.flags1_bit,
        flags2_bit: c.flags2_bit,
        seed: c.seed,
        section_gap: if canonical { 0 } else { c.section_gap },
        has_flags: c.has_flags,
        skew_unused_copies: 0,
        // every seventh model read (never one the writer has to reproduce) carries terrain shadow tables
        ts_meshes: if !canonical && c.seed % 7 == 0 { 1 + ((c.seed >> 8) % 3) as u8 } else { 0 },
        ts_submeshes: if !canonical && c.seed % 7 == 0 { ((c.seed >> 12) % 4) as u16 } else { 0 },
        // every fifth model stores its vertex and index sections in a shuffled physical order
        section_order: if c.seed % 5 == 0 {
            let n = 2 * c.lods.len();
            let mut o: Vec<usize> = (0..n).collect();
            let mut x = c.seed ^ 0x5EC7;
            for i in (1..n).rev() {
                x = crate::engine::util::splitmix64(x);
                o.swap(i, (x % (i as u64 + 1)) as usize);
            }
            o
        } else {
            vec![]
        },
        // every fourth model read with two or more LODs has 1..3 meshes of no LOD's main range behind LOD 0's meshes
        orphan_meshes: if !canonical && c.seed % 4 == 1 { 1 + ((c.seed >> 20) % 3) as u8 } else { 0 },
    }
}

pub fn name() -> BoxedStrategy<String> {
    prop_oneof![
        4 => gen::from_alphabet("abcdefghijklmnopqrstuvwxyz0123456789_/.", 1, 24),
        1 => gen::from_alphabet("ABCxyz_", 1, 80),
        1 => Just("/mt_c0201e0038_top_a.mtrl".to_string()),
    ]
    .boxed()
}

pub fn mesh_seed(max_vertices: u16) -> BoxedStrategy<MeshSeed> {
    (
        vec((0u8..8, any::<u8>(), any::<u8>(), any::<u8>(), any::<u16>()), 1..=10),
        1u8..=3,
        any::<[u8; 3]>(),
        any::<[u8; 3]>(),
        prop_oneof![1 => Just(0u16), 6 => 1u16..=max_vertices, 1 => Just(1u16)],
        prop_oneof![1 => Just(0u16), 5 => 0u16..=120],
        0u16..4,
        vec(any::<u8>(), 1..=3),
        0u16..3,
        any::<u64>(),
    )
        .prop_map(|(elems, stream_count, tail_gaps, stream_gaps, vertex_count, index_count, material_index, submesh_weights, bone_table_index, seed)| MeshSeed { elems, stream_count, tail_gaps, stream_gaps, vertex_count, index_count, material_index, submesh_weights, bone_table_index, seed })
        .boxed()
}

pub fn case_strategy(max_vertices: u16) -> BoxedStrategy<Case> {
    let shape = (name(), vec((0u16..3, vec((any::<u16>(), any::<u16>()), 0..4)), 0..3), vec((0u16..3, vec((any::<u16>(), any::<u16>()), 0..4)), 0..2), vec((0u16..3, vec((any::<u16>(), any::<u16>()), 0..4)), 0..2)).prop_map(|(name, a, b, c)| ShapeSeed { name, lods: [a, b, c] });
    (
        (any::<bool>(), vec(vec(mesh_seed(max_vertices), 1..=3), 1..=3), vec(name(), 0..4), vec(name(), 0..5), vec(name(), 0..3), vec(name(), 0..3)),
        (vec(vec(any::<u16>(), 0..70), 0..3), vec(shape, 0..=3), 0u8..3, vec(any::<u16>(), 0..8), 0u8..12, 0u8..8, 0u8..9, prop_oneof![3 => Just(0u8), 1 => 0u8..40], any::<(bool, bool)>(), any::<u64>()),
    )
        .prop_map(|((v6, lods, materials, bones, attributes, extra_strings), (bone_tables, shapes, element_ids, bone_map, padding, flags1_bit, flags2_bit, section_gap, has_flags, seed))| Case { v6, lods, materials, bones, attributes, extra_strings, bone_tables, shapes, element_ids, bone_map, padding, flags1_bit, flags2_bit, section_gap, has_flags, seed })
        .boxed()
}

fn strategy(_: &Ctx) -> BoxedStrategy<Case> {
    case_strategy(40)
}

pub fn feq(a: f32, b: f32) -> bool {
    a.to_bits() == b.to_bits() || (a.is_nan() && b.is_nan())
}
fn near(a: f32, b: f32) -> bool {
    feq(a, b) || (a - b).abs() <= 1e-6
}
fn all<const N: usize>(a: &[f32; N], b: &[f32; N], f: fn(f32, f32) -> bool) -> bool {
    (0..N).all(|i| f(a[i], b[i]))
}

/// Compare a parsed model with the expected geometry. `what` prefixes failure slugs.
pub fn compare_model(mdl: &MDL, exp: &Expected, spec: &ModelSpec, ctx: Option<&Ctx>) -> PResult {
    if mdl.lods.len() != exp.lods.len() {
        return fail("lod-count", format!("{} LODs reported, {} stored", mdl.lods.len(), exp.lods.len()));
    }
    if mdl.material_names != exp.materials {
        return fail("material-names", format!("physis={:?} stored={:?}", mdl.material_names, exp.materials));
    }
    if mdl.affected_bone_names != exp.bones {
        return fail("bone-names", format!("physis={:?} stored={:?}", mdl.affected_bone_names, exp.bones));
    }
    for (li, (gl, el)) in mdl.lods.iter().zip(&exp.lods).enumerate() {
        if gl.parts.len() != el.len() {
            return fail("mesh-count", format!("LOD {}: {} meshes reported, {} stored", li, gl.parts.len(), el.len()));
        }
        for (pi, (gp, ep)) in gl.parts.iter().zip(el).enumerate() {
            let at = format!("LOD {} mesh {}", li, pi);
            if gp.vertices.len() != ep.vertices.len() {
                return fail("vertex-count", format!("{}: {} vertices reported, {} stored", at, gp.vertices.len(), ep.vertices.len()));
            }
            let mesh = &spec.lods[li][pi];
            for (k, (gv, ev)) in gp.vertices.iter().zip(&ep.vertices).enumerate() {
                let bad: Option<&str> = if !all(&gv.position, &ev.position, feq) {
                    Some("position")
                } else if !all(&gv.normal, &ev.normal, feq) {
                    Some("normal")
                } else if !ev.uv0_open && !all(&gv.uv0, &ev.uv0, near) {
                    Some("uv0")
                } else if !all(&gv.uv1, &ev.uv1, near) {
                    Some("uv1")
                } else if !all(&gv.bitangent, &ev.bitangent, near) {
                    Some("bitangent")
                } else if !all(&gv.color, &ev.color, near) {
                    Some("color")
                } else if ev.bone_weight.map(|w| !all(&gv.bone_weight, &w, near)).unwrap_or(false) {
                    Some("bone_weight")
                } else if ev.bone_id.map(|w| gv.bone_id != w).unwrap_or(false) {
                    Some("bone_id")
                } else {
                    None
                };
                if let Some(attr) = bad {
                    return fail(&format!("vertex-{}", attr), format!("{} vertex {}: physis={:?} stored={:?}; declaration {:?} strides {:?}", at, k, gv, ev, mesh.elements, mesh.strides));
                }
            }
            if gp.indices != ep.indices {
                return fail("indices", format!("{}: index list differs (physis {} entries, stored {})", at, gp.indices.len(), ep.indices.len()));
            }
            let gs: Vec<(u32, u32)> = gp.submeshes.iter().map(|s| (s.index_count, s.index_offset)).collect();
            if gs != ep.submeshes {
                return fail("submeshes", format!("{}: sub-mesh ranges (count, offset) physis={:?} stored={:?}", at, gs, ep.submeshes));
            }
            if gp.vertex_stream_strides != ep.strides {
                return fail("stream-strides", format!("{}: physis={:?} stored={:?}", at, gp.vertex_stream_strides, ep.strides));
            }
            if gp.vertex_streams != ep.streams {
                return fail("stream-bytes", format!("{}: raw vertex streams differ", at));
            }
            if gp.material_index != ep.material_index {
                return fail("material-index", format!("{}: physis={} stored={}", at, gp.material_index, ep.material_index));
            }
            let gnames: Vec<String> = gp.shapes.iter().map(|s| s.name.clone()).collect();
            if gnames != ep.shape_names {
                return fail("shape-names", format!("{}: shapes affecting the mesh physis={:?} stored={:?}", at, gnames, ep.shape_names));
            }
            if let Some(ctx) = ctx {
                for e in &mesh.elements {
                    ctx.classf(format!("pair:{}", pair_name(e.usage, e.ty)));
                }
                ctx.classf(format!("streams:{}", mesh.stream_count));
                if mesh.elements.len() >= 16 {
                    ctx.class("declaration:16-elements");
                }
                if !ep.shape_names.is_empty() {
                    ctx.class("mesh-with-shape");
                }
            }
        }
    }
    Ok(())
}

fn prop(c: &Case, ctx: &Ctx) -> PResult {
    let spec = realise(c, &READ_PAIRS, false);
    let built = encode(&spec);
    let mdl = guard("MDL::from_existing", || MDL::from_existing(&built.bytes))?;
    let mdl = match mdl {
        Some(m) => m,
        None => return fail("model-rejected", "MDL::from_existing returned None for a well-formed model"),
    };
    compare_model(&mdl, &built.expected, &spec, Some(ctx))?;
    // What a shape reports for a mesh (whatever its representation) is a function of that shape's own records and
    // the mesh: the same model with all other shapes taken out must report the very same value for it.
    if spec.shapes.len() >= 2 && spec.shapes.iter().enumerate().all(|(i, a)| spec.shapes.iter().skip(i + 1).all(|b| a.name != b.name)) {
        let keep = (c.seed >> 8) as usize % spec.shapes.len();
        let mut solo = spec.clone();
        solo.shapes = vec![spec.shapes[keep].clone()];
        let built2 = encode(&solo);
        let m2 = match guard("MDL::from_existing", || MDL::from_existing(&built2.bytes))? {
            Some(m) => m,
            None => return fail("model-rejected", "MDL::from_existing returned None for the same model with a single shape"),
        };
        let name = &spec.shapes[keep].name;
        for (li, (la, lb)) in mdl.lods.iter().zip(&m2.lods).enumerate() {
            for (pi, (pa, pb)) in la.parts.iter().zip(&lb.parts).enumerate() {
                let a = pa.shapes.iter().find(|s| &s.name == name).map(|s| format!("{:?}", s));
                let b = pb.shapes.iter().find(|s| &s.name == name).map(|s| format!("{:?}", s));
                if a != b {
                    let (x, y) = (a.unwrap_or_default(), b.unwrap_or_default());
                    let pos = x.bytes().zip(y.bytes()).position(|(p, q)| p != q).unwrap_or(x.len().min(y.len()));
                    let from = pos.saturating_sub(120);
                    return fail("shape-depends-on-other-shapes", format!("LOD {} mesh {}: shape {:?} is reported differently when the model's other {} shapes are present: …{}… vs alone …{}…", li, pi, name, spec.shapes.len() - 1, &x[from.min(x.len())..(pos + 80).min(x.len())], &y[from.min(y.len())..(pos + 80).min(y.len())]));
                }
                if pa.shapes.len() >= 2 && a.is_some() {
                    ctx.class("shape-independence:mesh-with-several-shapes");
                }
            }
        }
    }
    ctx.class(if c.v6 { "version:6" } else { "version:5" });
    if c.seed % 7 == 0 {
        ctx.class("terrain-shadow-tables");
    }
    if c.seed % 4 == 1 && c.lods.len() >= 2 {
        ctx.class("mesh-table:meshes-of-no-lod-range-between-the-lods");
    }
    if c.seed % 5 == 0 {
        ctx.class("sections-in-shuffled-physical-order");
    }
    ctx.classf(format!("lods:{}", c.lods.len()));
    let nontrivial = spec.lods.iter().flatten().any(|m| (m.stream_count >= 2 || m.elements.len() >= 4) && m.vertex_count >= 1);
    if nontrivial {
        ctx.nontrivial(&built.bytes);
        if ctx.want_sample() {
            ctx.sample(json!({"version": if c.v6 { 6 } else { 5 }, "lods": spec.lods.iter().map(|l| l.iter().map(|m| json!({"vertices": m.vertex_count, "indices": m.indices.len(), "strides": m.strides[..m.stream_count as usize], "elements": m.elements.iter().map(|e| format!("{}@s{}+{}", pair_name(e.usage, e.ty), e.stream, e.offset)).collect::<Vec<_>>()})).collect::<Vec<_>>()).collect::<Vec<_>>(), "file_len": built.bytes.len(), "header": util::hex_trunc(&built.bytes, 0x44)}));
        }
    }
    Ok(())
}

/// Sweep: every 16-bit half pattern in every half role, every byte value in every normalised-byte role.
#[derive(Clone, Debug, Serialize, Deserialize)]
pub struct SweepCase {
    pub v6: bool,
    /// which declaration variant
    pub variant: u8,
}

pub fn sweep_spec(variant: u8, v6: bool, canonical: bool) -> ModelSpec {
    // variant 0: Position Half4, Normal Half4, UV Half4            (halves)
    // variant 1: Position Single3, UV Half2 , BlendWeights ByteFloat4, Color ByteFloat4, BiTangent ByteFloat4, UV…  (bytes)
    let elements: Vec<Element> = match variant {
        0 => vec![
            Element { stream: 0, offset: 0, ty: T_HALF4, usage: U_POSITION, usage_index: 0 },
            Element { stream: 0, offset: 8, ty: T_HALF4, usage: U_NORMAL, usage_index: 0 },
            Element { stream: 1, offset: 0, ty: T_HALF4, usage: U_UV, usage_index: 0 },
        ],
        1 => vec![
            Element { stream: 0, offset: 0, ty: T_SINGLE3, usage: U_POSITION, usage_index: 0 },
            Element { stream: 0, offset: 12, ty: T_BYTEFLOAT4, usage: U_BLENDWEIGHTS, usage_index: 0 },
            Element { stream: 0, offset: 16, ty: T_BYTE4, usage: U_BLENDINDICES, usage_index: 0 },
            Element { stream: 1, offset: 0, ty: T_BYTEFLOAT4, usage: U_COLOR, usage_index: 0 },
            Element { stream: 1, offset: 4, ty: T_BYTEFLOAT4, usage: U_BITANGENT, usage_index: 0 },
        ],
        _ => vec![
            Element { stream: 0, offset: 0, ty: T_SINGLE4, usage: U_POSITION, usage_index: 0 },
            Element { stream: 0, offset: 16, ty: T_HALF2, usage: U_UV, usage_index: 0 },
            Element { stream: 0, offset: 20, ty: T_BYTEFLOAT4, usage: U_TANGENT, usage_index: 0 },
            Element { stream: 1, offset: 0, ty: T_SINGLE3, usage: U_NORMAL, usage_index: 0 },
        ],
    };
    let mut strides = [0u8; 3];
    for e in &elements {
        strides[e.stream as usize] = strides[e.stream as usize].max(e.offset + type_size(e.ty) as u8);
    }
    let vertex_count: u16 = match variant {
        0 => 16384,
        1 => 256,
        _ => 32768,
    };
    let mut streams: [Vec<u8>; 3] = [vec![0; strides[0] as usize * vertex_count as usize], vec![0; strides[1] as usize * vertex_count as usize], vec![]];
    for k in 0..vertex_count as usize {
        for e in &elements {
            let at = strides[e.stream as usize] as usize * k + e.offset as usize;
            let s = &mut streams[e.stream as usize];
            match e.ty {
                T_HALF4 => {
                    for c in 0..4 {
                        // component c of vertex k carries pattern 4k + c, rotated per usage so each role sees every pattern in every component
                        let mut p = ((4 * k + c + e.usage as usize * 7919) % 65536) as u16;
                        if canonical {
                            if (p >> 10) & 0x1F == 31 {
                                p &= !0x0400;
                            }
                            if c == 3 && e.usage == U_POSITION {
                                p = 0x3C00;
                            }
                            if c == 3 && e.usage == U_NORMAL {
                                p = 0;
                            }
                        }
                        s[at + 2 * c..at + 2 * c + 2].copy_from_slice(&p.to_le_bytes());
                    }
                }
                T_HALF2 => {
                    for c in 0..2 {
                        let p = ((2 * k + c) % 65536) as u16;
                        s[at + 2 * c..at + 2 * c + 2].copy_from_slice(&p.to_le_bytes());
                    }
                }
                T_BYTEFLOAT4 | T_BYTE4 => {
                    for c in 0..4 {
                        let mut b = ((k + c * 64 + e.usage as usize * 13) % 256) as u8;
                        if canonical && e.usage == U_BITANGENT && c == 3 {
                            b = if k % 2 == 0 { 0 } else { 255 };
                        }
                        s[at + c] = b;
                    }
                }
                T_SINGLE3 | T_SINGLE4 => {
                    let n = if e.ty == T_SINGLE3 { 3 } else { 4 };
                    for c in 0..n {
                        let mut f = (k as f32) * 0.5 - c as f32;
                        if canonical && e.ty == T_SINGLE4 && e.usage == U_POSITION && c == 3 {
                            f = 1.0;
                        }
                        s[at + 4 * c..at + 4 * c + 4].copy_from_slice(&f.to_le_bytes());
                    }
                }
                _ => {}
            }
        }
    }
    let mesh = MeshSpec { elements, strides, stream_count: 2, vertex_count, streams, stream_gaps: [0; 3], indices: vec![0, 1, 2], material_index: 0, submeshes: vec![(3, 1, 0, 0)], bone_table_index: 0 };
    ModelSpec {
        version: if v6 { 0x0100_0006 } else { 0x0100_0005 },
        lods: vec![vec![mesh]],
        materials: vec!["/m.mtrl".into()],
        bones: vec!["j_kosi".into()],
        attributes: vec!["atr_x".into()],
        extra_strings: vec![],
        bone_tables: vec![vec![0]],
        shapes: vec![],
        element_ids: 0,
        bone_map: vec![0],
        padding: 3,
        flags1_bit: 1,
        flags2_bit: 8,
        seed: 7,
        section_gap: 0,
        has_flags: (false, false),
        skew_unused_copies: 0,
        ts_meshes: 0,
        ts_submeshes: 0,
        section_order: vec![],
        orphan_meshes: 0,
    }
}

fn sweep_cases(_: &Ctx) -> Vec<SweepCase> {
    let mut v = vec![];
    for v6 in [false, true] {
        for variant in [0u8, 1, 2, 10, 11] {
            v.push(SweepCase { v6, variant });
        }
    }
    v
}

/// variant 10/11: size boundaries - a LOD whose second mesh starts beyond 65 535 indices / a mesh with 65 535 vertices
fn boundary_spec(variant: u8, v6: bool) -> ModelSpec {
    let mut spec = sweep_spec(1, v6, false);
    let mut first = spec.lods[0][0].clone();
    let vc = first.vertex_count.max(1);
    if variant == 10 {
        // 66 000 indices in front of the second mesh (start index 66 000 does not fit 16 bits)
        let rnd = random_bytes(0xB16, 2 * 66_000);
        first.indices = (0..66_000).map(|i| u16::from_le_bytes([rnd[2 * i], rnd[2 * i + 1]]) % vc).collect();
        first.submeshes = vec![(40_000, 1, 0, 0), (26_000, 2, 0, 0)];
        let mut second = spec.lods[0][0].clone();
        let rnd = random_bytes(0xB17, 2 * 30);
        second.indices = (0..30).map(|i| u16::from_le_bytes([rnd[2 * i], rnd[2 * i + 1]]) % vc).collect();
        second.submeshes = vec![(30, 1, 0, 0)];
        spec.lods[0] = vec![first, second];
    } else {
        // the largest vertex count a mesh can declare: one byte-sized stream, so that the offset of the last vertex
        // (65 534 x stride) is what is exercised
        first.elements = vec![Element { stream: 0, offset: 0, ty: T_BYTEFLOAT4, usage: U_COLOR, usage_index: 0 }, Element { stream: 1, offset: 0, ty: T_HALF4, usage: U_POSITION, usage_index: 0 }];
        first.strides = [4, 8, 0];
        first.stream_count = 2;
        first.vertex_count = 65_535;
        first.streams = [random_bytes(0xB18, 4 * 65_535), random_bytes(0xB19, 8 * 65_535), vec![]];
        first.indices = vec![0, 65_534, 32_768, 1, 65_533, 2];
        first.submeshes = vec![(6, 1, 0, 0)];
        spec.lods[0] = vec![first];
    }
    spec
}

fn prop_sweep(c: &SweepCase, ctx: &Ctx) -> PResult {
    let spec = if c.variant >= 10 { boundary_spec(c.variant, c.v6) } else { sweep_spec(c.variant, c.v6, false) };
    let built = encode(&spec);
    let mdl = match guard("MDL::from_existing", || MDL::from_existing(&built.bytes))? {
        Some(m) => m,
        None => return fail("model-rejected", "sweep model rejected"),
    };
    compare_model(&mdl, &built.expected, &spec, Some(ctx))?;
    ctx.evals_add(spec.lods[0][0].vertex_count as u64);
    ctx.classf(format!("sweep-variant:{}", c.variant));
    ctx.nontrivial(&built.bytes);
    Ok(())
}

pub fn property() -> Property {
    Property {
        id: "C06",
        rule: "[round 9: every fourth model with >= 2 LODs has 1..3 meshes of no LOD's main range behind LOD 0's meshes] Models built by the harness's MDL encoder: version 5 | 6 (bone tables and bone-map size field per version), 1..3 LODs x 1..3 meshes, per mesh a declaration of 1..8 elements with unique usages drawn from the 17 (usage, type) pairs the reader supports, spread over 1..3 streams with gaps between elements, tail gaps in the stride and gaps between streams / sections; 0..40 vertices of random bytes (so NaN/inf/subnormal half patterns and all byte values occur), 0..120 indices, 1..3 contiguous sub-meshes; material / bone / attribute / extra names in the string table; 0..3 shapes with shape meshes and values; element ids, bone map, padding, bounding boxes. Every fifth mesh with a four-component UV element also declares a two-component UV element with usage index 1 behind it (its own first pair is then not asserted, the second pair of the first element still is). Sweep part: dedicated models carrying all 65 536 half patterns in each Half4/Half2 role and all 256 byte values in each normalised-byte role (both versions), plus two size boundaries: a mesh that starts 66 000 indices into its LOD's index buffer, and a mesh of 65 535 vertices. Oracle: independent decode of the generated stream bytes (own half decoder, b/255, b*2/255-1 with the w sign rule, uv0/uv1 split, defaults for absent attributes); floats by bit pattern (NaN=NaN), normalised bytes within 1e-6; indices, sub-mesh (count, offset), raw vertex streams, strides, material index, material and bone names, names of the shapes affecting each mesh. Non-trivial: a mesh with >= 2 streams or >= 4 elements and >= 1 vertex; distinct by hash of the file.",
        assumptions: &["values of (BlendWeights, Byte4|UShort4) and (BlendIndices, UShort4) and morph deltas are not compared (reader marks them provisional)", "shape values are only attached to meshes whose start index is 0 (the reader indexes the mesh-local index list with the LOD-relative base index)", "flags1/flags2 bytes carry a single bit (the reader models them as enums)"],
        pre: None,
        post: None,
        parts: vec![
            Box::new(Part { name: "codec-sweep", driver: Driver::Enum(sweep_cases), prop: prop_sweep, exhaustive: true }),
            Box::new(Part { name: "models", driver: Driver::Gen(strategy, 240_000, 3_840_000), prop, exhaustive: false }),
        ],
    }
}

pub fn seed_files(n: usize) -> Vec<(String, Vec<u8>)> {
    let strat = case_strategy(12);
    let mut out = vec![];
    let mut k = 0u64;
    while out.len() < n && k < 300 {
        let c = draw_fixed(&strat, 0xC06_5EED + k);
        k += 1;
        // alternate versions; prefer models with shapes and several meshes
        if c.v6 != (out.len() % 2 == 1) {
            continue;
        }
        let spec = realise(&c, &READ_PAIRS, false);
        let built = encode(&spec);
        if built.bytes.len() > 8000 || spec.lods.iter().flatten().count() < 2 {
            continue;
        }
        out.push((format!("gen{}-v{}", out.len(), if c.v6 { 6 } else { 5 }), built.bytes));
    }
    out
}

//! C04 — a created patch turns the old tree into the new tree.
use crate::engine::panics::guard;
use crate::engine::tmp::TmpDir;
use crate::engine::*;
use crate::props::c02::content;
use crate::props::c03::walk;
use proptest::collection::vec;
use proptest::prelude::*;
use serde::{Deserialize, Serialize};
use serde_json::json;
use std::collections::BTreeMap;

#[derive(Clone, Debug, Serialize, Deserialize)]
pub struct Entry {
    pub dirs: Vec<u8>,
    pub name: u8,
    /// 0 only-A, 1 only-B, 2 both-same, 3 both-changed, 4 both with B empty, 5 only-A empty, 6 only-B empty, 7 both-changed-same-size
    pub kind: u8,
    pub size_a: u32,
    pub size_b: u32,
    pub seed: u64,
}

#[derive(Clone, Debug, Serialize, Deserialize)]
pub struct Case {
    pub entries: Vec<Entry>,
}

// the last six: sibling names of which one is the front of another ("ex1" / "ex10", "boot" / "boot2", "v" / "ve" / "ver")
// 14..18: names that differ from another name of the pool in letter case only, and names that start with a dot
const DIRN: [&str; 18] = ["game", "sqpack", "ffxiv", "ex1", "boot", "d", "v1..2", "d.e", "ex10", "boot2", "v", "ve", "ver", "ex", "Game", "BOOT", ".cache", ".meta"];
/// the second half: names that are a directory name of the pool followed by a byte that sorts below '/', so that the
/// order of whole path strings and the order of paths compared component by component disagree
const FILEN: [&str; 34] = ["a.bin", "b.dat", "ffxivgame.ver", "000000.win32.dat0", "000000.win32.index", "c.txt", "UPPER.Case", "x", "d.bak", "boot-old.bin", "game .txt", "ex1.ver", "sqpack+1.dat", "ffxiv!", "d-", "boot.d.e",
    // names sharing their stem with another name of the pool (a.bin / a.tmp, c.txt / c.tmp, ...), and names with a backslash
    // (an ordinary character of a file name here)
    "a.tmp", "c.tmp", "b.tmp", "UPPER.tmp", "x.tmp", "win\\style.bin", "key\\value.cfg", "a.bak",
    // consecutive dots inside a name (not a path component of their own)
    "notes..txt", "save..bak", "a..b", "...rc",
    // the same name in another letter case (two different files here), and hidden files
    "A.BIN", "c.TXT", "upper.case", ".version", ".lastpatch", "B.dat"];

fn path_of(e: &Entry) -> String {
    let mut s = String::new();
    for d in &e.dirs {
        s.push_str(DIRN[*d as usize % 18]);
        s.push('/');
    }
    // "x" has no dot: make it unambiguous as a file name
    s.push_str(FILEN[e.name as usize % 34]);
    if FILEN[e.name as usize % 34] == "x" {
        s.push_str(".f");
    }
    s
}

fn size(max: u32) -> BoxedStrategy<u32> {
    prop_oneof![
        27 => prop::sample::select(vec![1u32, 2, 3, 4, 111, 112, 113, 127, 128, 129, 143, 144, 145, 255, 256, 31_999, 32_000, 32_001]),
        27 => 1u32..600,
        18 => 1u32..=max,
        // large enough for a half-compressible file to deflate to 32 000 bytes or more (the value that marks a stored block)
        1 => prop::sample::select(vec![48_000u32, 60_000, 80_000, 120_000]),
    ]
    .boxed()
}

fn strategy(ctx: &Ctx) -> BoxedStrategy<Case> {
    let max = ctx.tier.pick(8 * 1024u32, 400 * 1024u32);
    vec((vec(prop_oneof![6 => 0u8..6, 1 => 6u8..8, 5 => 8u8..14, 3 => 14u8..18], 0..=4), prop_oneof![3 => 0u8..8, 2 => 8u8..16, 2 => 16u8..24, 1 => 24u8..28, 2 => 28u8..34], prop_oneof![8 => 0u8..4, 1 => 4u8..8], size(max), size(max), any::<u64>()).prop_map(|(dirs, name, kind, size_a, size_b, seed)| Entry { dirs, name, kind, size_a, size_b, seed }), 1..=10)
        .prop_map(|entries| Case { entries })
        .boxed()
}

fn write_tree(root: &std::path::Path, files: &BTreeMap<String, Vec<u8>>) {
    std::fs::create_dir_all(root).unwrap();
    for (p, d) in files {
        let full = root.join(p);
        std::fs::create_dir_all(full.parent().unwrap()).unwrap();
        std::fs::write(full, d).unwrap();
    }
}

fn prop(c: &Case, ctx: &Ctx) -> PResult {
    let mut a: BTreeMap<String, Vec<u8>> = BTreeMap::new();
    let mut b: BTreeMap<String, Vec<u8>> = BTreeMap::new();
    let mut kinds = std::collections::BTreeSet::new();
    for e in &c.entries {
        let p = path_of(e);
        if a.contains_key(&p) || b.contains_key(&p) {
            continue;
        }
        // a file name must not also be used as a directory name by another entry: guaranteed by the pools
        let da = content(e.seed, 1, e.size_a as usize, (e.seed % 4) as u8);
        let db = content(e.seed, 2, e.size_b as usize, ((e.seed >> 8) % 4) as u8);
        match e.kind {
            0 => {
                a.insert(p, da);
            }
            1 => {
                b.insert(p, db);
            }
            2 => {
                a.insert(p.clone(), da.clone());
                b.insert(p, da);
            }
            3 => {
                let mut db = db;
                if db == da {
                    db.push(1);
                }
                a.insert(p.clone(), da);
                b.insert(p, db);
            }
            4 => {
                a.insert(p.clone(), da);
                b.insert(p, vec![]);
            }
            5 => {
                a.insert(p, vec![]);
            }
            6 => {
                b.insert(p, vec![]);
            }
            _ => {
                // changed content, same size
                let mut db = da.clone();
                let i = (e.seed as usize) % db.len();
                db[i] ^= 0x55;
                a.insert(p.clone(), da);
                b.insert(p, db);
            }
        }
        kinds.insert(e.kind);
        ctx.classf(format!("kind:{}", ["only-A", "only-B", "both-same", "both-changed", "both-B-empty", "only-A-empty", "only-B-empty", "both-changed-same-size"][e.kind as usize]));
        ctx.classf(format!("depth:{}", e.dirs.len()));
        let sz = e.size_a.max(e.size_b);
        ctx.classf(format!("size:{}", if sz <= 144 { "<=144" } else if sz < 31_999 { "<32000" } else if sz <= 32_001 { "~32000" } else { ">32000" }));
        if e.size_b >= 48_000 && matches!(e.kind, 1 | 3) {
            ctx.classf(format!("large-B-file:content-style:{}", (e.seed >> 8) % 4));
        }
    }
    // directories that exist only in B, and among them siblings of which one name is the front of the other
    let dirs_of = |m: &BTreeMap<String, Vec<u8>>| -> std::collections::BTreeSet<String> {
        let mut d = std::collections::BTreeSet::new();
        for p in m.keys() {
            let mut cur = p.as_str();
            while let Some(i) = cur.rfind('/') {
                cur = &cur[..i];
                d.insert(cur.to_string());
            }
        }
        d
    };
    let (dirs_a, dirs_b) = (dirs_of(&a), dirs_of(&b));
    let new_dirs: Vec<&String> = dirs_b.iter().filter(|d| !dirs_a.contains(*d)).collect();
    if new_dirs.iter().any(|x| new_dirs.iter().any(|y| x != y && y.starts_with(x.as_str()) && !y[x.len()..].starts_with('/') && x.rfind('/') == y.rfind('/'))) {
        ctx.class("new-sibling-directories:one-name-front-of-the-other");
    }
    let tmp = TmpDir::new("c04");
    let (ra, rb, rt) = (tmp.join("A"), tmp.join("B"), tmp.join("T"));
    write_tree(&ra, &a);
    write_tree(&rb, &b);
    write_tree(&rt, &a);
    // half of the pairs are trees whose files all carry one and the same old time stamp (unpacked from an archive that keeps
    // none, or built reproducibly): what has changed is decided by content
    if c.entries.iter().map(|e| e.seed).fold(0u64, |x, y| x ^ y) % 2 == 1 {
        let stamp = std::time::UNIX_EPOCH + std::time::Duration::from_secs(1_000_000_000);
        for (root, files) in [(&ra, &a), (&rb, &b), (&rt, &a)] {
            for p in files.keys() {
                if let Ok(f) = std::fs::OpenOptions::new().write(true).open(root.join(p)) {
                    let _ = f.set_modified(stamp);
                }
            }
        }
        ctx.class("trees-with-one-old-time-stamp");
    }
    let patch = guard("ZiPatch::create", || physis::patch::ZiPatch::create(ra.to_str().unwrap(), rb.to_str().unwrap()))?;
    let patch = match patch {
        Some(p) => p,
        None => return fail("create-none", "ZiPatch::create returned None"),
    };
    // (i) create is read-only
    let (fa, _) = walk(&ra);
    let (fb, _) = walk(&rb);
    if fa != a {
        return fail("create-modified-A", "tree A changed while creating the patch");
    }
    if fb != b {
        return fail("create-modified-B", "tree B changed while creating the patch");
    }
    // (ii) apply to a copy of A
    let pp = tmp.join("out.patch");
    std::fs::write(&pp, &patch).unwrap();
    let r = guard("ZiPatch::apply", || physis::patch::ZiPatch::apply(rt.to_str().unwrap(), pp.to_str().unwrap()))?;
    if let Err(e) = r {
        return fail("apply-error", format!("applying the created patch returned Err({:?})", e));
    }
    // (iii) T has exactly B's non-empty files
    let (ft, _) = walk(&rt);
    for (p, want) in &b {
        match ft.get(p) {
            Some(got) if got == want => {}
            Some(got) => {
                let slug = if a.get(p) == Some(got) { "kept-old-content" } else { "file-content-differs" };
                return fail(slug, format!("{}: after patching has {} bytes, B has {} bytes (A had {:?})", p, got.len(), want.len(), a.get(p).map(|x| x.len())));
            }
            None if want.is_empty() => {}
            None => {
                let slug = if a.contains_key(p) { "common-file-deleted" } else { "added-file-missing" };
                return fail(slug, format!("{} ({} bytes in B, {:?} in A) is missing after patching; files now: {:?}", p, want.len(), a.get(p).map(|x| x.len()), ft.keys().collect::<Vec<_>>()));
            }
        }
    }
    for p in ft.keys() {
        if !b.contains_key(p) {
            return fail("removed-file-survives", format!("{} exists after patching but not in B", p));
        }
    }
    if kinds.contains(&0) && kinds.contains(&1) && (kinds.contains(&3) || kinds.contains(&7)) {
        ctx.nontrivial(format!("{:?}", c).as_bytes());
        if ctx.want_sample() {
            ctx.sample(json!({"A": a.iter().map(|(k, v)| format!("{} ({} B)", k, v.len())).collect::<Vec<_>>(), "B": b.iter().map(|(k, v)| format!("{} ({} B)", k, v.len())).collect::<Vec<_>>(), "patch_len": patch.len()}));
        }
    }
    Ok(())
}

pub fn property() -> Property {
    Property {
        id: "C04",
        rule: "[rounds 8-9: directory names of which one is the front of another; sizes 48 000..120 000 (half-compressible content deflates to >= 32 000 bytes); half of the pairs with one old time stamp on every file] 1..10 distinct relative paths (0..4 directories deep, ASCII, file and directory names from disjoint pools) each assigned one of {only-A, only-B, both-same, both-changed, both-changed-same-size, both with B empty, only-A empty, only-B empty}; sizes from {1,2,3,4,111..113,127..129,143..145,255,256,31999..32001} or random up to 8 KiB (400 KiB thorough); A, B and T = copy(A) materialised in a scratch directory; patch = ZiPatch::create(A, B) written outside the trees and applied to T with ZiPatch::apply. Oracle: A and B byte-identical before/after create; apply returns Ok; T's files = B's non-empty files with B's bytes (a path whose B version is empty may be absent or empty but must not keep A's bytes); nothing else remains. Non-trivial: at least one only-A, one only-B and one changed file; distinct by hash of the case.",
        assumptions: &["no path is a file in one tree and a directory in the other", "an empty B-side file may be absent or empty in the result (create documents skipping empty files)"],
        pre: None,
        post: None,
        parts: vec![Box::new(Part { name: "tree-pairs", driver: Driver::Gen(strategy, 20_000, 320_000), prop, exhaustive: false })],
    }
}

//! C13 — textures decode to the pixels their format defines.
use crate::engine::panics::guard;
use crate::engine::*;
use crate::{ensure, ensure_eq};
use physis::tex::{Texture, TextureType};
use proptest::prelude::*;
use serde::{Deserialize, Serialize};
use serde_json::json;

pub const F_BGRA: u32 = 0x1450;
pub const F_BC1: u32 = 0x3420;
pub const F_BC3: u32 = 0x3431;
pub const F_BC5: u32 = 0x6230;

#[derive(Clone, Debug, Serialize, Deserialize)]
pub struct Case {
    pub format: u32,
    pub width: u16,
    pub height: u16,
    pub depth: u16,
    pub attribute: u32,
    pub mips: u16,
    pub seed: u64,
    pub trailing: u16,
    /// fraction (0..=255) of blocks whose endpoints are forced equal / ordered
    pub tie_bias: u8,
}

pub fn header(c: &Case) -> Vec<u8> {
    let mut h = vec![];
    h.extend_from_slice(&c.attribute.to_le_bytes());
    h.extend_from_slice(&c.format.to_le_bytes());
    h.extend_from_slice(&c.width.to_le_bytes());
    h.extend_from_slice(&c.height.to_le_bytes());
    h.extend_from_slice(&c.depth.to_le_bytes());
    h.extend_from_slice(&c.mips.to_le_bytes());
    for i in 0..3u32 {
        h.extend_from_slice(&(i ^ c.seed as u32).to_le_bytes());
    }
    h.extend_from_slice(&80u32.to_le_bytes());
    for i in 1..13u32 {
        h.extend_from_slice(&(i.wrapping_mul(c.seed as u32 | 1)).to_le_bytes());
    }
    assert_eq!(h.len(), 80);
    h
}

fn block_size(format: u32) -> usize {
    if format == F_BC1 {
        8
    } else {
        16
    }
}

pub fn payload(c: &Case) -> Vec<u8> {
    let (w, h, d) = (c.width as usize, c.height as usize, c.depth as usize);
    let n = if c.format == F_BGRA { 4 * w * h * d } else { ((w + 3) / 4) * ((h * d + 3) / 4) * block_size(c.format) };
    let mut p = crate::build::mdl::random_bytes(c.seed, n + c.trailing as usize);
    if c.format != F_BGRA {
        // force ties / orderings on a fraction of the blocks so that every mode is common
        let bs = block_size(c.format);
        for b in 0..n / bs {
            let r = util::splitmix64(c.seed ^ (b as u64) << 20);
            // one block in sixteen is degenerate as a whole: every byte 0x00 (flat black areas compress to exactly
            // this), every byte 0xFF, or one repeated byte - still an ordinary block to decode
            if (r >> 40) % 16 == 0 {
                let fill = match (r >> 44) % 4 {
                    0 | 1 => 0x00,
                    2 => 0xFF,
                    _ => (r >> 48) as u8,
                };
                p[b * bs..(b + 1) * bs].fill(fill);
                continue;
            }
            if (r & 0xff) as u8 >= c.tie_bias {
                continue;
            }
            let blk = &mut p[b * bs..(b + 1) * bs];
            let mode = (r >> 8) % 3;
            let mut fix16 = |at: usize| {
                let q0 = u16::from_le_bytes([blk[at], blk[at + 1]]);
                let q1 = u16::from_le_bytes([blk[at + 2], blk[at + 3]]);
                let (a, b2) = match mode {
                    0 => (q0, q0),
                    1 => (q0.max(q1), q0.min(q1)),
                    _ => (q0.min(q1), q0.max(q1)),
                };
                blk[at..at + 2].copy_from_slice(&a.to_le_bytes());
                blk[at + 2..at + 4].copy_from_slice(&b2.to_le_bytes());
            };
            if c.format == F_BC1 {
                fix16(0);
            } else if c.format == F_BC3 {
                fix16(8);
            }
            if c.format != F_BC1 {
                for at in if c.format == F_BC5 { vec![0usize, 8] } else { vec![0usize] } {
                    let (a0, a1) = (blk[at], blk[at + 1]);
                    let (x, y) = match (r >> 12) % 3 {
                        0 => (a0, a0),
                        1 => (a0.max(a1), a0.min(a1)),
                        _ => (a0.min(a1), a0.max(a1)),
                    };
                    blk[at] = x;
                    blk[at + 1] = y;
                }
            }
        }
    }
    p
}

/// A channel value: exact, an inclusive interval (both rounding conventions), or unconstrained.
#[derive(Clone, Copy, Debug, PartialEq)]
pub enum Ch {
    Exact(u8),
    /// an interpolant that is not a whole number: floor and ceiling of the exact rational num / den, and the value
    /// rounding to nearest gives
    Range { lo: u8, hi: u8, den: u8, nearest: u8 },
    /// BC3 colour with c0 <= c1, selectors 2 / 3: the value under the four-colour reading (Direct3D: BC2 / BC3 colour
    /// blocks never switch mode) or under the BC1 reading (three colours + black); inclusive bounds of each
    Alt { four: (u8, u8), three: (u8, u8) },
    Any,
}

impl Ch {
    fn ok(&self, v: u8) -> bool {
        match self {
            Ch::Exact(x) => *x == v,
            Ch::Range { lo, hi, .. } => *lo <= v && v <= *hi,
            Ch::Alt { four, three } => (four.0 <= v && v <= four.1) || (three.0 <= v && v <= three.1),
            Ch::Any => true,
        }
    }
}

/// exact rational (num / den) -> [floor, ceil]
fn interp(num: u32, den: u32) -> Ch {
    let lo = num / den;
    let hi = (num + den - 1) / den;
    if lo == hi {
        Ch::Exact(lo as u8)
    } else {
        Ch::Range { lo: lo as u8, hi: hi as u8, den: den as u8, nearest: ((num + den / 2) / den) as u8 }
    }
}

fn expand565(q: u16) -> [u32; 3] {
    let r5 = (q >> 11) as u32 & 31;
    let g6 = (q >> 5) as u32 & 63;
    let b5 = q as u32 & 31;
    [(r5 << 3) | (r5 >> 2), (g6 << 2) | (g6 >> 4), (b5 << 3) | (b5 >> 2)]
}

/// colour of pixel `px` (0..16, row-major inside the block) of a BC1 colour block. `bc3` = the block is the
/// colour half of a BC3 block (selectors 2/3 when c0 <= c1: either reading of the mode rule, see `Ch::Alt`).
pub fn bc1_pixel(blk: &[u8], px: usize, bc3: bool) -> [Ch; 4] {
    let q0 = u16::from_le_bytes([blk[0], blk[1]]);
    let q1 = u16::from_le_bytes([blk[2], blk[3]]);
    let (c0, c1) = (expand565(q0), expand565(q1));
    let bits = u32::from_le_bytes([blk[4], blk[5], blk[6], blk[7]]);
    let sel = (bits >> (2 * px)) & 3;
    let alpha = Ch::Exact(255);
    let exact = |c: [u32; 3]| [Ch::Exact(c[0] as u8), Ch::Exact(c[1] as u8), Ch::Exact(c[2] as u8), alpha];
    match sel {
        0 => exact(c0),
        1 => exact(c1),
        _ if q0 > q1 => {
            let (a, b) = if sel == 2 { (c0, c1) } else { (c1, c0) };
            [interp(2 * a[0] + b[0], 3), interp(2 * a[1] + b[1], 3), interp(2 * a[2] + b[2], 3), alpha]
        }
        _ if bc3 => {
            let bounds = |c: Ch| match c {
                Ch::Exact(x) => (x, x),
                Ch::Range { lo, hi, .. } => (lo, hi),
                _ => (0, 255),
            };
            let (a, b) = if sel == 2 { (c0, c1) } else { (c1, c0) };
            let four = [interp(2 * a[0] + b[0], 3), interp(2 * a[1] + b[1], 3), interp(2 * a[2] + b[2], 3)];
            let three = if sel == 2 { [interp(c0[0] + c1[0], 2), interp(c0[1] + c1[1], 2), interp(c0[2] + c1[2], 2)] } else { [Ch::Exact(0); 3] };
            let alt = |k: usize| Ch::Alt { four: bounds(four[k]), three: bounds(three[k]) };
            [alt(0), alt(1), alt(2), Ch::Any]
        }
        2 => [interp(c0[0] + c1[0], 2), interp(c0[1] + c1[1], 2), interp(c0[2] + c1[2], 2), alpha],
        _ => [Ch::Exact(0), Ch::Exact(0), Ch::Exact(0), Ch::Any],
    }
}

/// value of pixel `px` of a BC3-style alpha block
pub fn alpha_pixel(blk: &[u8], px: usize) -> Ch {
    let (a0, a1) = (blk[0] as u32, blk[1] as u32);
    let mut bits = 0u64;
    for k in 0..6 {
        bits |= (blk[2 + k] as u64) << (8 * k);
    }
    let sel = ((bits >> (3 * px)) & 7) as u32;
    match sel {
        0 => Ch::Exact(a0 as u8),
        1 => Ch::Exact(a1 as u8),
        _ if a0 > a1 => interp((8 - sel) * a0 + (sel - 1) * a1, 7),
        6 => Ch::Exact(0),
        7 => Ch::Exact(255),
        _ => interp((6 - sel) * a0 + (sel - 1) * a1, 5),
    }
}

/// expected pixel at (x, y) of the w x rows image
pub fn expected_pixel(format: u32, data: &[u8], w: usize, x: usize, y: usize) -> [Ch; 4] {
    if format == F_BGRA {
        let o = 4 * (y * w + x);
        return [Ch::Exact(data[o + 2]), Ch::Exact(data[o + 1]), Ch::Exact(data[o]), Ch::Exact(data[o + 3])];
    }
    let bs = block_size(format);
    let bx = (w + 3) / 4;
    let b = (y / 4) * bx + x / 4;
    let blk = &data[b * bs..(b + 1) * bs];
    let px = (y % 4) * 4 + x % 4;
    match format {
        F_BC1 => bc1_pixel(blk, px, false),
        F_BC3 => {
            let mut c = bc1_pixel(&blk[8..], px, true);
            c[3] = alpha_pixel(blk, px);
            c
        }
        _ => [alpha_pixel(blk, px), alpha_pixel(&blk[8..], px), Ch::Exact(0), Ch::Exact(255)],
    }
}

fn format_name(f: u32) -> &'static str {
    match f {
        F_BGRA => "B8G8R8A8",
        F_BC1 => "BC1",
        F_BC3 => "BC3",
        _ => "BC5",
    }
}

fn check_texture(c: &Case, file: &[u8], data: &[u8], ctx: &Ctx) -> PResult {
    let t = match guard("Texture::from_existing", || Texture::from_existing(file))? {
        Some(t) => t,
        None => return fail("texture-rejected", format!("from_existing returned None for a {} {}x{}x{} texture", format_name(c.format), c.width, c.height, c.depth)),
    };
    let (w, h, d) = (c.width as usize, c.height as usize, c.depth as usize);
    ensure_eq!((t.width, t.height, t.depth), (w as u32, h as u32, d as u32), "texture-dimensions", "reported dimensions");
    ensure_eq!(t.rgba.len(), 4 * w * h * d, "texture-pixel-count", "{} {}x{}x{}: RGBA byte count", format_name(c.format), w, h, d);
    let three_d = matches!(t.texture_type, TextureType::ThreeDimensional);
    ensure_eq!(three_d, c.attribute & 0x0100_0000 != 0, "texture-type", "three-dimensional flag for attribute {:#x}", c.attribute);
    let rows = h * d;
    // Which way a non-integral interpolant is rounded is the decoder's choice (down, to nearest, up), but it is one
    // choice per kind of interpolation (thirds, halves, sevenths, fifths): per denominator, the conventions that
    // explain every value seen so far in this image, and the first value seen for each
    let mut bc3_modes: u8 = 0b11;
    let mut viable: [u8; 8] = [0b111; 8];
    let mut first: [Option<(usize, usize, usize, u8, Ch)>; 8] = [None; 8];
    for y in 0..rows {
        for x in 0..w {
            let want = expected_pixel(c.format, data, w, x, y);
            let o = 4 * (y * w + x);
            for ch in 0..4 {
                let got = t.rgba[o + ch];
                if !want[ch].ok(got) {
                    return fail(&format!("pixel-differs/{}", format_name(c.format)), format!("{} {}x{}x{} pixel ({}, {}) channel {}: physis={:?} specification={:?}", format_name(c.format), w, h, d, x, y, "RGBA".as_bytes()[ch] as char, &t.rgba[o..o + 4], want));
                }
                if let Ch::Alt { four, three } = want[ch] {
                    // one reading of the mode rule per image
                    let fits = (four.0 <= got && got <= four.1) as u8 | ((three.0 <= got && got <= three.1) as u8) << 1;
                    if bc3_modes & fits == 0 {
                        return fail("bc3-colour-mode-inconsistent", format!("BC3 {}x{}x{}: colour blocks with c0 <= c1 are decoded under the four-colour reading in one place and under the three-colour reading in another; pixel ({}, {}) channel {} = {} for {:?}", w, h, d, x, y, ch, got, want[ch]));
                    }
                    bc3_modes &= fits;
                }
                if let Ch::Range { lo, hi, den, nearest } = want[ch] {
                    let k = den as usize;
                    let fits = (got == lo) as u8 | ((got == nearest) as u8) << 1 | ((got == hi) as u8) << 2;
                    if viable[k] & fits == 0 {
                        let (fx, fy, fch, fgot, fwant) = first[k].unwrap();
                        return fail(
                            &format!("interpolation-rounding-inconsistent/{}", format_name(c.format)),
                            format!("{} {}x{}x{}: interpolants over {} are rounded in different ways inside one image: pixel ({}, {}) channel {} = {} for {:?}, but pixel ({}, {}) channel {} = {} for {:?}", format_name(c.format), w, h, d, den, fx, fy, fch, fgot, fwant, x, y, ch, got, want[ch]),
                        );
                    }
                    if viable[k] & fits != viable[k] || first[k].is_none() {
                        first[k] = first[k].or(Some((x, y, ch, got, want[ch])));
                    }
                    viable[k] &= fits;
                }
            }
        }
    }
    ctx.classf(format!("format:{}", format_name(c.format)));
    Ok(())
}

/// run the check on a thread of its own: the decode is then the first thing that thread ever does (a decoder is a function of
/// the file, not of what the calling thread decoded before)
fn check_on_fresh_thread(c: &Case, file: &[u8], data: &[u8], ctx: &Ctx) -> PResult {
    std::thread::scope(|s| s.spawn(|| check_texture(c, file, data, ctx)).join()).unwrap_or_else(|_| fail("harness-panic", "the checking thread panicked"))
}

fn prop(c: &Case, ctx: &Ctx) -> PResult {
    let data = payload(c);
    let mut file = header(c);
    file.extend_from_slice(&data);
    if c.seed % 16 == 3 {
        ctx.class("decoded-on-a-fresh-thread");
        check_on_fresh_thread(c, &file, &data, ctx)?;
    } else {
        check_texture(c, &file, &data, ctx)?;
    }
    let partial = c.width % 4 != 0 || (c.height as usize * c.depth as usize) % 4 != 0;
    if partial {
        ctx.class("partial-edge-block");
    }
    if c.depth > 1 {
        ctx.class("depth>1");
    }
    if c.attribute & 0x0100_0000 != 0 {
        ctx.class("attribute:3D");
    }
    if (c.format != F_BGRA && partial) || c.depth > 1 {
        ctx.nontrivial(&file);
        if ctx.want_sample() {
            ctx.sample(json!({"format": format_name(c.format), "width": c.width, "height": c.height, "depth": c.depth, "attribute": format!("{:#x}", c.attribute), "file_len": file.len(), "header": util::hex(&file[..24]), "payload_prefix": util::hex_trunc(&data, 32)}));
        }
    }
    Ok(())
}

fn strategy(ctx: &Ctx) -> BoxedStrategy<Case> {
    let max = ctx.tier.pick(64u16, 512u16);
    let dim = move || prop_oneof![3 => 1u16..=16, 2 => 1u16..=max, 1 => prop::sample::select(vec![1u16, 2, 3, 4, 5, 7, 8, 9])];
    (prop::sample::select(vec![F_BGRA, F_BC1, F_BC3, F_BC5]), dim(), dim(), prop_oneof![3 => Just(1u16), 1 => 2u16..=8], prop_oneof![1 => any::<u32>(), 1 => Just(0u32), 1 => Just(0x0100_0000u32), 1 => Just(0x0080_0000u32)], any::<u16>(), any::<u64>(), prop_oneof![2 => Just(0u16), 1 => 0u16..200], any::<u8>())
        .prop_map(move |(format, width, mut height, depth, attribute, mips, seed, trailing, tie_bias)| {
            if depth > 1 {
                // slices must start on a block row
                height = ((height + 3) / 4 * 4).min(max.max(4));
                // keep the image size bounded
                if width as u32 * height as u32 * depth as u32 > 512 * 512 {
                    height = 4;
                }
            }
            Case { format, width, height, depth, attribute, mips, seed, trailing, tie_bias }
        })
        .boxed()
}

/// Sweep: per pixel position, every selector value x endpoint ordering (>, =, <), several endpoint pairs.
#[derive(Clone, Debug, Serialize, Deserialize)]
pub struct Sweep {
    pub format: u32,
    pub endpoints: u8,
}

fn sweep_cases(_: &Ctx) -> Vec<Sweep> {
    let mut v = vec![];
    for format in [F_BC1, F_BC3, F_BC5] {
        for endpoints in 0..6 {
            v.push(Sweep { format, endpoints });
        }
    }
    v
}

fn prop_sweep(s: &Sweep, ctx: &Ctx) -> PResult {
    let colour_pairs: [(u16, u16); 6] = [(0xFFFF, 0x0000), (0xF800, 0x07E0), (0x1234, 0xABCD), (0x8410, 0x8410), (0x0001, 0x0800), (0x7BEF, 0x7BCF)];
    let alpha_pairs: [(u8, u8); 6] = [(255, 0), (200, 13), (1, 0), (128, 128), (77, 78), (254, 255)];
    let (q0, q1) = colour_pairs[s.endpoints as usize];
    let (a0, a1) = alpha_pairs[s.endpoints as usize];
    let mut blocks: Vec<u8> = vec![];
    let mut count = 0u64;
    for ordering in 0..3 {
        let (c0, c1) = match ordering {
            0 => (q0.max(q1), q0.min(q1)),
            1 => (q0, q0),
            _ => (q0.min(q1), q0.max(q1)),
        };
        let (b0, b1) = match ordering {
            0 => (a0.max(a1), a0.min(a1)),
            1 => (a0, a0),
            _ => (a0.min(a1), a0.max(a1)),
        };
        for pos in 0..16usize {
            let nsel = if s.format == F_BC1 { 4 } else { 8 };
            for sel in 0..nsel as u64 {
                // the swept pixel carries `sel`, every other pixel a different selector derived from its index
                let mut cbits = 0u32;
                let mut abits = 0u64;
                for p in 0..16u64 {
                    let cs = if p as usize == pos { sel & 3 } else { (p + sel + 1) & 3 };
                    let as_ = if p as usize == pos { sel & 7 } else { (p + sel + 3) & 7 };
                    cbits |= (cs as u32) << (2 * p);
                    abits |= as_ << (3 * p);
                }
                let mut colour = vec![];
                colour.extend_from_slice(&c0.to_le_bytes());
                colour.extend_from_slice(&c1.to_le_bytes());
                colour.extend_from_slice(&cbits.to_le_bytes());
                let mut alpha = vec![b0, b1];
                alpha.extend_from_slice(&abits.to_le_bytes()[..6]);
                match s.format {
                    F_BC1 => blocks.extend_from_slice(&colour),
                    F_BC3 => {
                        blocks.extend_from_slice(&alpha);
                        blocks.extend_from_slice(&colour);
                    }
                    _ => {
                        blocks.extend_from_slice(&alpha);
                        let mut second = vec![b1, b0];
                        second.extend_from_slice(&abits.rotate_left(3).to_le_bytes()[..6]);
                        blocks.extend_from_slice(&second);
                    }
                }
                count += 1;
            }
        }
    }
    let nblocks = blocks.len() / block_size(s.format);
    let c = Case { format: s.format, width: (4 * nblocks) as u16, height: 4, depth: 1, attribute: 0x0080_0000, mips: 1, seed: 1, trailing: 0, tie_bias: 0 };
    let mut file = header(&c);
    file.extend_from_slice(&blocks);
    check_texture(&c, &file, &blocks, ctx)?;
    ctx.evals_add(count);
    ctx.classf(format!("sweep:{}", format_name(s.format)));
    ctx.nontrivial(&file);
    Ok(())
}

/// hand-computed blocks validate the oracle itself
/// One block decoded as the first thing a thread does: blocks made of the values an implementation is most likely to use
/// as "nothing yet" markers (all zeros, all ones, equal endpoints) and a few ordinary ones.
#[derive(Clone, Debug, Serialize, Deserialize)]
pub struct First {
    pub format: u32,
    pub block: Vec<u8>,
}

fn first_cases(_: &Ctx) -> Vec<First> {
    let mut v = vec![];
    let q: [u16; 6] = [0x0000, 0xFFFF, 0x0001, 0x8000, 0xF800, 0x1234];
    let sel: [u32; 5] = [0, 0xFFFF_FFFF, 0xAAAA_AAAA, 0x5555_5555, 0x1B1B_1B1B];
    let mut colour: Vec<Vec<u8>> = vec![];
    for q0 in q {
        for q1 in q {
            for s in sel {
                let mut b = vec![];
                b.extend_from_slice(&q0.to_le_bytes());
                b.extend_from_slice(&q1.to_le_bytes());
                b.extend_from_slice(&s.to_le_bytes());
                colour.push(b);
            }
        }
    }
    let a: [u8; 4] = [0, 255, 1, 128];
    let asel: [u64; 3] = [0, 0xFFFF_FFFF_FFFF, 0xFAC6_88FA_C688 & 0xFFFF_FFFF_FFFF];
    let mut alpha: Vec<Vec<u8>> = vec![];
    for a0 in a {
        for a1 in a {
            for s in asel {
                let mut b = vec![a0, a1];
                b.extend_from_slice(&s.to_le_bytes()[..6]);
                alpha.push(b);
            }
        }
    }
    for c in &colour {
        v.push(First { format: F_BC1, block: c.clone() });
    }
    for (i, al) in alpha.iter().enumerate() {
        for k in 0..6 {
            let c = &colour[(i * 7 + k * 31) % colour.len()];
            v.push(First { format: F_BC3, block: [al.clone(), c.clone()].concat() });
        }
        // the all-zero and all-ones colour halves with every alpha half
        v.push(First { format: F_BC3, block: [al.clone(), vec![0u8; 8]].concat() });
        v.push(First { format: F_BC3, block: [al.clone(), vec![0xFFu8; 8]].concat() });
    }
    for r in &alpha {
        for g in alpha.iter().step_by(5) {
            v.push(First { format: F_BC5, block: [r.clone(), g.clone()].concat() });
        }
    }
    for fill in [0x00u8, 0xFF, 0x01, 0x80] {
        v.push(First { format: F_BGRA, block: vec![fill; 64] });
    }
    v
}

fn prop_first(f: &First, ctx: &Ctx) -> PResult {
    let c = Case { format: f.format, width: 4, height: 4, depth: 1, attribute: 0, mips: 1, seed: 0, trailing: 0, tie_bias: 0 };
    let mut file = header(&c);
    file.extend_from_slice(&f.block);
    ctx.classf(format!("first-on-thread:{}", format_name(f.format)));
    ctx.nontrivial(&file);
    check_on_fresh_thread(&c, &file, &f.block, ctx)
}

fn pre(ctx: &Ctx) {
    // BC1: c0 = white, c1 = black, 4-colour mode; selector 2 -> (2*255+0)/3 = 170, selector 3 -> 85
    let blk = [0xFF, 0xFF, 0x00, 0x00, 0b1110_0100, 0, 0, 0];
    let ok = bc1_pixel(&blk, 0, false)[0] == Ch::Exact(255) && bc1_pixel(&blk, 1, false)[0] == Ch::Exact(0) && bc1_pixel(&blk, 2, false)[0] == Ch::Exact(170) && bc1_pixel(&blk, 3, false)[0] == Ch::Exact(85)
        // 3-colour mode: c0 < c1, selector 3 = black with free alpha, selector 2 = midpoint 127.5 -> [127, 128]
        && bc1_pixel(&[0x00, 0x00, 0xFF, 0xFF, 0b1110_0100, 0, 0, 0], 3, false) == [Ch::Exact(0), Ch::Exact(0), Ch::Exact(0), Ch::Any]
        && bc1_pixel(&[0x00, 0x00, 0xFF, 0xFF, 0b1110_0100, 0, 0, 0], 2, false)[1] == Ch::Range { lo: 127, hi: 128, den: 2, nearest: 128 }
        // alpha block 255/0 eight-value mode: selector 2 -> 6*255/7 = 218.57 -> [218, 219]; six-value mode selectors 6/7 -> 0/255
        && alpha_pixel(&[255, 0, 0b0000_0010, 0, 0, 0, 0, 0], 0) == Ch::Range { lo: 218, hi: 219, den: 7, nearest: 219 }
        && alpha_pixel(&[0, 255, 0b0011_1110, 0, 0, 0, 0, 0], 0) == Ch::Exact(0)
        && alpha_pixel(&[0, 255, 0b0011_1110, 0, 0, 0, 0, 0], 1) == Ch::Exact(255)
        && expand565(0xF800) == [255, 0, 0]
        && expand565(0x07E0) == [0, 255, 0]
        && expand565(0x0010) == [0, 0, 132];
    if !ok {
        ctx.infra("BCn oracle self-check failed");
    }
}

pub fn property() -> Property {
    Property {
        id: "C13",
        rule: "format in {B8G8R8A8, BC1, BC3, BC5}; width, height 1..64 (512 thorough) including non-multiples of 4; depth 1..8 (height rounded to a multiple of 4 when depth > 1); arbitrary attribute flags, mip field, LOD / surface offsets, 0..200 trailing bytes; one image in sixteen is decoded on a thread that has decoded nothing before, and an enumerated part decodes ~900 single blocks made of marker-like values (all zeros, all ones, equal endpoints) each as the first decode of a new thread; random payload with endpoint ties / orderings forced on a random fraction of the blocks and one block in sixteen degenerate as a whole (all 0x00, all 0xFF, one repeated byte). Sweep part: for BC1/BC3/BC5 x 6 endpoint pairs x 3 orderings (>, =, <) x 16 pixel positions x every selector value (4 colour / 8 alpha). Oracle: own per-pixel evaluation from the format definition: BGRA->RGBA; RGB565 endpoints by bit replication (exact); interpolated entries accepted in [floor, ceil] of the exact rational (2a+b)/3, (a+b)/2, ((8-k)a+(k-1)b)/7, ((6-k)a+(k-1)b)/5, and per image and denominator one rounding rule (down, nearest, up) must explain every non-integral interpolant; BC1 black entry RGB = 0 with unconstrained alpha; BC3 = alpha block over BC1 colour; BC5 = R, G from the two blocks, B = 0, A = 255; rgba.len() = 4wh d; 3-D iff attribute bit 0x1000000. Non-trivial: BCn image with a partial edge block, or depth > 1; distinct by hash of the file.",
        assumptions: &["which rounding rule a decoder uses for interpolants is not asserted (down, nearest and up are all accepted), only that it uses one rule per denominator within an image", "BC3 colour selectors 2/3 when c0 <= c1: the four-colour reading (Direct3D) and the BC1 reading (three colours + black) are both accepted, one per image", "oracle validated on hand-computed blocks at start-up"],
        pre: Some(pre),
        post: None,
        parts: vec![
            Box::new(Part { name: "selector-sweep", driver: Driver::Enum(sweep_cases), prop: prop_sweep, exhaustive: true }),
            Box::new(Part { name: "first-decode-on-a-thread", driver: Driver::Enum(first_cases), prop: prop_first, exhaustive: true }),
            Box::new(Part { name: "textures", driver: Driver::Gen(strategy, 240_000, 2_880_000), prop, exhaustive: false }),
        ],
    }
}

pub fn seed_files(ctx: &Ctx, n: usize) -> Vec<(String, Vec<u8>)> {
    let strat = strategy(ctx);
    let mut out = vec![];
    let mut seen = std::collections::HashSet::new();
    let mut k = 0u64;
    while out.len() < n && k < 400 {
        let c = draw_fixed(&strat, 0xC13_5EED + k);
        k += 1;
        // one seed per format first, small images
        if c.width as usize * c.height as usize * c.depth as usize > 1024 || (seen.len() < 4 && !seen.insert(c.format)) {
            continue;
        }
        let mut file = header(&c);
        file.extend_from_slice(&payload(&c));
        out.push((format!("gen{}-{}", out.len(), format_name(c.format)), file));
    }
    out
}

//! C10 — file-info tables and patch-list metadata are produced and parsed faithfully.
use crate::engine::panics::guard;
use crate::engine::tmp::TmpDir;
use crate::engine::*;
use crate::oracle::sha1::sha1;
use crate::props::c12::file_content;
use crate::{ensure, ensure_eq, gen};
use physis::fiin::FileInfo;
use physis::patchlist::{PatchEntry, PatchList, PatchListType};
use proptest::collection::vec;
use proptest::prelude::*;
use serde::{Deserialize, Serialize};
use serde_json::json;

#[derive(Clone, Debug, Serialize, Deserialize)]
pub struct FiinCase {
    /// (name, length, seed, sub-directory depth of the path handed to FileInfo::new)
    pub files: Vec<(String, u32, u64, u8)>,
}

fn file_name() -> BoxedStrategy<String> {
    prop_oneof![
        4 => gen::from_alphabet("abcdefghijklmnopqrstuvwxyzABCDEFGHIJKLMNOPQRSTUVWXYZ0123456789_-. ", 1, 24),
        1 => gen::from_alphabet("abcXYZ019._", 56, 63),
        1 => prop::sample::select(vec!["ffxivboot.exe", "ffxivlauncher64.exe", "é日本.dat", "a", "x.y.z.w"]).prop_map(|s| s.to_string()),
        // every byte a file name may hold on this host but '/' and NUL: backslash, colon, quotes, wildcards, a leading dot or blank
        1 => gen::from_alphabet("ab1.\\:*?\"'<>|;&$#%!~+=,()[]{}@^` -_", 1, 20),
    ]
    .prop_map(|mut s| {
        while s.len() > 63 {
            s.pop();
        }
        if s == "." || s == ".." || s.trim_matches('.').is_empty() {
            s = format!("f{}", s.len());
        }
        s
    })
    .boxed()
}

fn fiin_strategy(ctx: &Ctx) -> BoxedStrategy<FiinCase> {
    let max = ctx.tier.pick(300_000u32, 2 * 1024 * 1024u32);
    let len = prop_oneof![
        3 => (0u32..40, prop::sample::select(vec![0u32, 1, 55, 56, 57, 63, 64, 65, 119, 120])).prop_map(|(b, r)| b * 64 + r),
        3 => 0u32..5000,
        1 => 0u32..=max,
    ];
    vec((file_name(), len, any::<u64>(), 0u8..3), 0..=6)
        .prop_map(|mut files| {
            // a quarter of the files that lie in a folder of their own take the base name of the first file: a table
            // lists one record per path given, whatever the files are called
            if let Some(first) = files.first().map(|f| f.0.clone()) {
                for f in files.iter_mut().skip(1) {
                    if f.3 > 0 && (f.2 >> 8) % 4 == 0 {
                        f.0 = first.clone();
                    }
                }
            }
            let mut seen = std::collections::HashSet::new();
            files.retain(|f| f.3 > 0 || seen.insert(f.0.clone()));
            FiinCase { files }
        })
        .boxed()
}

/// File lengths around every whole multiple of a power of two from 1 KiB up: where an implementation that hashes
/// in pieces changes from one piece to the next.
fn fiin_boundary_cases(ctx: &Ctx) -> Vec<FiinCase> {
    let max: u32 = ctx.tier.pick(4, 16) * 1024 * 1024;
    let mut lens = std::collections::BTreeSet::new();
    for p in 10..=22u32 {
        for k in 1..=8u32 {
            let base = k << p;
            if base <= max {
                for d in [-1i64, 0, 1] {
                    lens.insert((base as i64 + d) as u32);
                }
            }
        }
    }
    lens.into_iter().map(|l| FiinCase { files: vec![(format!("b{}.bin", l), l, l as u64, 0)] }).collect()
}

fn prop_fiin(c: &FiinCase, ctx: &Ctx) -> PResult {
    let dir = TmpDir::new("c10");
    let mut paths = vec![];
    let mut contents = vec![];
    for (i, (name, len, seed, depth)) in c.files.iter().enumerate() {
        let mut d = dir.path.clone();
        for k in 0..*depth {
            d = d.join(format!("sub{}_{}", i, k));
        }
        std::fs::create_dir_all(&d).unwrap();
        let p = d.join(name);
        let data = file_content(*len, *seed);
        std::fs::write(&p, &data).map_err(|e| Failure { slug: "harness-io".into(), msg: format!("{}: {}", p.display(), e) })?;
        paths.push(p.to_str().unwrap().to_string());
        contents.push(data);
    }
    let refs: Vec<&str> = paths.iter().map(|s| s.as_str()).collect();
    let fi = match guard("FileInfo::new", || FileInfo::new(&refs))? {
        Some(f) => f,
        None => return fail("fiin-new-none", "FileInfo::new returned None"),
    };
    ensure_eq!(fi.entries.len(), c.files.len(), "fiin-entry-count", "number of entries");
    for (i, e) in fi.entries.iter().enumerate() {
        ensure_eq!(&e.file_name, &c.files[i].0, "fiin-name", "entry {} base name", i);
        ensure_eq!(e.file_size as i64, contents[i].len() as i64, "fiin-size", "entry {} size", i);
        let d = sha1(&contents[i]);
        ensure!(e.sha1.len() >= 20 && e.sha1[..20] == d && e.sha1[20..].iter().all(|b| *b == 0), "fiin-digest", "entry {} digest {} vs SHA-1 {}", i, util::hex(&e.sha1), util::hex(&d));
    }
    // fixed-position reader over the written table
    let w = match guard("FileInfo::write_to_buffer", || fi.write_to_buffer())? {
        Some(w) => w,
        None => return fail("fiin-write-none", "write_to_buffer returned None"),
    };
    ensure_eq!(w.len(), 1024 + 96 * c.files.len(), "fiin-length", "written table length");
    ensure!(&w[0..8] == b"FileInfo" && w[8..24].iter().all(|b| *b == 0), "fiin-magic", "magic / padding");
    ensure_eq!(i32::from_le_bytes(w[24..28].try_into().unwrap()), 1024, "fiin-header-1024", "header word @24");
    ensure_eq!(i32::from_le_bytes(w[28..32].try_into().unwrap()) as usize, 96 * c.files.len(), "fiin-table-size", "table size @28");
    ensure!(w[32..1024].iter().all(|b| *b == 0), "fiin-header-padding", "header padding");
    for (i, (name, _, _, _)) in c.files.iter().enumerate() {
        let r = &w[1024 + 96 * i..1024 + 96 * (i + 1)];
        ensure_eq!(i32::from_le_bytes(r[0..4].try_into().unwrap()) as usize, contents[i].len(), "fiin-record-size", "record {} size @0", i);
        ensure!(r[4..8].iter().all(|b| *b == 0), "fiin-record-padding", "record {} padding @4", i);
        let mut nm = [0u8; 64];
        nm[..name.len()].copy_from_slice(name.as_bytes());
        ensure!(r[8..72] == nm, "fiin-record-name", "record {} name field @8: {}", i, util::hex_trunc(&r[8..72], 64));
        ensure!(r[72..92] == sha1(&contents[i]) && r[92..96] == [0; 4], "fiin-record-digest", "record {} digest @72", i);
    }
    // parse back
    let back = match guard("FileInfo::from_existing", || FileInfo::from_existing(&w))? {
        Some(b) => b,
        None => return fail("fiin-reparse-none", "from_existing returned None for the written table"),
    };
    ensure_eq!(back.entries.len(), fi.entries.len(), "fiin-reparse-count", "entries after re-parse");
    for (a, b) in back.entries.iter().zip(&fi.entries) {
        ensure!(a.file_name == b.file_name && a.file_size == b.file_size && a.sha1.get(..20).is_some() && a.sha1.get(..20) == b.sha1.get(..20), "fiin-reparse-differs", "entry {:?} re-parsed as {:?}", b, a);
    }
    ctx.classf(format!("fiin:files:{}", c.files.len()));
    for (n, l, _, _) in &c.files {
        ctx.classf(format!("fiin:len%64={}", match l % 64 { 55 => "55", 56 => "56", 63 => "63", 0 => "0", _ => "other" }));
        if n.len() >= 56 {
            ctx.class("fiin:name>=56");
        }
    }
    if c.files.len() >= 2 && c.files.iter().any(|f| f.1 >= 64) {
        ctx.nontrivial(&w);
        if ctx.want_sample() {
            ctx.sample(json!({"kind": "fiin", "files": c.files.iter().map(|f| (f.0.clone(), f.1)).collect::<Vec<_>>(), "table_len": w.len(), "first_record": util::hex_trunc(&w[1024..], 96)}));
        }
    }
    Ok(())
}

#[derive(Clone, Debug, Serialize, Deserialize)]
pub struct EntryM {
    pub url: String,
    pub version: String,
    pub hash_block_size: i64,
    pub length: i64,
    pub size_on_disk: i64,
    pub hashes: Vec<String>,
    pub unknown_a: i32,
    pub unknown_b: i32,
}

#[derive(Clone, Debug, Serialize, Deserialize)]
pub struct ListCase {
    pub game: bool,
    pub id: String,
    pub content_location: String,
    pub entries: Vec<EntryM>,
}

fn list_strategy(_: &Ctx) -> BoxedStrategy<ListCase> {
    let wire = |max: usize| gen::from_alphabet("abcdefghijklmnopqrstuvwxyzABCDEFGHIJKLMNOPQRSTUVWXYZ0123456789:/._-?=&% ", 0, max);
    // hashes are text on the wire: lower-case hex as retail sends it, upper-case and mixed-case hex, short ones
    let hash = prop_oneof![8 => gen::from_alphabet("0123456789abcdef", 40, 40), 2 => gen::from_alphabet("0123456789abcdef", 0, 8), 1 => gen::from_alphabet("0123456789ABCDEF", 40, 40), 1 => gen::from_alphabet("0123456789abcdefABCDEF", 40, 40)];
    let size = prop_oneof![3 => 0i64..100_000_000_000, 1 => 0i64..=i64::MAX, 1 => prop::sample::select(vec![0i64, 1, i64::MAX, 1 << 32, (1 << 53) + 1])];
    // one URL in sixty is long (around 4 KiB / 8 KiB / 64 KiB); one hash list in forty has 60..200 hashes
    // a third of the URLs have the shape of the real ones: host, boot / game, an expansion segment or none, a hash, a file name
    let real_url = (any::<bool>(), 0u8..6, gen::from_alphabet("0123456789abcdef", 8, 8), gen::from_alphabet("0123456789.", 5, 20), any::<bool>())
        .prop_map(|(game, exp, hash, ver, h)| format!("http://patch-dl.ffxiv.com/{}/{}{}/{}{}.patch", if game { "game" } else { "boot" }, if exp == 0 { String::new() } else { format!("ex{}/", exp) }, hash, if h { "H" } else { "D" }, ver));
    let entry = (prop_oneof![40 => wire(60), 20 => real_url, 1 => gen::long_ascii()], prop_oneof![3 => Just("2023.09.15.0000.0000".to_string()), 1 => wire(24)], size.clone(), size.clone(), size, prop_oneof![40 => vec(hash.clone(), 1..=6), 1 => vec(hash, 60..=200)], any::<i32>(), any::<i32>())
        .prop_map(|(url, version, hash_block_size, length, size_on_disk, hashes, unknown_a, unknown_b)| EntryM { url, version, hash_block_size, length, size_on_disk, hashes, unknown_a, unknown_b });
    (any::<bool>(), gen::from_alphabet("0123456789ABCDEF_", 0, 40), wire(60), prop_oneof![60 => vec(entry.clone(), 0..=8), 1 => vec(entry, 40..=120)])
        .prop_map(|(game, id, content_location, mut entries)| {
            // sum of lengths stays below 2^63 (construction: later entries are reduced)
            let mut total: i128 = 0;
            for e in entries.iter_mut() {
                if total + e.length as i128 > i64::MAX as i128 {
                    e.length = (i64::MAX as i128 - total).max(0) as i64 / 2;
                }
                total += e.length as i128;
            }
            ListCase { game, id, content_location, entries }
        })
        .boxed()
}

fn render(c: &ListCase) -> String {
    let mut s = String::new();
    s.push_str(&format!("--{}\r\nContent-Type: application/octet-stream\r\nContent-Location: {}\r\n", c.id, c.content_location));
    let total: i128 = c.entries.iter().map(|e| e.length as i128).sum();
    s.push_str(&format!("X-Patch-Length: {}\r\n\r\n", total));
    for e in &c.entries {
        s.push_str(&format!("{}\t{}\t{}\t{}\t{}\t", e.length, e.size_on_disk, e.unknown_a, e.unknown_b, e.version));
        if c.game {
            s.push_str(&format!("sha1\t{}\t{}\t", e.hash_block_size, e.hashes.join(",")));
        }
        s.push_str(&format!("{}\r\n", e.url));
    }
    s.push_str(&format!("--{}--\r\n", c.id));
    s
}

fn kind(game: bool) -> PatchListType {
    if game {
        PatchListType::Game
    } else {
        PatchListType::Boot
    }
}

fn prop_list(c: &ListCase, ctx: &Ctx) -> PResult {
    let list = PatchList {
        id: c.id.clone(),
        patch_length: 0,
        content_location: c.content_location.clone(),
        requested_version: String::new(),
        patches: c.entries.iter().map(|e| PatchEntry { url: e.url.clone(), version: e.version.clone(), hash_block_size: e.hash_block_size, length: e.length, size_on_disk: e.size_on_disk, hashes: e.hashes.clone(), unknown_a: e.unknown_a, unknown_b: e.unknown_b }).collect(),
    };
    let text = guard("PatchList::to_string", || list.to_string(kind(c.game)))?;
    let want = render(c);
    ensure_eq!(&text, &want, "patchlist-wire-text", "rendered wire text");
    let back = guard("PatchList::from_string", || PatchList::from_string(kind(c.game), &text))?;
    ensure_eq!(back.patches.len(), c.entries.len(), "patchlist-entry-count", "number of patches after parsing the rendered text");
    for (i, (p, e)) in back.patches.iter().zip(&c.entries).enumerate() {
        ensure_eq!(p.length, e.length, "patchlist-length", "patch {} length", i);
        ensure_eq!(p.size_on_disk, e.size_on_disk, "patchlist-size-on-disk", "patch {} size on disk", i);
        ensure_eq!(&p.version, &e.version, "patchlist-version", "patch {} version", i);
        ensure_eq!(&p.url, &e.url, "patchlist-url", "patch {} url", i);
        if c.game {
            ensure_eq!(p.hash_block_size, e.hash_block_size, "patchlist-hash-block-size", "patch {} hash block size", i);
            ensure_eq!(&p.hashes, &e.hashes, "patchlist-hashes", "patch {} hashes", i);
        }
    }
    let total: i128 = c.entries.iter().map(|e| e.length as i128).sum();
    if back.patch_length as i128 != total {
        return fail(if back.patch_length == 0 { "patchlist-total-length/always-zero" } else { "patchlist-total-length" }, format!("total patch length after parsing = {}, sum of lengths = {}", back.patch_length, total));
    }
    ctx.class(if c.game { "list:game" } else { "list:boot" });
    ctx.classf(format!("list:entries:{}", match c.entries.len() { 0 => "0", 1 => "1", _ => ">=2" }));
    if c.entries.iter().any(|e| e.length > (1 << 53)) {
        ctx.class("list:length>2^53");
    }
    if c.entries.len() >= 2 && (!c.game || c.entries.iter().any(|e| e.hashes.len() >= 2)) {
        ctx.nontrivial(text.as_bytes());
        if ctx.want_sample() && c.entries.len() <= 3 {
            ctx.sample(json!({"kind": if c.game { "game patch list" } else { "boot patch list" }, "text": text}));
        }
    }
    Ok(())
}

/// The repository's checked-in table anchors the fixed-position reader.
fn pre(ctx: &Ctx) {
    if let Ok(b) = std::fs::read(util::repo_root().join("resources/tests/test.fiin")) {
        ctx.eval();
        let ok = b.len() >= 1024 + 96 && &b[0..8] == b"FileInfo" && i32::from_le_bytes(b[24..28].try_into().unwrap()) == 1024 && i32::from_le_bytes(b[28..32].try_into().unwrap()) as usize == b.len() - 1024;
        if ok {
            ctx.class("fixture:test.fiin-layout-validated");
        } else {
            ctx.infra("fixed-position FIIN reader disagrees with the checked-in test.fiin");
        }
    }
}

pub fn property() -> Property {
    Property {
        id: "C10",
        rule: "[rounds 8-9: file names over all legal bytes (backslash, quotes, wildcards, brackets); a third of the URLs real-shaped with /exN/ segments; long URLs, hash lists of 60..200, lists of 40..120 entries] file info: 0..6 files with names of 1..63 bytes (ASCII and UTF-8; distinct within a folder, a quarter of the files in folders of their own share the first file's base name), contents of length 0..300 KB (2 MiB thorough) forced onto the SHA-1 padding boundaries, plus single files of k x 2^p - 1, + 0, + 1 bytes for p = 10..22, k = 1..8 up to 4 MiB (16 MiB thorough), handed to FileInfo::new as paths 0..2 directories deep; entries = (base name, exact size, own SHA-1); write_to_buffer decoded by a fixed-position reader (magic @0, 1024 @24, table size @28, records @1024+96i: size @0, name @8 NUL-padded to 64, digest @72 padded to 24); from_existing(written) = same entries. patch lists: boot and game lists of 0..8 entries, lengths / sizes up to 2^63-1 with sum < 2^63, versions, 1..6 hashes, URLs free of TAB / CR LF / ','; to_string equals the harness's renderer of the documented layout; from_string(to_string(x)) preserves length, size on disk, version, URL (game: hash block size, hashes) and patch_length = sum of lengths. Non-trivial: >= 2 files one of which is >= 64 bytes; >= 2 entries (game: one with >= 2 hashes). Distinct by hash of the table / text.",
        assumptions: &["names <= 63 bytes; URLs, versions, ids free of the separators", "unknown_a / unknown_b of patch entries are not part of the statement (the parser drops them)"],
        pre: Some(pre),
        post: None,
        parts: vec![
            Box::new(Part { name: "fiin", driver: Driver::Gen(fiin_strategy, 16_000, 128_000), prop: prop_fiin, exhaustive: false }),
            Box::new(Part { name: "fiin-piece-boundaries", driver: Driver::Enum(fiin_boundary_cases), prop: prop_fiin, exhaustive: false }),
            Box::new(Part { name: "patchlist", driver: Driver::Gen(list_strategy, 400_000, 3_200_000), prop: prop_list, exhaustive: false }),
        ],
    }
}

/// (fiin files, boot lists, game lists)
pub fn seed_files(ctx: &Ctx, n: usize) -> (Vec<(String, Vec<u8>)>, Vec<(String, Vec<u8>)>, Vec<(String, Vec<u8>)>) {
    let mut fiins = vec![];
    if let Ok(b) = std::fs::read(util::repo_root().join("resources/tests/test.fiin")) {
        fiins.push(("fixture".to_string(), b));
    }
    // own encoder of the fixed-position layout (DESIGN A.9)
    for k in 0..n {
        let mut w = crate::build::W::new();
        w.bytes(b"FileInfo").zeros(16).i32(1024).i32(96 * (k as i32 + 1)).zeros(992);
        for i in 0..=k {
            let name = format!("file{}-{}.dat", k, i);
            w.i32(1000 * i as i32 + k as i32).zeros(4);
            let mut nb = name.into_bytes();
            nb.resize(64, 0);
            w.bytes(&nb);
            w.bytes(&crate::oracle::sha1::sha1(&[i as u8; 7])).zeros(4);
        }
        fiins.push((format!("gen{}", k), w.b.clone()));
    }
    let ls = list_strategy(ctx);
    let mut boots = vec![];
    let mut games = vec![];
    let mut k = 0u64;
    while (boots.len() < n || games.len() < n) && k < 400 {
        let c = draw_fixed(&ls, 0xC10_5EED + k);
        k += 1;
        if c.entries.is_empty() {
            continue;
        }
        let t = render(&c).into_bytes();
        if c.game && games.len() < n {
            games.push((format!("gen{}", games.len()), t));
        } else if !c.game && boots.len() < n {
            boots.push((format!("gen{}", boots.len()), t));
        }
    }
    (fiins, boots, games)
}

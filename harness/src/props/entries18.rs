//! Worker-side entry points for C18 (game assets and archives).
use crate::engine::worker::{EntryFn, Env};
use crate::props::entries::write_tree;
use std::os::unix::ffi::OsStrExt;
use std::path::{Path, PathBuf};

pub fn lookup(name: &str) -> Option<EntryFn> {
    Some(match name {
        "mdl" => e_mdl,
        "mtrl" => e_mtrl,
        "shpk" => e_shpk,
        "tex" => e_tex,
        "exh" => e_exh,
        "exd" => e_exd,
        "sklb" => e_sklb,
        "pbd" => e_pbd,
        "cmp" => e_cmp,
        "tera" => e_tera,
        "stm" => e_stm,
        "dic" => e_dic,
        "lgb" => e_lgb,
        "avfx" => e_avfx,
        "uld" => e_uld,
        "sgb" => e_sgb,
        "scd" => e_scd,
        "hwc" => e_hwc,
        "iwc" => e_iwc,
        "tmb" => e_tmb,
        "skp" => e_skp,
        "schd" => e_schd,
        "phyb" => e_phyb,
        "pap" => e_pap,
        "sqdb" => e_sqdb,
        "index" => e_index,
        "dat" => e_dat,
        "gamedata" => e_gamedata,
        _ => return None,
    })
}

fn arg<'a>(a: &'a [Vec<u8>], i: usize) -> &'a [u8] {
    a.get(i).map(|v| v.as_slice()).unwrap_or(&[])
}

macro_rules! simple {
    ($name:ident, $ty:path) => {
        fn $name(a: &[Vec<u8>], _: &mut Env) -> Result<bool, String> {
            Ok(<$ty>::from_existing(arg(a, 0)).is_some())
        }
    };
}

simple!(e_mdl, physis::model::MDL);
simple!(e_mtrl, physis::mtrl::Material);
simple!(e_tex, physis::tex::Texture);
simple!(e_exh, physis::exh::EXH);
simple!(e_sklb, physis::skeleton::Skeleton);
simple!(e_cmp, physis::cmp::CMP);
simple!(e_stm, physis::stm::StainingTemplate);
simple!(e_dic, physis::dic::Dictionary);
simple!(e_lgb, physis::layer::LayerGroup);
simple!(e_avfx, physis::avfx::Avfx);
simple!(e_uld, physis::uld::Uld);
simple!(e_sgb, physis::sgb::Sgb);
simple!(e_scd, physis::scd::Scd);
simple!(e_hwc, physis::hwc::Hwc);
simple!(e_iwc, physis::iwc::Iwc);
simple!(e_tmb, physis::tmb::Tmb);
simple!(e_skp, physis::skp::Skp);
simple!(e_schd, physis::schd::Schd);
simple!(e_phyb, physis::phyb::Phyb);
simple!(e_pap, physis::pap::Pap);
simple!(e_sqdb, physis::sqpack::SqPackDatabase);

fn e_tera(a: &[Vec<u8>], _: &mut Env) -> Result<bool, String> {
    match physis::tera::Terrain::from_existing(arg(a, 0)) {
        Some(t) => {
            let _ = t.write_to_buffer();
            Ok(true)
        }
        None => Ok(false),
    }
}

fn e_shpk(a: &[Vec<u8>], _: &mut Env) -> Result<bool, String> {
    match physis::shpk::ShaderPackage::from_existing(arg(a, 0)) {
        Some(s) => {
            // every selector the package lists, plus absent ones
            let mut sels: Vec<u32> = s.nodes.iter().map(|n| n.selector).take(64).collect();
            sels.extend_from_slice(&[0, 1, u32::MAX, 0x8000_0000]);
            // arg1: selectors known to the caller (the aliases of a package are not visible on the parsed value)
            sels.extend(arg(a, 1).chunks_exact(4).take(256).map(|c| u32::from_le_bytes([c[0], c[1], c[2], c[3]])));
            for sel in sels {
                let _ = s.find_node(sel);
            }
            Ok(true)
        }
        None => Ok(false),
    }
}

/// arg0: EXH bytes, arg1: EXD bytes. Rows are read for every id the page's index lists (decoded here from the
/// bytes), every id of the header's pages (capped) and some absent ones.
fn e_exd(a: &[Vec<u8>], _: &mut Env) -> Result<bool, String> {
    let exh = match physis::exh::EXH::from_existing(arg(a, 0)) {
        Some(e) => e,
        None => return Ok(false),
    };
    let b = arg(a, 1);
    let exd = match physis::exd::EXD::from_existing(b) {
        Some(e) => e,
        None => return Ok(false),
    };
    let mut ids: Vec<u32> = vec![0, 1, 2, u32::MAX, 0x7FFF_FFFF];
    if b.len() >= 32 {
        let index_size = u32::from_be_bytes([b[8], b[9], b[10], b[11]]) as usize;
        let n = (index_size / 8).min(256);
        for i in 0..n {
            let at = 32 + 8 * i;
            if at + 4 <= b.len() {
                ids.push(u32::from_be_bytes([b[at], b[at + 1], b[at + 2], b[at + 3]]));
            }
        }
    }
    for p in exh.pages.iter().take(4) {
        for k in 0..p.row_count.min(32) {
            ids.push(p.start_id.wrapping_add(k));
        }
    }
    ids.sort();
    ids.dedup();
    let mut any = false;
    for id in ids {
        if exd.read_row(&exh, id).is_some() {
            any = true;
        }
    }
    let _ = any;
    Ok(true)
}

/// deform matrices for all ordered pairs of the body ids found in the item table (decoded here), plus absent ids
fn e_pbd(a: &[Vec<u8>], _: &mut Env) -> Result<bool, String> {
    let b = arg(a, 0);
    let pbd = match physis::pbd::PreBoneDeformer::from_existing(b) {
        Some(p) => p,
        None => return Ok(false),
    };
    let mut ids: Vec<u16> = vec![0, 101, 0xFFFF];
    if b.len() >= 4 {
        let n = (i32::from_le_bytes([b[0], b[1], b[2], b[3]]).max(0) as usize).min(24);
        for i in 0..n {
            let at = 4 + 12 * i;
            if at + 2 <= b.len() {
                ids.push(u16::from_le_bytes([b[at], b[at + 1]]));
            }
        }
    }
    ids.sort();
    ids.dedup();
    for f in &ids {
        for t in &ids {
            let _ = pbd.get_deform_matrices(*f, *t);
        }
    }
    Ok(true)
}

fn queries(a: &[u8]) -> Vec<String> {
    String::from_utf8_lossy(a).split('\n').filter(|s| !s.is_empty()).map(|s| s.to_string()).collect()
}

/// arg0: index file bytes; arg1: newline-separated paths; arg2: fault (1: path missing, 2: path is a directory)
fn e_index(a: &[Vec<u8>], env: &mut Env) -> Result<bool, String> {
    let dir = env.fresh_dir("ix")?;
    let p = dir.join("0a0000.win32.index");
    match arg(a, 2).first().copied().unwrap_or(0) {
        1 => {}
        2 => std::fs::create_dir_all(&p).map_err(|e| e.to_string())?,
        _ => std::fs::write(&p, arg(a, 0)).map_err(|e| e.to_string())?,
    }
    let r = physis::sqpack::SqPackIndex::from_existing(&p.to_string_lossy());
    let ok = match r {
        Some(ix) => {
            for q in queries(arg(a, 1)) {
                let _ = ix.exists(&q);
                let _ = ix.find_entry(&q);
            }
            true
        }
        None => false,
    };
    let _ = std::fs::remove_dir_all(&dir);
    Ok(ok)
}

/// arg0: dat file bytes; arg1: u64 LE offsets to read from; arg2: fault (1: path missing, 2: path is a directory)
fn e_dat(a: &[Vec<u8>], env: &mut Env) -> Result<bool, String> {
    let dir = env.fresh_dir("dat")?;
    let p = dir.join("0a0000.win32.dat0");
    match arg(a, 2).first().copied().unwrap_or(0) {
        1 => {}
        2 => std::fs::create_dir_all(&p).map_err(|e| e.to_string())?,
        _ => std::fs::write(&p, arg(a, 0)).map_err(|e| e.to_string())?,
    }
    let r = physis::sqpack::SqPackData::from_existing(&p.to_string_lossy());
    let ok = match r {
        Some(mut d) => {
            let mut any = false;
            for c in arg(a, 1).chunks_exact(8) {
                let off = u64::from_le_bytes(c.try_into().unwrap());
                if d.read_from_offset(off).is_some() {
                    any = true;
                }
            }
            any
        }
        None => false,
    };
    let _ = std::fs::remove_dir_all(&dir);
    Ok(ok)
}

/// One line per fault: `T <path> <n>` truncate, `R <path>` remove file, `X <path>` remove directory tree,
/// `S <path> <offset> <hex>` overwrite bytes, `D <path>` create directory, `W <path> <hex>` write file,
/// `d <hex path>` create a directory whose name is given as hex bytes (non-UTF-8 names)
fn apply_faults(root: &Path, recipe: &[u8]) -> Result<(), String> {
    for line in String::from_utf8_lossy(recipe).split('\n') {
        let parts: Vec<&str> = line.split(' ').collect();
        if parts.len() < 2 {
            continue;
        }
        let p = root.join(parts[1]);
        match parts[0] {
            "T" => {
                let n: u64 = parts.get(2).and_then(|x| x.parse().ok()).unwrap_or(0);
                if let Ok(f) = std::fs::OpenOptions::new().write(true).open(&p) {
                    let _ = f.set_len(n);
                }
            }
            "R" => {
                let _ = std::fs::remove_file(&p);
            }
            "X" => {
                let _ = std::fs::remove_dir_all(&p);
            }
            "S" => {
                let off: u64 = parts.get(2).and_then(|x| x.parse().ok()).unwrap_or(0);
                let bytes = crate::engine::util::unhex(parts.get(3).copied().unwrap_or("")).unwrap_or_default();
                use std::io::{Seek, SeekFrom, Write};
                if let Ok(mut f) = std::fs::OpenOptions::new().write(true).open(&p) {
                    let _ = f.seek(SeekFrom::Start(off));
                    let _ = f.write_all(&bytes);
                }
            }
            "D" => {
                let _ = std::fs::create_dir_all(&p);
            }
            "W" => {
                if let Some(parent) = p.parent() {
                    let _ = std::fs::create_dir_all(parent);
                }
                let bytes = crate::engine::util::unhex(parts.get(2).copied().unwrap_or("")).unwrap_or_default();
                let _ = std::fs::write(&p, bytes);
            }
            "d" => {
                let bytes = crate::engine::util::unhex(parts[1]).unwrap_or_default();
                let mut q = PathBuf::from(root);
                for comp in bytes.split(|b| *b == b'/') {
                    q.push(std::ffi::OsStr::from_bytes(comp));
                }
                let _ = std::fs::create_dir_all(&q);
            }
            _ => return Err(format!("unknown fault op {}", parts[0])),
        }
    }
    Ok(())
}

/// arg0: packed installation tree (rooted at the directory that contains `game/`); arg1: newline-separated
/// queries; arg2: faults applied before the installation is opened; arg3: faults applied after it was opened and
/// queried once (so index files are cached and dat files have been read); arg4: mode (1: game directory missing,
/// 2: game directory is a regular file)
fn e_gamedata(a: &[Vec<u8>], env: &mut Env) -> Result<bool, String> {
    use physis::common::Platform;
    let dir = env.fresh_dir("gd")?;
    let game = dir.join("game");
    match arg(a, 4).first().copied().unwrap_or(0) {
        1 => {}
        2 => std::fs::write(&game, b"x").map_err(|e| e.to_string())?,
        _ => {
            write_tree(&dir, arg(a, 0))?;
            apply_faults(&dir, arg(a, 2))?;
        }
    }
    let qs = queries(arg(a, 1));
    let r = physis::gamedata::GameData::from_existing(Platform::Win32, &game.to_string_lossy());
    let ok = match r {
        Some(mut g) => {
            let mut round = |g: &mut physis::gamedata::GameData| {
                for q in &qs {
                    let _ = g.exists(q);
                    let _ = g.find_offset(q);
                    let _ = g.extract(q);
                }
            };
            round(&mut g);
            if !arg(a, 3).is_empty() {
                apply_faults(&dir, arg(a, 3))?;
                round(&mut g);
            }
            let _ = g.get_all_sheet_names();
            true
        }
        None => false,
    };
    let _ = std::fs::remove_dir_all(&dir);
    Ok(ok)
}

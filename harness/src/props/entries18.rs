//! Worker-side entry points for C18 (game assets and archives).
use crate::engine::worker::EntryFn;

pub fn lookup(_name: &str) -> Option<EntryFn> {
    None
}

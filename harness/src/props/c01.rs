//! C01 — archive lookup finds every stored game path, and only stored paths.
use crate::build::deflate::Mode;
use crate::build::sqpack::{self, BlockSpec, IndexRecord, Install, CATEGORIES};
use crate::engine::panics::guard;
use crate::engine::*;
use crate::oracle::crc::jamcrc_lower;
use crate::{ensure_eq, gen};
use proptest::collection::vec;
use proptest::prelude::*;
use serde::{Deserialize, Serialize};
use serde_json::json;
use std::collections::{BTreeMap, HashMap, HashSet};

#[derive(Clone, Debug, Serialize, Deserialize)]
pub struct FileSpec {
    /// path after `category/[exN/]`
    pub tail: String,
    pub dat: u8,
    pub slot: u16,
    /// offset is additionally shifted by far * 4 GiB (sparse file)
    pub far: u8,
    /// base-repository file stored under an `exK/` folder of an expansion that is NOT installed (0 = no)
    pub fallback_exp: u8,
    /// in a chunk that has both index kinds: 0 listed in both, 1 only in the index, 2 only in the index2
    #[serde(default)]
    pub only: u8,
    /// the entry word carries the synonym flag (bit 0)
    #[serde(default)]
    pub synonym: bool,
    /// != 0: the entry's hashes are those of the path under ANOTHER category token (category + foreign mod 15): an
    /// index file lists hashes, not names, so nothing keeps a hash of a path it is not responsible for out of it.
    /// Such a path resolves to the other category's index files and is absent unless one of those lists it.
    #[serde(default)]
    pub foreign: u8,
}

#[derive(Clone, Debug, Serialize, Deserialize)]
pub struct Chunk {
    pub exp: u8,
    pub cat: u8,
    pub chunk: u8,
    /// 0 index only, 1 index2 only, 2 both
    pub kind: u8,
    pub sorted: bool,
    pub files: Vec<FileSpec>,
}

#[derive(Clone, Debug, Serialize, Deserialize)]
pub struct Query {
    /// 0 exists, 1 find_offset, 2 extract
    pub op: u8,
    /// 0 stored, 1 stored with case flips, 2 absent name in stored folder, 3 stored name in absent folder,
    /// 4 other category, 5 other repository, 6 unknown category, 7 folder of one stored file + name of another
    pub kind: u8,
    pub pick: u16,
    pub flips: Vec<u16>,
    pub salt: String,
}

#[derive(Clone, Debug, Serialize, Deserialize)]
pub struct Case {
    pub platform: u8,
    /// installed expansions (1..=9), in directory creation order
    pub exps: Vec<u8>,
    pub chunks: Vec<Chunk>,
    pub queries: Vec<Query>,
}

const COMP_ALPHA: &str = "abcdefghijklmnopqrstuvwxyz0123456789_-";

fn component() -> BoxedStrategy<String> {
    gen::from_alphabet(COMP_ALPHA, 1, 8)
}

/// a component of 50..120 characters: a few of them make a path longer than any fixed-size path buffer (260 bytes and the like)
fn long_component() -> BoxedStrategy<String> {
    gen::from_alphabet(COMP_ALPHA, 50, 120)
}

fn tail() -> BoxedStrategy<String> {
    prop_oneof![24 => short_tail(), 1 => (vec(long_component(), 1..5), short_tail()).prop_map(|(dirs, t)| format!("{}/{}", dirs.join("/"), t))].boxed()
}

fn short_tail() -> BoxedStrategy<String> {
    // one file name in three comes from a small pool, so that several folders of an archive hold a file of the same name (and
    // one folder name in five likewise, so that several files share a folder)
    let dir = prop_oneof![4 => component(), 1 => prop::sample::select(vec!["level", "common", "twn", "0001"]).prop_map(|s| s.to_string())];
    let name = prop_oneof![2 => component(), 1 => prop::sample::select(vec!["bg", "planmap", "0001", "list"]).prop_map(|s| s.to_string())];
    (vec(dir, 0..4), name, prop::sample::select(vec!["tex", "mdl", "exh", "exd", "dat", "x", "sklb"])).prop_map(|(dirs, name, ext)| {
        let mut s = String::new();
        for d in dirs {
            s.push_str(&d);
            s.push('/');
        }
        s.push_str(&name);
        s.push('.');
        s.push_str(ext);
        s
    })
    .boxed()
}

fn file_spec() -> BoxedStrategy<FileSpec> {
    (tail(), 0u8..8, prop_oneof![4 => 0u16..40, 1 => 0u16..2000], prop_oneof![12 => Just(0u8), 1 => 1u8..8], prop_oneof![5 => Just(0u8), 1 => 1u8..10], prop_oneof![6 => Just(0u8), 1 => Just(1u8), 1 => Just(2u8)], prop::bool::weighted(0.06), prop_oneof![11 => Just(0u8), 1 => 1u8..15])
        .prop_map(|(tail, dat, slot, far, fallback_exp, only, synonym, foreign)| FileSpec { tail, dat, slot, far, fallback_exp, only, synonym, foreign })
        .boxed()
}

fn chunk_spec() -> BoxedStrategy<Chunk> {
    (prop_oneof![2 => Just(0u16), 3 => any::<u16>()], 0u8..15, prop_oneof![2 => Just(0u8), 2 => 0u8..10], 0u8..3, prop::bool::weighted(0.8), prop_oneof![3 => vec(file_spec(), 1..6), 1 => vec(file_spec(), 1..40)])
        .prop_map(|(e, cat, chunk, kind, sorted, files)| Chunk { exp: (e % 10) as u8, cat, chunk, kind, sorted, files })
        .boxed()
}

fn query() -> BoxedStrategy<Query> {
    (0u8..3, prop_oneof![6 => Just(0u8), 6 => Just(1u8), 2 => 2u8..7, 2 => Just(7u8), 1 => Just(8u8)], any::<u16>(), vec(any::<u16>(), 1..6), component()).prop_map(|(op, kind, pick, flips, salt)| Query { op, kind, pick, flips, salt }).boxed()
}

fn strategy(_: &Ctx) -> BoxedStrategy<Case> {
    (0u8..5, prop::sample::subsequence((1u8..=9).collect::<Vec<_>>(), 0..=9).prop_shuffle(), vec(chunk_spec(), 1..7), vec(query(), 1..40))
        .prop_map(|(platform, exps, chunks, queries)| Case { platform, exps, chunks, queries })
        .boxed()
}

/// One archive whose index files have more entries than fit a 1 MiB table (index: 65 536 entries, index2: 131 072): 140 000
/// files listed in both, queried all over the table.
fn large_index(_: &Ctx) -> Vec<Case> {
    let n = 140_000u32;
    let files: Vec<FileSpec> = (0..n).map(|i| FileSpec { tail: format!("l/{:03x}/f{:06}.dat", i / 512, i), dat: (i % 8) as u8, slot: (i / 8) as u16, far: 0, fallback_exp: 0, only: 0, synonym: false, foreign: 0 }).collect();
    let mut queries = vec![];
    for k in 0..64u32 {
        queries.push(Query { op: (k % 3) as u8, kind: (k % 2) as u8, pick: (k * 1040 + 7) as u16, flips: vec![k as u16 * 977, 3], salt: format!("s{}", k) });
    }
    for k in 0..8u32 {
        queries.push(Query { op: (k % 3) as u8, kind: if k % 2 == 0 { 2 } else { 8 }, pick: (k * 8000 + 11) as u16, flips: vec![k as u16, 5], salt: format!("a{}", k) });
    }
    [true, false].iter().map(|sorted| Case { platform: 0, exps: vec![], chunks: vec![Chunk { exp: 0, cat: 0, chunk: 0, kind: 2, sorted: *sorted, files: files.clone() }], queries: queries.clone() }).collect()
}

/// Covering sweep: one chunk per (category, expansion, chunk, platform) combination.
fn sweep(ctx: &Ctx) -> Vec<Case> {
    let mut out = vec![];
    let mut n = 0u32;
    for cat in 0..15u8 {
        for exp in 0..10u8 {
            for chunk in 0..10u8 {
                for platform in 0..5u8 {
                    n += 1;
                    // quick: a deterministic 1-in-8 slice that still covers every value of every coordinate
                    if ctx.quick() && (cat as u32 + exp as u32 * 3 + chunk as u32 * 5 + platform as u32 * 7 + ctx.seed as u32) % 8 != 0 {
                        continue;
                    }
                    let kind = (n % 3) as u8;
                    let files = vec![
                        FileSpec { tail: format!("d{}/f{}.dat", n % 7, n), dat: (n % 8) as u8, slot: (n % 5) as u16, far: 0, fallback_exp: 0, only: 0, synonym: false, foreign: 0 },
                        FileSpec { tail: format!("g{}.tex", n), dat: ((n / 8) % 8) as u8, slot: 7, far: 0, fallback_exp: 0, only: 0, synonym: false, foreign: 0 },
                        FileSpec { tail: format!("a/b/c/h{}.mdl", n), dat: 0, slot: 9, far: 0, fallback_exp: 0, only: 0, synonym: false, foreign: 0 },
                    ];
                    let q = |op, kind, pick| Query { op, kind, pick, flips: vec![n as u16, (n * 7) as u16, 0], salt: "zz".into() };
                    out.push(Case {
                        platform,
                        exps: if exp == 0 { vec![] } else { vec![exp] },
                        chunks: vec![Chunk { exp, cat, chunk, kind, sorted: true, files }],
                        queries: vec![q(2, 0, 0), q(0, 1, 30000), q(1, 1, 60000), q(0, 2, 0), q(2, 3, 30000), q(1, 4, 0)],
                    });
                }
            }
        }
    }
    out
}

#[derive(Clone, Debug)]
struct Stored {
    path: String,
    exp: u8,
    cat: u8,
    chunk: u8,
    dat: u8,
    offset: u64,
    kind: u8,
    content: Vec<u8>,
    /// position of the entry inside its index2 table is in the second half
    second_half: bool,
    /// 0 listed in every index file of its chunk, 1 only in the index, 2 only in the index2
    only: u8,
    synonym: bool,
}

struct Model {
    installed: HashSet<u8>,
    /// (exp, cat id) -> list of (chunk, has index1, has index2, index1 hashes, index2 hashes)
    idx1: HashMap<(u8, u8, u32, u32), usize>,
    idx2: HashMap<(u8, u8, u32), usize>,
    stored: Vec<Stored>,
}

impl Model {
    fn lookup(&self, path: &str) -> Option<&Stored> {
        let lower = path.to_ascii_lowercase();
        let mut comps = lower.split('/');
        let cat_tok = comps.next()?;
        let second = comps.next()?; // depth >= 2
        let cat = CATEGORIES.iter().find(|c| c.0 == cat_tok)?.1;
        let mut exp = 0u8;
        if second.len() == 3 && second.starts_with("ex") {
            if let Ok(n) = second[2..].parse::<u8>() {
                if self.installed.contains(&n) {
                    exp = n;
                }
            }
        }
        let p = lower.rfind('/')?;
        let folder = jamcrc_lower(lower[..p].as_bytes());
        let name = jamcrc_lower(lower[p + 1..].as_bytes());
        let full = jamcrc_lower(lower.as_bytes());
        if let Some(i) = self.idx1.get(&(exp, cat, folder, name)) {
            return Some(&self.stored[*i]);
        }
        if let Some(i) = self.idx2.get(&(exp, cat, full)) {
            return Some(&self.stored[*i]);
        }
        None
    }
}

fn materialise(c: &Case) -> (Install, Model) {
    let inst = Install::new("c01");
    let installed: HashSet<u8> = c.exps.iter().copied().collect();
    for (i, e) in c.exps.iter().enumerate() {
        // every fifth expansion folder lacks its version file: its archives are there all the same
        inst.add_repo_with(*e, (*e as usize + i + c.platform as usize) % 5 != 0);
    }
    let mut model = Model { installed: installed.clone(), idx1: HashMap::new(), idx2: HashMap::new(), stored: vec![] };
    let mut seen_chunks = HashSet::new();
    let mut seen_paths = HashSet::new();
    for ch in &c.chunks {
        // only installed repositories can hold chunks; remap monotonically
        let exp = if ch.exp == 0 || installed.contains(&ch.exp) { ch.exp } else if c.exps.is_empty() { 0 } else { c.exps[ch.exp as usize % c.exps.len()] };
        if !seen_chunks.insert((exp, ch.cat, ch.chunk)) {
            continue;
        }
        let (cat_name, cat_id) = CATEGORIES[ch.cat as usize];
        let stem = sqpack::file_stem(cat_id, exp, ch.chunk, c.platform as usize);
        let mut records: Vec<IndexRecord> = vec![];
        let mut dats: BTreeMap<u8, Vec<(u64, Vec<u8>)>> = BTreeMap::new();
        let mut used_slots = HashSet::new();
        let first_new = model.stored.len();
        for f in &ch.files {
            let mut tail = f.tail.clone();
            if exp == 0 {
                // a base path must not name an installed repository in its second component
                if tail.starts_with("ex") {
                    tail = format!("xe{}", &tail[2..]);
                }
                if f.fallback_exp != 0 && !installed.contains(&f.fallback_exp) {
                    tail = format!("ex{}/{}", f.fallback_exp, tail);
                } else if f.slot % 3 == 0 {
                    tail = format!("ffxiv/{}", tail);
                }
            }
            let named_cat = if f.foreign != 0 { CATEGORIES[(ch.cat as usize + f.foreign as usize % 15) % 15].0 } else { cat_name };
            let named_cat = if named_cat == cat_name && f.foreign != 0 { CATEGORIES[(ch.cat as usize + 1) % 15].0 } else { named_cat };
            let path = if exp == 0 { format!("{}/{}", named_cat, tail) } else { format!("{}/ex{}/{}", named_cat, exp, tail) };
            if !seen_paths.insert(path.clone()) {
                continue;
            }
            if !used_slots.insert((f.dat, f.slot, f.far)) {
                seen_paths.remove(&path);
                continue;
            }
            let offset = 2048 + f.slot as u64 * 512 + f.far as u64 * (1u64 << 32);
            // the content names its own location; a long path is named by its start and its hash (an entry has 512 bytes)
            let shown = if path.len() > 200 { format!("{}#{:016x}", &path[..200], util::fnv64(path.as_bytes())) } else { path.clone() };
            let content = format!("{}|{}|{}|{}|{}|{}", exp, cat_name, ch.chunk, f.dat, offset, shown).into_bytes();
            let mode = if f.slot % 2 == 0 { Mode::Raw } else { Mode::Dynamic };
            let entry = sqpack::standard_entry(&[BlockSpec { data: content.clone(), mode }], 0, &[]);
            assert!(entry.len() <= 512);
            dats.entry(f.dat).or_default().push((offset, entry));
            let only = if ch.kind == 2 { f.only } else { 0 };
            records.push(IndexRecord { path: path.clone(), dat_id: f.dat, offset, synonym: f.synonym });
            model.stored.push(Stored { path, exp, cat: cat_id, chunk: ch.chunk, dat: f.dat, offset, kind: ch.kind, content, second_half: false, only, synonym: f.synonym });
        }
        if records.is_empty() {
            seen_chunks.remove(&(exp, ch.cat, ch.chunk));
            continue;
        }
        // a chunk with both index kinds may list a file in only one of them: it is stored all the same
        let listed = |which: u8| -> Vec<usize> { (0..records.len()).filter(|i| model.stored[first_new + i].only == 0 || model.stored[first_new + i].only == which).collect() };
        if ch.kind == 0 || ch.kind == 2 {
            let recs: Vec<IndexRecord> = listed(1).into_iter().map(|i| records[i].clone()).collect();
            inst.write(exp, &format!("{}.index", stem), &sqpack::index_file(c.platform, -1, false, &recs, 8, ch.sorted));
        }
        if ch.kind == 1 || ch.kind == 2 {
            let ids = listed(2);
            let recs: Vec<IndexRecord> = ids.iter().map(|i| records[*i].clone()).collect();
            inst.write(exp, &format!("{}.index2", stem), &sqpack::index_file(c.platform, if ch.chunk % 2 == 0 { -1 } else { 1 }, true, &recs, 8, ch.sorted));
            // which records sit in the second half of the table (measured class)
            let mut order: Vec<(u32, usize)> = ids.iter().map(|i| (jamcrc_lower(records[*i].path.as_bytes()), *i)).collect();
            if ch.sorted {
                order.sort();
            }
            for (pos, (_, i)) in order.iter().enumerate() {
                if pos >= ids.len() / 2 {
                    model.stored[first_new + i].second_half = true;
                }
            }
        }
        for (dat, entries) in dats {
            // entries may collide in their 256-byte slots only when content is long; keep them apart
            let mut e = entries;
            e.sort_by_key(|x| x.0);
            let mut ok = true;
            for w in e.windows(2) {
                if w[0].0 + w[0].1.len() as u64 > w[1].0 {
                    ok = false;
                }
            }
            assert!(ok, "overlapping generated entries");
            sqpack::write_dat_sparse(&inst.repo_dir(exp).join(format!("{}.dat{}", stem, dat)), c.platform, -1, &e).unwrap();
        }
        for i in first_new..model.stored.len() {
            let s = &model.stored[i];
            let lower = s.path.to_ascii_lowercase();
            let p = lower.rfind('/').unwrap();
            if (ch.kind == 0 || ch.kind == 2) && s.only != 2 {
                model.idx1.insert((s.exp, s.cat, jamcrc_lower(lower[..p].as_bytes()), jamcrc_lower(lower[p + 1..].as_bytes())), i);
            }
            if (ch.kind == 1 || ch.kind == 2) && s.only != 1 {
                model.idx2.insert((s.exp, s.cat, jamcrc_lower(lower.as_bytes())), i);
            }
        }
    }
    (inst, model)
}

fn flip(s: &str, flips: &[u16]) -> String {
    let mut b = s.as_bytes().to_vec();
    let letters: Vec<usize> = (0..b.len()).filter(|&i| b[i].is_ascii_alphabetic()).collect();
    for (k, f) in flips.iter().enumerate() {
        if letters.is_empty() {
            break;
        }
        // the first flip always lands in the category token, the second in the second component
        let i = if k == 0 { letters[0] } else { letters[util::pick_idx(*f, letters.len())] };
        b[i] ^= 0x20;
    }
    String::from_utf8(b).unwrap()
}

fn query_path(q: &Query, m: &Model) -> String {
    if m.stored.is_empty() {
        return format!("bg/{}/{}.tex", q.salt, q.salt);
    }
    let s = &m.stored[util::pick_idx(q.pick, m.stored.len())];
    let p = s.path.rfind('/').unwrap();
    match q.kind {
        0 => s.path.clone(),
        1 => flip(&s.path, &q.flips),
        2 => format!("{}/{}_absent.bin", &s.path[..p], q.salt),
        3 => format!("{}/{}_nodir/{}", &s.path[..p], q.salt, &s.path[p + 1..]),
        4 => {
            let (old, _) = s.path.split_once('/').unwrap();
            let other = CATEGORIES[(CATEGORIES.iter().position(|c| c.0 == old).unwrap() + 1 + q.flips[0] as usize % 14) % 15].0;
            format!("{}{}", other, &s.path[old.len()..])
        }
        5 => {
            // rewrite into another installed repository (or from an expansion into the base game)
            let (cat, rest) = s.path.split_once('/').unwrap();
            let rest = if s.exp != 0 { rest.split_once('/').map(|x| x.1).unwrap_or(rest) } else { rest };
            let others: Vec<u8> = m.installed.iter().copied().filter(|e| *e != s.exp).collect::<std::collections::BTreeSet<_>>().into_iter().collect();
            if others.is_empty() || q.flips[0] % 4 == 0 {
                format!("{}/{}", cat, rest)
            } else {
                format!("{}/ex{}/{}", cat, others[util::pick_idx(q.flips[0], others.len())], rest)
            }
        }
        7 => {
            // the folder of one stored file with the file name of another: absent unless it happens to be stored
            let t = &m.stored[util::pick_idx(q.flips[0], m.stored.len())];
            let tp = t.path.rfind('/').unwrap();
            format!("{}/{}", &s.path[..p], &t.path[tp + 1..])
        }
        8 => {
            // a stored path with one of its last 40 characters changed (separators and dots kept): absent unless stored
            let mut b = s.path.clone().into_bytes();
            let k = b.len() - 1 - (q.flips[0] as usize % b.len().min(40));
            if b[k] != b'/' && b[k] != b'.' {
                b[k] = if b[k] == b'q' { b'z' } else { b'q' };
            }
            String::from_utf8(b).unwrap()
        }
        _ => format!("{}x/{}", q.salt, &s.path[p + 1..]),
    }
}

#[derive(Debug, PartialEq, Clone)]
enum Answer {
    Exists(bool),
    Offset(Option<u64>),
    Data(Option<Vec<u8>>),
}

fn ask(g: &mut physis::gamedata::GameData, op: u8, path: &str) -> Result<Answer, Failure> {
    match op {
        0 => guard("GameData::exists", || Answer::Exists(g.exists(path))),
        1 => guard("GameData::find_offset", || Answer::Offset(g.find_offset(path))),
        _ => guard("GameData::extract", || Answer::Data(g.extract(path))),
    }
}

fn expected(op: u8, s: Option<&Stored>) -> Answer {
    match op {
        0 => Answer::Exists(s.is_some()),
        1 => Answer::Offset(s.map(|s| s.offset)),
        _ => Answer::Data(s.map(|s| s.content.clone())),
    }
}

fn show(a: &Answer) -> String {
    match a {
        Answer::Data(Some(d)) => format!("Data({:?})", String::from_utf8_lossy(d)),
        o => format!("{:?}", o),
    }
}

/// classify a wrong answer so that known shapes have stable signatures
fn diagnose(path: &str, s: Option<&Stored>, got: &Answer) -> &'static str {
    let absent = matches!(got, Answer::Exists(false) | Answer::Offset(None) | Answer::Data(None));
    match s {
        Some(st) if absent => {
            let (cat, _) = path.split_once('/').unwrap();
            if cat != cat.to_ascii_lowercase() {
                "stored-path-absent/category-token-case"
            } else if st.exp != 0 && path.split('/').nth(1).map(|t| t != t.to_ascii_lowercase()).unwrap_or(false) {
                "stored-path-absent/repository-token-case"
            } else if st.exp != 0 {
                "stored-path-absent/expansion-repository"
            } else if st.kind == 1 && st.second_half {
                "stored-path-absent/index2-second-half"
            } else {
                "stored-path-absent"
            }
        }
        Some(_) => "wrong-location",
        None => "absent-path-found",
    }
}

fn prop(c: &Case, ctx: &Ctx) -> PResult {
    let (inst, model) = materialise(c);
    let platform = sqpack::platform_enum(c.platform as usize);
    let game_dir = inst.game_dir();
    let mut g = match guard("GameData::from_existing", || physis::gamedata::GameData::from_existing(platform.clone(), &game_dir))? {
        Some(g) => g,
        None => return fail("open-failed", "GameData::from_existing returned None for a valid installation"),
    };
    let paths: Vec<String> = c.queries.iter().map(|q| query_path(q, &model)).collect();
    let mut pos_special = false;
    let mut neg = false;
    for pass in 0..2 {
        let order: Vec<usize> = if pass == 0 { (0..paths.len()).collect() } else { (0..paths.len()).rev().collect() };
        if pass == 1 {
            // metamorphic: the same queries in reverse order on a fresh handle
            g = match guard("GameData::from_existing", || physis::gamedata::GameData::from_existing(platform.clone(), &game_dir))? {
                Some(g) => g,
                None => return fail("open-failed", "GameData::from_existing returned None"),
            };
        }
        for i in order {
            let q = &c.queries[i];
            let want_rec = model.lookup(&paths[i]);
            let want = expected(q.op, want_rec);
            let got = ask(&mut g, q.op, &paths[i])?;
            // an entry that carries the synonym flag is in the index, so the path exists; which location such an
            // entry designates is not pinned by the statement (the format keeps a separate synonym table)
            let unpinned = want_rec.map(|s| s.synonym).unwrap_or(false) && q.op != 0;
            if got != want && !unpinned {
                let slug = diagnose(&paths[i], want_rec, &got);
                return fail(slug, format!("query #{} (pass {}) {} {:?}: physis={} expected={} [installed expansions {:?}, platform {}]", i, pass, ["exists", "find_offset", "extract"][q.op as usize], paths[i], show(&got), show(&want), c.exps, sqpack::PLATFORMS[c.platform as usize]));
            }
            if pass == 0 {
                ctx.eval();
                ctx.classf(format!("op:{}", ["exists", "find_offset", "extract"][q.op as usize]));
                if paths[i].len() > 260 {
                    ctx.class(if want_rec.is_some() { "path>260-chars:present" } else { "path>260-chars:absent" });
                }
                if q.kind == 8 && want_rec.is_none() {
                    ctx.class("absent:stored-path-with-a-late-character-changed");
                }
                match want_rec {
                    Some(s) => {
                        ctx.class("answer:present");
                        let fname = |p: &str| p[p.rfind('/').map(|i| i + 1).unwrap_or(0)..].to_string();
                        if model.stored.iter().any(|o| o.path != s.path && o.exp == s.exp && o.cat == s.cat && o.chunk == s.chunk && fname(&o.path) == fname(&s.path)) {
                            ctx.class("hit:another-folder-of-the-chunk-holds-a-file-of-the-same-name");
                        }
                        ctx.classf(format!("cat:{:02x}", s.cat));
                        ctx.classf(format!("repo:{}", sqpack::repo_name(s.exp)));
                        ctx.classf(format!("chunk:{}", s.chunk));
                        ctx.classf(format!("dat:{}", s.dat));
                        ctx.classf(format!("index-kind:{}", ["index", "index2", "both"][s.kind as usize]));
                        if s.offset >= 1 << 32 {
                            ctx.class("offset>=4GiB");
                        }
                        if paths[i] != s.path {
                            ctx.class("case-flipped-hit");
                        }
                        if s.only != 0 {
                            ctx.classf(format!("listed-only-in:{}", ["", "index", "index2"][s.only as usize]));
                        }
                        if s.synonym {
                            ctx.class("synonym-flagged-entry");
                        }
                        if s.kind == 1 && s.second_half {
                            ctx.class("index2-second-half-hit");
                        }
                        if s.exp == 0 && s.path.split('/').nth(1).map(|t| t.starts_with("ex") && t.len() == 3).unwrap_or(false) {
                            ctx.class("fallback-to-base-hit");
                        }
                        if s.exp != 0 || s.kind == 1 || s.chunk > 0 || s.dat > 0 {
                            pos_special = true;
                        }
                    }
                    None => {
                        ctx.class("answer:absent");
                        neg = true;
                    }
                }
            }
        }
    }
    ctx.classf(format!("platform:{}", sqpack::PLATFORMS[c.platform as usize]));
    if pos_special && neg {
        let key = format!("{:?}", c);
        ctx.nontrivial(key.as_bytes());
        if ctx.want_sample() {
            ctx.sample(json!({"platform": sqpack::PLATFORMS[c.platform as usize], "installed": c.exps, "chunks": c.chunks.iter().map(|ch| format!("exp{} cat{} chunk{} kind{} files{}", ch.exp, ch.cat, ch.chunk, ch.kind, ch.files.len())).collect::<Vec<_>>(), "stored_paths": model.stored.iter().take(4).map(|s| s.path.clone()).collect::<Vec<_>>(), "queries": paths.iter().take(6).collect::<Vec<_>>()}));
        }
    }
    drop(g);
    drop(inst);
    Ok(())
}

pub fn property() -> Property {
    Property {
        id: "C01",
        rule: "[rounds 8-9: one path tail in 25 of 100..600 characters; file / folder names from small pools so that folders of a chunk share file names; query kind 'stored path with one of its last 40 characters changed'] A case is (installation layout, query history). Layout: platform in 5; base + a shuffled subset of ex1..ex9; 1..6 chunks keyed (repository, category in 15, chunk 0..9), each with index, index2 or both (a quarter of the files of a both-kinds chunk are listed in only one of the two), sorted or unsorted tables, 6 % of the entries with the synonym flag (only `exists` is asserted for those), 1..40 stored paths category/[exN/]dirs/name.ext at 128-aligned offsets in dat0..dat7 (some beyond 4 GiB in sparse files), some base files under the folder of an uninstalled expansion (documented fall-back); every stored file's content embeds (repo, category, chunk, dat, offset, path). History: 1..40 exists/find_offset/extract calls on one handle over stored paths, case-flipped stored paths (category and repository tokens included), absent names, absent folders, other category, other repository, unknown category; then the same queries reversed on a fresh handle. Oracle: stateless model (own JAMCRC): lower-case, category = first component, repository = second component if installed else base, present iff an index/index2 of that (repository, category) holds the hash. Plus a covering sweep over (category, expansion, chunk, platform). evaluations counts individual queries. Non-trivial: a history with at least one positive answer needing an expansion, index2-only chunk, chunk > 0 or dat > 0 AND at least one negative answer; distinct by hash of the case.",
        assumptions: &["a path is stored in exactly one chunk, and when both index kinds list it they designate the same location; depth-2 paths whose file name is a repository name are not generated (answer would depend on search order)", "for an entry with the synonym flag only existence is asserted, not the location (the format keeps a separate synonym table the statement does not describe)", "CRC-32 collisions between generated paths are ignored (probability ~ 2^-32 per pair)"],
        pre: None,
        post: None,
        parts: vec![
            Box::new(Part { name: "covering-sweep", driver: Driver::Enum(sweep), prop, exhaustive: false }),
            Box::new(Part { name: "large-index", driver: Driver::Enum(large_index), prop, exhaustive: false }),
            Box::new(Part { name: "layouts", driver: Driver::Gen(strategy, 1_500, 40_000), prop, exhaustive: false }),
        ],
    }
}

//! Worker-side entry points: each takes byte arguments, calls the public Physis API the way a caller would
//! (including the obvious follow-up calls on a returned value) and reports value (true) / ordinary failure (false).
//! Err(..) is a harness problem (scratch directory etc.), never a verdict.
use crate::engine::util::unpack_files;
use crate::engine::worker::{EntryFn, Env};
use std::path::Path;

pub fn lookup(name: &str) -> Option<EntryFn> {
    Some(match name {
        // ---- C17: user and launcher files
        "cfg" => e_cfg,
        "exl" => e_exl,
        "fiin" => e_fiin,
        "fiin-new" => e_fiin_new,
        "chardat" => e_chardat,
        "gearsets" => e_gearsets,
        "log" => e_log,
        "patchlist-boot" => e_patchlist_boot,
        "patchlist-game" => e_patchlist_game,
        "zipatch" => e_zipatch,
        "exe" => e_exe,
        "bootdata" => e_bootdata,
        "blowfish" => e_blowfish,
        "selftest" => e_selftest,
        _ => return crate::props::entries18::lookup(name),
    })
}

fn arg<'a>(a: &'a [Vec<u8>], i: usize) -> &'a [u8] {
    a.get(i).map(|v| v.as_slice()).unwrap_or(&[])
}

pub fn write_tree(root: &Path, packed: &[u8]) -> Result<(), String> {
    if packed.is_empty() {
        return Ok(());
    }
    let files = unpack_files(packed).ok_or("bad file container")?;
    for (p, b) in files {
        let full = root.join(&p);
        if p.ends_with('/') {
            std::fs::create_dir_all(&full).map_err(|e| format!("mkdir {}: {}", full.display(), e))?;
            continue;
        }
        if let Some(link) = p.strip_suffix('@') {
            // symbolic link whose target is the content (used for write faults: a link to /dev/full)
            let full = root.join(link);
            if let Some(parent) = full.parent() {
                std::fs::create_dir_all(parent).map_err(|e| format!("mkdir {}: {}", parent.display(), e))?;
            }
            std::os::unix::fs::symlink(String::from_utf8_lossy(&b).to_string(), &full).map_err(|e| format!("symlink {}: {}", full.display(), e))?;
            continue;
        }
        if let Some(parent) = full.parent() {
            std::fs::create_dir_all(parent).map_err(|e| format!("mkdir {}: {}", parent.display(), e))?;
        }
        std::fs::write(&full, &b).map_err(|e| format!("write {}: {}", full.display(), e))?;
    }
    Ok(())
}

/// harness self-test entry: arg0 selects a behaviour so that every outcome class can be provoked on purpose
fn e_selftest(a: &[Vec<u8>], _: &mut Env) -> Result<bool, String> {
    match arg(a, 0).first().copied().unwrap_or(0) {
        0 => Ok(true),
        1 => Ok(false),
        2 => {
            let v: Vec<u8> = vec![];
            let i = arg(a, 0).len();
            Ok(v[i] == 0)
        }
        3 => {
            let v: Vec<u8> = vec![0; 3 << 30];
            Ok(v[12345] == 0)
        }
        4 => {
            let mut x = 1u64;
            loop {
                x = std::hint::black_box(x.wrapping_mul(6364136223846793005).wrapping_add(1));
                if x == 0 {
                    break;
                }
            }
            Ok(true)
        }
        5 => {
            fn rec(n: u64) -> u64 {
                let pad = [n; 64];
                if n == u64::MAX {
                    0
                } else {
                    std::hint::black_box(rec(n + 1)) + std::hint::black_box(pad[(n % 64) as usize])
                }
            }
            Ok(rec(0) == 0)
        }
        6 => {
            // leak 4 KiB per call through the system allocator
            unsafe {
                let p = libc::malloc(4096) as *mut u8;
                std::ptr::write_volatile(p, 1);
            }
            Ok(true)
        }
        7 => std::process::abort(),
        8 => {
            // many small allocations adding up to more than the limit
            let mut keep = Vec::new();
            for _ in 0..200_000 {
                keep.push(vec![1u8; 4096]);
            }
            Ok(keep.len() > 1)
        }
        _ => Err("selftest: unknown mode".into()),
    }
}

fn e_cfg(a: &[Vec<u8>], _: &mut Env) -> Result<bool, String> {
    use physis::cfg::ConfigFile;
    match ConfigFile::from_existing(arg(a, 0)) {
        Some(mut c) => {
            let _ = c.has_key("Language");
            let _ = c.has_category("Version");
            c.set_value("Language", "1");
            let _ = c.write_to_buffer();
            Ok(true)
        }
        None => Ok(false),
    }
}

fn e_exl(a: &[Vec<u8>], _: &mut Env) -> Result<bool, String> {
    use physis::exl::EXL;
    match EXL::from_existing(arg(a, 0)) {
        Some(e) => {
            let _ = e.contains("Achievement");
            let _ = e.write_to_buffer();
            Ok(true)
        }
        None => Ok(false),
    }
}

fn e_fiin(a: &[Vec<u8>], _: &mut Env) -> Result<bool, String> {
    use physis::fiin::FileInfo;
    match FileInfo::from_existing(arg(a, 0)) {
        Some(f) => {
            let _ = f.write_to_buffer();
            Ok(true)
        }
        None => Ok(false),
    }
}

/// arg0: packed files created in a scratch directory; arg1: newline-separated relative paths handed to FileInfo::new
fn e_fiin_new(a: &[Vec<u8>], env: &mut Env) -> Result<bool, String> {
    let dir = env.fresh_dir("fiin")?;
    write_tree(&dir, arg(a, 0))?;
    let names = String::from_utf8_lossy(arg(a, 1)).to_string();
    let paths: Vec<String> = names.split('\n').filter(|s| !s.is_empty()).map(|n| dir.join(n).to_string_lossy().to_string()).collect();
    let refs: Vec<&str> = paths.iter().map(|s| s.as_str()).collect();
    let r = physis::fiin::FileInfo::new(&refs);
    Ok(match r {
        Some(f) => {
            let _ = f.write_to_buffer();
            true
        }
        None => false,
    })
}

fn e_chardat(a: &[Vec<u8>], _: &mut Env) -> Result<bool, String> {
    match physis::chardat::CharacterData::from_existing(arg(a, 0)) {
        Some(c) => {
            let _ = c.write_to_buffer();
            Ok(true)
        }
        None => Ok(false),
    }
}

fn e_gearsets(a: &[Vec<u8>], _: &mut Env) -> Result<bool, String> {
    match physis::gearsets::GearSets::from_existing(arg(a, 0)) {
        Some(g) => {
            let _ = g.write_to_buffer();
            Ok(true)
        }
        None => Ok(false),
    }
}

fn e_log(a: &[Vec<u8>], _: &mut Env) -> Result<bool, String> {
    Ok(physis::log::ChatLog::from_existing(arg(a, 0)).is_some())
}

fn patchlist(a: &[Vec<u8>], game: bool) -> Result<bool, String> {
    use physis::patchlist::{PatchList, PatchListType};
    let text = String::from_utf8_lossy(arg(a, 0)).to_string();
    let kind = || if game { PatchListType::Game } else { PatchListType::Boot };
    let l = PatchList::from_string(kind(), &text);
    let _ = l.to_string(kind());
    Ok(true)
}

fn e_patchlist_boot(a: &[Vec<u8>], _: &mut Env) -> Result<bool, String> {
    patchlist(a, false)
}

fn e_patchlist_game(a: &[Vec<u8>], _: &mut Env) -> Result<bool, String> {
    patchlist(a, true)
}

/// arg0: patch bytes; arg1: packed initial tree (paths ending in '/' are directories); arg2: fault selector
/// (empty/0 none; 1 patch path missing; 2 patch path is a directory; 3 data directory is a regular file;
/// 4 data directory missing)
fn e_zipatch(a: &[Vec<u8>], env: &mut Env) -> Result<bool, String> {
    let dir = env.fresh_dir("zp")?;
    let data = dir.join("data");
    let fault = arg(a, 2).first().copied().unwrap_or(0);
    match fault {
        3 => std::fs::write(&data, b"not a directory").map_err(|e| e.to_string())?,
        4 => {}
        _ => {
            std::fs::create_dir_all(&data).map_err(|e| e.to_string())?;
            write_tree(&data, arg(a, 1))?;
        }
    }
    let patch = dir.join("test.patch");
    match fault {
        1 => {}
        2 => std::fs::create_dir_all(&patch).map_err(|e| e.to_string())?,
        _ => std::fs::write(&patch, arg(a, 0)).map_err(|e| e.to_string())?,
    }
    let r = physis::patch::ZiPatch::apply(&data.to_string_lossy(), &patch.to_string_lossy());
    let _ = std::fs::remove_dir_all(&dir);
    Ok(r.is_ok())
}

/// arg0: executable bytes; arg1: fault selector (1: path missing, 2: path is a directory)
fn e_exe(a: &[Vec<u8>], env: &mut Env) -> Result<bool, String> {
    let dir = env.fresh_dir("exe")?;
    let p = dir.join("ffxivlauncher.exe");
    match arg(a, 1).first().copied().unwrap_or(0) {
        1 => {}
        2 => std::fs::create_dir_all(&p).map_err(|e| e.to_string())?,
        _ => std::fs::write(&p, arg(a, 0)).map_err(|e| e.to_string())?,
    }
    let r = physis::execlookup::extract_frontier_url(&p.to_string_lossy());
    let _ = std::fs::remove_dir_all(&dir);
    Ok(r.is_some())
}

/// arg0: mode (0 missing directory, 1 a regular file, 2 directory without version file, 3 directory with version
/// file arg1); arg2: optional patch applied through BootData::apply_patch
fn e_bootdata(a: &[Vec<u8>], env: &mut Env) -> Result<bool, String> {
    let dir = env.fresh_dir("boot")?;
    let boot = dir.join("boot");
    match arg(a, 0).first().copied().unwrap_or(0) {
        0 => {}
        1 => std::fs::write(&boot, b"x").map_err(|e| e.to_string())?,
        2 => std::fs::create_dir_all(&boot).map_err(|e| e.to_string())?,
        _ => {
            std::fs::create_dir_all(&boot).map_err(|e| e.to_string())?;
            std::fs::write(boot.join("ffxivboot.ver"), arg(a, 1)).map_err(|e| e.to_string())?;
        }
    }
    let r = physis::bootdata::BootData::from_existing(&boot.to_string_lossy());
    let ok = match r {
        Some(b) => {
            if a.len() > 2 {
                let patch = dir.join("boot.patch");
                std::fs::write(&patch, arg(a, 2)).map_err(|e| e.to_string())?;
                let _ = b.apply_patch(&patch.to_string_lossy());
            }
            true
        }
        None => false,
    };
    let _ = std::fs::remove_dir_all(&dir);
    Ok(ok)
}

/// arg0: key; arg1: data
fn e_blowfish(a: &[Vec<u8>], _: &mut Env) -> Result<bool, String> {
    let f = physis::blowfish::Blowfish::new(arg(a, 0));
    let e = f.encrypt(arg(a, 1));
    let d = f.decrypt(arg(a, 1));
    Ok(e.is_some() && d.is_some())
}

//! C03 — applying a ZiPatch has exactly the reference effect on the install.
use crate::build::deflate::Mode;
use crate::build::zipatch as zp;
use crate::engine::panics::guard;
use crate::engine::tmp::TmpDir;
use crate::engine::*;
use crate::props::c02::{content, mode};
use proptest::collection::vec;
use proptest::prelude::*;
use serde::{Deserialize, Serialize};
use serde_json::json;
use std::collections::{BTreeMap, BTreeSet};
use std::path::Path;

pub const PLATFORM_TAGS: [&str; 5] = ["win32", "ps3", "ps4", "ps5", "lys"];
const DIRS: [&str; 8] = ["", "boot", "game/sub", "sqpack/ffxiv", "sqpack/ex1", "sqpack/ex2", "a/b/c/d", "music/ffxiv"];
const NAMES: [&str; 8] = ["f0.bin", "f1.dat", "ffxivgame.ver", "020100.win32.dat0", "0a0000.ps4.index", "x.y.z", "020100.win32.index", "readme.txt"];
const MAINS: [u16; 6] = [0x02, 0x0a, 0x13, 0x04, 0x00, 0x12c];
const EXPS: [u8; 4] = [0, 1, 2, 9];
const CHUNKS: [u8; 4] = [0, 1, 9, 0x1f];
const FILES: [u8; 5] = [0, 1, 2, 7, 11];

#[derive(Clone, Copy, Debug, Serialize, Deserialize, PartialEq, Eq)]
pub struct DatRef {
    pub main: u8,
    pub exp: u8,
    pub chunk: u8,
    pub file: u8,
}

impl DatRef {
    pub fn ids(&self) -> (u16, u16, u32) {
        (MAINS[self.main as usize % 6], ((EXPS[self.exp as usize % 4] as u16) << 8) | CHUNKS[self.chunk as usize % 4] as u16, FILES[self.file as usize % 5] as u32)
    }
    fn exp_id(&self) -> u8 {
        EXPS[self.exp as usize % 4]
    }
}

#[derive(Clone, Copy, Debug, Serialize, Deserialize, PartialEq, Eq)]
pub struct PathRef {
    pub dir: u8,
    pub name: u8,
}

impl PathRef {
    pub fn path(&self) -> String {
        let d = DIRS[self.dir as usize % 8];
        let n = NAMES[self.name as usize % 8];
        if d.is_empty() {
            n.to_string()
        } else {
            format!("{}/{}", d, n)
        }
    }
}

#[derive(Clone, Debug, Serialize, Deserialize)]
pub enum Chunk {
    Fhdr { v3: bool, seed: u32 },
    Aply { option2: bool, value: u32 },
    Adir { dir: u8 },
    Deld { dir: u8 },
    Target { platform: u8, korea: bool },
    PatchInfo { status: u8, version: u8, size: u64 },
    Index { add: bool, synonym: bool, hash: u64, off: u32, num: u32 },
    AddData { t: DatRef, off: u16, blocks: u8, delete: u16, seed: u64 },
    DeleteData { t: DatRef, off: u16, count: u16 },
    ExpandData { t: DatRef, off: u16, count: u16 },
    Header { t: DatRef, index: bool, kind: u8, seed: u64 },
    AddFile { p: PathRef, offset_128: u16, blocks: Vec<(u16, Mode, u8)>, seed: u64 },
    DeleteFile { p: PathRef },
    RemoveAll { exp: u8 },
    MakeDirTree { p: PathRef },
}

#[derive(Clone, Debug, Serialize, Deserialize)]
pub struct Case {
    /// initial files: (path, length, seed)
    pub initial: Vec<(PathRef, u16, u64)>,
    /// initial dat files: (dat, length, seed)
    pub initial_dats: Vec<(DatRef, u8, u16, u64)>,
    /// each patch: first platform/region of its leading TargetInfo, then chunks
    pub patches: Vec<(u8, bool, Vec<Chunk>)>,
}

fn datref() -> BoxedStrategy<DatRef> {
    (prop_oneof![3 => 0u8..2, 1 => 0u8..6], prop_oneof![2 => Just(0u8), 1 => 0u8..4], prop_oneof![2 => Just(0u8), 1 => 0u8..4], prop_oneof![2 => Just(0u8), 1 => 0u8..5]).prop_map(|(main, exp, chunk, file)| DatRef { main, exp, chunk, file }).boxed()
}

fn pathref() -> BoxedStrategy<PathRef> {
    (0u8..8, prop_oneof![2 => 0u8..2, 1 => 0u8..8]).prop_map(|(dir, name)| PathRef { dir, name }).boxed()
}

fn file_blocks() -> BoxedStrategy<Vec<(u16, Mode, u8)>> {
    // one block in sixteen is longer than the 16 000 bytes a block of a dat file holds (the block header's length fields
    // are 32 bits wide and nothing in the patch format stops a file block from being longer)
    let len = prop_oneof![8 => 1u16..400, 4 => prop::sample::select(vec![1u16, 111, 112, 113, 127, 128, 129, 240, 255, 256]), 2 => 1u16..16000, 1 => prop::sample::select(vec![15_999u16, 16_000, 16_001, 20_000, 31_999, 32_000, 32_001, 40_000, 65_535])];
    vec((len, mode(), 0u8..5), 0..=5).boxed()
}

fn big_count() -> BoxedStrategy<u16> {
    prop::sample::select(vec![255u16, 256, 257, 300, 511, 512, 513, 767, 768, 1023, 1024]).boxed()
}

fn chunk_strategy() -> BoxedStrategy<Chunk> {
    prop_oneof![
        1 => (any::<bool>(), any::<u32>()).prop_map(|(v3, seed)| Chunk::Fhdr { v3, seed }),
        1 => (any::<bool>(), any::<u32>()).prop_map(|(option2, value)| Chunk::Aply { option2, value }),
        1 => (0u8..8).prop_map(|dir| Chunk::Adir { dir }),
        1 => (0u8..8).prop_map(|dir| Chunk::Deld { dir }),
        1 => (0u8..5, any::<bool>()).prop_map(|(platform, korea)| Chunk::Target { platform, korea }),
        1 => (any::<u8>(), any::<u8>(), any::<u64>()).prop_map(|(status, version, size)| Chunk::PatchInfo { status, version, size }),
        1 => (any::<bool>(), any::<bool>(), any::<u64>(), any::<u32>(), any::<u32>()).prop_map(|(add, synonym, hash, off, num)| Chunk::Index { add, synonym, hash, off, num }),
        // one count in nine is large: 255..1 024 blocks, i.e. wipes of 32 KiB and more (several buffers of any likely size)
        6 => (datref(), 0u16..64, 0u8..=8, prop_oneof![8 => 0u16..=8, 1 => big_count()], any::<u64>()).prop_map(|(t, off, blocks, delete, seed)| Chunk::AddData { t, off, blocks, delete, seed }),
        3 => (datref(), 0u16..64, prop_oneof![8 => 1u16..=8, 1 => big_count()]).prop_map(|(t, off, count)| Chunk::DeleteData { t, off, count }),
        3 => (datref(), 0u16..64, prop_oneof![8 => 1u16..=8, 1 => big_count()]).prop_map(|(t, off, count)| Chunk::ExpandData { t, off, count }),
        3 => (datref(), any::<bool>(), 0u8..3, any::<u64>()).prop_map(|(t, index, kind, seed)| Chunk::Header { t, index, kind, seed }),
        6 => (pathref(), prop_oneof![2 => Just(0u16), 1 => 0u16..8], file_blocks(), any::<u64>()).prop_map(|(p, offset_128, blocks, seed)| Chunk::AddFile { p, offset_128, blocks, seed }),
        2 => pathref().prop_map(|p| Chunk::DeleteFile { p }),
        1 => (0u8..4).prop_map(|exp| Chunk::RemoveAll { exp }),
        1 => pathref().prop_map(|p| Chunk::MakeDirTree { p }),
    ]
    .boxed()
}

fn strategy(_: &Ctx) -> BoxedStrategy<Case> {
    (vec((pathref(), 0u16..3000, any::<u64>()), 0..6), vec((datref(), 0u8..5, prop_oneof![6 => 0u16..6000, 1 => 40_000u16..=65_535], any::<u64>()), 0..3), vec((0u8..5, any::<bool>(), vec(chunk_strategy(), 0..=12)), 1..=3))
        .prop_map(|(initial, initial_dats, mut patches)| {
            // a quarter of the whole-file AddFile commands come back later (end of the same or of the last patch) with the
            // front part of their own content: the file is there already, starts with the new content and is longer
            let mut echoes: Vec<(usize, Chunk)> = vec![];
            let last = patches.len() - 1;
            for (pi, (_, _, chunks)) in patches.iter().enumerate() {
                for ch in chunks {
                    if let Chunk::AddFile { p, offset_128: 0, blocks, seed } = ch {
                        if seed % 4 == 0 && !blocks.is_empty() && blocks.iter().map(|b| b.0 as usize).sum::<usize>() >= 2 {
                            let mut b = blocks.clone();
                            let k = 1 + (seed / 4) as usize % b.len();
                            b.truncate(k);
                            if k == blocks.len() {
                                let l = b.last_mut().unwrap();
                                if l.0 > 1 {
                                    l.0 /= 2;
                                } else if b.len() > 1 {
                                    b.pop();
                                } else {
                                    continue;
                                }
                            }
                            echoes.push((if seed % 8 == 0 { pi } else { last }, Chunk::AddFile { p: *p, offset_128: 0, blocks: b, seed: *seed }));
                        }
                    }
                }
            }
            for (pi, ch) in echoes {
                patches[pi].2.push(ch);
            }
            Case { initial, initial_dats, patches }
        })
        .boxed()
}

/// Bounded-exhaustive part: all sequences of length <= 2 (quick) / <= 3 (thorough) over a concrete alphabet.
fn alphabet() -> Vec<Chunk> {
    let x = DatRef { main: 0, exp: 1, chunk: 0, file: 0 };
    let p = PathRef { dir: 2, name: 0 };
    vec![
        Chunk::AddData { t: x, off: 0, blocks: 2, delete: 1, seed: 1 },
        Chunk::AddData { t: x, off: 1, blocks: 2, delete: 0, seed: 2 },
        Chunk::DeleteData { t: x, off: 1, count: 2 },
        Chunk::ExpandData { t: x, off: 2, count: 3 },
        Chunk::Header { t: x, index: false, kind: 0, seed: 3 },
        Chunk::Header { t: x, index: false, kind: 2, seed: 4 },
        Chunk::Header { t: x, index: true, kind: 1, seed: 5 },
        Chunk::AddFile { p, offset_128: 0, blocks: vec![(200, Mode::Raw, 0), (300, Mode::Dynamic, 1)], seed: 6 },
        Chunk::AddFile { p, offset_128: 1, blocks: vec![(100, Mode::Fixed, 2)], seed: 7 },
        // the first block of the two-block AddFile above alone: the file it leaves is a front part of the other one's
        Chunk::AddFile { p, offset_128: 0, blocks: vec![(200, Mode::Raw, 0)], seed: 6 },
        Chunk::DeleteFile { p },
        Chunk::MakeDirTree { p: PathRef { dir: 6, name: 1 } },
        Chunk::Target { platform: 2, korea: false },
    ]
}

fn sequences(ctx: &Ctx) -> Vec<Case> {
    let a = alphabet();
    let max = ctx.tier.pick(2, 3);
    let mut seqs: Vec<Vec<usize>> = vec![vec![]];
    let mut frontier: Vec<Vec<usize>> = vec![vec![]];
    for _ in 0..max {
        let mut next = vec![];
        for s in &frontier {
            for i in 0..a.len() {
                let mut t = s.clone();
                t.push(i);
                next.push(t);
            }
        }
        seqs.extend(next.iter().cloned());
        frontier = next;
    }
    seqs.into_iter()
        .map(|s| Case {
            initial: vec![(PathRef { dir: 2, name: 0 }, 700, 9), (PathRef { dir: 0, name: 2 }, 20, 10)],
            initial_dats: vec![(DatRef { main: 0, exp: 1, chunk: 0, file: 0 }, 0, 1500, 11)],
            patches: vec![(0, false, s.into_iter().map(|i| a[i].clone()).collect())],
        })
        .collect()
}

// ------------------------------------------------------------------------------------------------
// reference model
// ------------------------------------------------------------------------------------------------

#[derive(Default, Clone)]
pub struct Fs {
    pub files: BTreeMap<String, Vec<u8>>,
    pub required_dirs: BTreeSet<String>,
    pub allowed_dirs: BTreeSet<String>,
}

fn ancestors(path: &str) -> Vec<String> {
    let mut out = vec![];
    let mut p = path;
    while let Some(i) = p.rfind('/') {
        p = &p[..i];
        out.push(p.to_string());
    }
    out
}

impl Fs {
    fn allow_for_file(&mut self, path: &str) {
        for a in ancestors(path) {
            self.allowed_dirs.insert(a);
        }
    }
    fn write_at(&mut self, path: &str, offset: usize, data: &[u8]) {
        self.allow_for_file(path);
        let f = self.files.entry(path.to_string()).or_default();
        if data.is_empty() {
            return;
        }
        if f.len() < offset + data.len() {
            f.resize(offset + data.len(), 0);
        }
        f[offset..offset + data.len()].copy_from_slice(data);
    }
}

pub fn exp_folder(e: u8) -> String {
    if e == 0 {
        "ffxiv".into()
    } else {
        format!("ex{}", e)
    }
}

pub fn dat_path(platform: usize, main: u16, sub: u16, file: u32) -> String {
    format!("sqpack/{}/{:02x}{:04x}.{}.dat{}", exp_folder((sub >> 8) as u8), main, sub, PLATFORM_TAGS[platform], file)
}

pub fn index_path(platform: usize, main: u16, sub: u16, file: u32) -> String {
    let mut s = format!("sqpack/{}/{:02x}{:04x}.{}.index", exp_folder((sub >> 8) as u8), main, sub, PLATFORM_TAGS[platform]);
    if file != 0 {
        s.push_str(&file.to_string());
    }
    s
}

fn empty_block_header(count: u32) -> Vec<u8> {
    let mut v = vec![];
    for x in [128i32, 0, 0, count as i32 - 1, 0] {
        v.extend_from_slice(&x.to_le_bytes());
    }
    v
}

struct Interp {
    fs: Fs,
    platform: usize,
    /// expansions whose sqpack directory may have been removed by RemoveAll and not yet re-created
    dir_unknown: BTreeSet<u8>,
    touched: BTreeMap<String, u32>,
    classes: Vec<String>,
    multi_block_deflated: bool,
}

impl Interp {
    fn touch(&mut self, path: &str) {
        *self.touched.entry(path.to_string()).or_insert(0) += 1;
    }

    /// Applies the chunk to the model and returns its encoding. The chunk may be adapted so that the
    /// sequence stays inside the domain the reference defines (construction, not rejection).
    fn step(&mut self, c: &Chunk) -> Vec<u8> {
        match c {
            Chunk::Fhdr { v3, seed } => {
                self.classes.push(format!("chunk:FHDR{}", if *v3 { 3 } else { 2 }));
                zp::fhdr(*v3, *seed)
            }
            Chunk::Aply { option2, value } => {
                self.classes.push("chunk:APLY".into());
                zp::aply(if *option2 { 2 } else { 1 }, *value)
            }
            Chunk::Adir { dir } => {
                self.classes.push("chunk:ADIR".into());
                let name = format!("newdir{}/{}", dir, DIRS[*dir as usize % 8]);
                let name = name.trim_end_matches('/').to_string();
                self.fs.allowed_dirs.insert(name.clone());
                for a in ancestors(&name) {
                    self.fs.allowed_dirs.insert(a);
                }
                zp::dir_chunk(true, &name)
            }
            Chunk::Deld { dir } => {
                self.classes.push("chunk:DELD".into());
                // only ever names directories that hold no files and are not required
                let name = format!("olddir{}", dir);
                zp::dir_chunk(false, &name)
            }
            Chunk::Target { platform, korea } => {
                self.platform = *platform as usize % 5;
                self.classes.push(format!("chunk:T/{}", PLATFORM_TAGS[self.platform]));
                zp::target_info(self.platform as u16, if *korea { 1 } else { -1 }, false, 0)
            }
            Chunk::PatchInfo { status, version, size } => {
                self.classes.push("chunk:X".into());
                zp::patch_info(*status, *version, *size)
            }
            Chunk::Index { add, synonym, hash, off, num } => {
                self.classes.push("chunk:I".into());
                zp::index_cmd(*add, *synonym, *hash, *off, *num)
            }
            Chunk::AddData { t, off, blocks, delete, seed } => {
                let (main, sub, file) = t.ids();
                let path = dat_path(self.platform, main, sub, file);
                let data = content(*seed, 1, *blocks as usize * 128, (*seed % 3) as u8);
                self.fs.write_at(&path, *off as usize * 128, &data);
                self.fs.write_at(&path, *off as usize * 128 + data.len(), &vec![0u8; *delete as usize * 128]);
                self.dir_unknown.remove(&t.exp_id());
                self.touch(&path);
                self.classes.push("chunk:A".into());
                self.classes.push(format!("expansion:{}", t.exp_id()));
                zp::add_data(main, sub, file, *off as u32, &data, *delete as u32)
            }
            Chunk::DeleteData { t, off, count } | Chunk::ExpandData { t, off, count } => {
                let (main, sub, file) = t.ids();
                let path = dat_path(self.platform, main, sub, file);
                let mut expand = matches!(c, Chunk::ExpandData { .. });
                if !expand && self.dir_unknown.contains(&t.exp_id()) {
                    // DeleteData into a directory a RemoveAll may have removed is outside the domain
                    expand = true;
                    self.classes.push("adapted:D->E-after-RemoveAll".into());
                }
                self.fs.write_at(&path, *off as usize * 128, &vec![0u8; *count as usize * 128]);
                self.fs.write_at(&path, *off as usize * 128, &empty_block_header(*count as u32));
                self.dir_unknown.remove(&t.exp_id());
                self.touch(&path);
                self.classes.push(format!("chunk:{}", if expand { "E" } else { "D" }));
                self.classes.push(format!("expansion:{}", t.exp_id()));
                zp::delete_or_expand(expand, main, sub, file, *off as u32, *count as u32)
            }
            Chunk::Header { t, index, kind, seed } => {
                let (main, sub, file) = t.ids();
                let path = if *index { index_path(self.platform, main, sub, file) } else { dat_path(self.platform, main, sub, file) };
                let data = content(*seed, 2, 1024, 0);
                let k = [b'V', b'I', b'D'][*kind as usize % 3];
                self.fs.write_at(&path, if k == b'V' { 0 } else { 1024 }, &data);
                self.dir_unknown.remove(&t.exp_id());
                self.touch(&path);
                self.classes.push(format!("chunk:H/{}{}", if *index { "index" } else { "dat" }, k as char));
                zp::header_update(*index, k, main, sub, file, &data)
            }
            Chunk::AddFile { p, offset_128, blocks, seed } => {
                let path = p.path();
                let mut data = vec![];
                let mut enc = vec![];
                for (i, (len, mode, style)) in blocks.iter().enumerate() {
                    let d = content(*seed, i as u64, *len as usize, *style);
                    enc.push(zp::file_block(&d, *mode));
                    data.extend_from_slice(&d);
                }
                if blocks.len() >= 2 && blocks.iter().any(|b| b.1 != Mode::Raw) {
                    self.multi_block_deflated = true;
                }
                let offset = *offset_128 as usize * 128;
                if offset == 0 {
                    self.fs.files.insert(path.clone(), vec![]);
                }
                self.fs.write_at(&path, offset, &data);
                for (e, d) in [(1u8, "sqpack/ex1/"), (2, "sqpack/ex2/"), (0, "sqpack/ffxiv/")] {
                    if path.starts_with(d) {
                        self.dir_unknown.remove(&e);
                    }
                }
                self.touch(&path);
                self.classes.push(format!("chunk:F/AddFile{}", if offset == 0 { "@0" } else { "@offset" }));
                for b in blocks {
                    self.classes.push(format!("file-block:{:?}", b.1));
                    if b.0 > 16_000 {
                        self.classes.push(format!("file-block>16000:{:?}", b.1));
                    }
                }
                zp::file_op(b'A', offset as u64, data.len() as u64, 0, &path, &enc)
            }
            Chunk::DeleteFile { p } => {
                let path = p.path();
                self.fs.files.remove(&path);
                self.touch(&path);
                self.classes.push("chunk:F/DeleteFile".into());
                zp::file_op(b'D', 0, 0, 0, &path, &[])
            }
            Chunk::RemoveAll { exp } => {
                let e = EXPS[*exp as usize % 4];
                let prefix = format!("sqpack/{}/", exp_folder(e));
                let doomed: Vec<String> = self.fs.files.keys().filter(|k| k.starts_with(&prefix)).cloned().collect();
                for d in doomed {
                    self.fs.files.remove(&d);
                }
                let dir = format!("sqpack/{}", exp_folder(e));
                self.fs.required_dirs.retain(|d| *d != dir && !d.starts_with(&prefix));
                self.dir_unknown.insert(e);
                self.classes.push("chunk:F/RemoveAll".into());
                zp::file_op(b'R', 0, 0, e as u16, "", &[])
            }
            Chunk::MakeDirTree { p } => {
                // every other MakeDirTree names its tree with a trailing separator: then the last component is a
                // directory to make as well
                let path = format!("{}/sub{}", p.path().replace('.', "_"), if p.name % 2 == 1 { "/" } else { "" });
                self.fs.allowed_dirs.insert(path.trim_end_matches('/').to_string());
                for a in ancestors(&path) {
                    self.fs.allowed_dirs.insert(a.clone());
                    self.fs.required_dirs.insert(a);
                }
                self.classes.push("chunk:F/MakeDirTree".into());
                zp::file_op(b'M', 0, 0, 0, &path, &[])
            }
        }
    }
}

pub fn walk(root: &Path) -> (BTreeMap<String, Vec<u8>>, BTreeSet<String>) {
    fn rec(root: &Path, dir: &Path, files: &mut BTreeMap<String, Vec<u8>>, dirs: &mut BTreeSet<String>) {
        if let Ok(rd) = std::fs::read_dir(dir) {
            for e in rd.flatten() {
                let p = e.path();
                let rel = p.strip_prefix(root).unwrap().to_str().unwrap().to_string();
                let ft = e.file_type().unwrap();
                if ft.is_dir() {
                    dirs.insert(rel);
                    rec(root, &p, files, dirs);
                } else {
                    files.insert(rel, std::fs::read(&p).unwrap_or_default());
                }
            }
        }
    }
    let mut f = BTreeMap::new();
    let mut d = BTreeSet::new();
    rec(root, root, &mut f, &mut d);
    (f, d)
}

pub fn compare_trees(actual: &BTreeMap<String, Vec<u8>>, want: &BTreeMap<String, Vec<u8>>) -> PResult {
    for (p, w) in want {
        match actual.get(p) {
            None => {
                let slug = if p.contains(".ps3.") || p.contains(".ps4.") || p.contains(".ps5.") || p.contains(".lys.") { "file-missing/non-win32-platform" } else { "file-missing" };
                return fail(slug, format!("{} ({} bytes) should exist after the patch; actual files: {:?}", p, w.len(), actual.keys().collect::<Vec<_>>()));
            }
            Some(a) if a != w => {
                let pos = a.iter().zip(w.iter()).position(|(x, y)| x != y).unwrap_or(a.len().min(w.len()));
                return fail("file-content-differs", format!("{}: physis wrote {} bytes, reference {} bytes, first difference at {}", p, a.len(), w.len(), pos));
            }
            _ => {}
        }
    }
    for p in actual.keys() {
        if !want.contains_key(p) {
            return fail("unexpected-file", format!("{} exists after the patch but not in the reference result", p));
        }
    }
    Ok(())
}

fn prop(c: &Case, ctx: &Ctx) -> PResult {
    let tmp = TmpDir::new("c03");
    let root = tmp.join("data");
    std::fs::create_dir_all(&root).unwrap();
    let mut it = Interp { fs: Fs::default(), platform: 0, dir_unknown: BTreeSet::new(), touched: BTreeMap::new(), classes: vec![], multi_block_deflated: false };
    // initial tree
    for (p, len, seed) in &c.initial {
        it.fs.files.insert(p.path(), content(*seed, 0, *len as usize, 0));
    }
    for (t, platform, len, seed) in &c.initial_dats {
        let (main, sub, file) = t.ids();
        it.fs.files.insert(dat_path(*platform as usize % 5, main, sub, file), content(*seed, 0, *len as usize, 0));
    }
    // directories that in-place commands need exist beforehand (the reference does not create them)
    for e in EXPS {
        it.fs.allowed_dirs.insert(format!("sqpack/{}", exp_folder(e)));
        it.fs.allowed_dirs.insert("sqpack".into());
        std::fs::create_dir_all(root.join("sqpack").join(exp_folder(e))).unwrap();
    }
    for (p, data) in &it.fs.files.clone() {
        it.fs.allow_for_file(p);
        let full = root.join(p);
        std::fs::create_dir_all(full.parent().unwrap()).unwrap();
        std::fs::write(full, data).unwrap();
    }
    // build and apply patches one after another
    let mut effectful = 0usize;
    for (pi, (platform, korea, chunks)) in c.patches.iter().enumerate() {
        let mut bytes = zp::file_header();
        bytes.extend_from_slice(&it.step(&Chunk::Target { platform: *platform, korea: *korea }));
        for ch in chunks {
            bytes.extend_from_slice(&it.step(ch));
            if matches!(ch, Chunk::AddData { .. } | Chunk::DeleteData { .. } | Chunk::ExpandData { .. } | Chunk::Header { .. } | Chunk::AddFile { .. } | Chunk::DeleteFile { .. } | Chunk::RemoveAll { .. }) {
                effectful += 1;
            }
        }
        bytes.extend_from_slice(&zp::eof());
        let patch_path = tmp.join(format!("patch{}.patch", pi));
        std::fs::write(&patch_path, &bytes).unwrap();
        let r = guard("ZiPatch::apply", || physis::patch::ZiPatch::apply(root.to_str().unwrap(), patch_path.to_str().unwrap())).map_err(|mut f| {
            if chunks.iter().any(|c| matches!(c, Chunk::Adir { .. } | Chunk::Deld { .. })) {
                f.slug = format!("{}/with-ADIR-DELD", f.slug);
            }
            f
        })?;
        if let Err(e) = r {
            let has_dir = chunks.iter().any(|c| matches!(c, Chunk::Adir { .. } | Chunk::Deld { .. }));
            return fail(if has_dir { "apply-error/ADIR-DELD" } else { "apply-error" }, format!("patch #{} of a well-formed chain returned Err({:?}); chunks: {:?}", pi, e, chunks.iter().map(|c| format!("{:?}", c).chars().take(40).collect::<String>()).collect::<Vec<_>>()));
        }
    }
    let (files, dirs) = walk(&root);
    compare_trees(&files, &it.fs.files)?;
    for d in &dirs {
        if !it.fs.allowed_dirs.contains(d) {
            return fail("unexpected-directory", format!("directory {} exists after the patch; no chunk accounts for it", d));
        }
    }
    for d in &it.fs.required_dirs {
        if !dirs.contains(d) {
            return fail("directory-missing", format!("directory {} should exist (MakeDirTree)", d));
        }
    }
    for cl in &it.classes {
        ctx.class(cl);
    }
    ctx.classf(format!("chain-length:{}", c.patches.len()));
    let overlapping = it.touched.values().any(|n| *n >= 2);
    if overlapping {
        ctx.class("same-file-touched-twice");
    }
    if (overlapping && effectful >= 2) || it.multi_block_deflated || c.patches.len() >= 2 {
        ctx.nontrivial(format!("{:?}", c).as_bytes());
        if ctx.want_sample() {
            ctx.sample(json!({"initial_files": c.initial.iter().map(|i| i.0.path()).collect::<Vec<_>>(), "patches": c.patches.iter().map(|p| p.2.iter().map(|c| format!("{:?}", c).chars().take(90).collect::<String>()).collect::<Vec<_>>()).collect::<Vec<_>>(), "final_files": it.fs.files.iter().map(|(k, v)| format!("{} ({} B)", k, v.len())).collect::<Vec<_>>()}));
        }
    }
    Ok(())
}

// ------------------------------------------------------------------------------------------------
// offsets beyond 4 GiB (sparse targets; compared by position, never read whole)
// ------------------------------------------------------------------------------------------------

/// (command: 0 AddData, 1 DeleteData, 2 ExpandData, 3 AddFile at a byte offset; offset in 128-byte blocks)
fn far_cases(_: &Ctx) -> Vec<(u8, u32)> {
    let mut v = vec![];
    for op in 0..4u8 {
        for off in [0x0200_0000u32, 0x0200_0004, 0x0400_0010, 0x01FF_FFFF] {
            v.push((op, off));
        }
    }
    v
}

fn read_at(f: &std::fs::File, at: u64, len: usize) -> Vec<u8> {
    use std::os::unix::fs::FileExt;
    let mut b = vec![0u8; len];
    let mut got = 0;
    while got < len {
        match f.read_at(&mut b[got..], at + got as u64) {
            Ok(0) | Err(_) => break,
            Ok(n) => got += n,
        }
    }
    b.truncate(got);
    b
}

fn prop_far(c: &(u8, u32), ctx: &Ctx) -> PResult {
    let (op, off) = *c;
    let tmp = TmpDir::new("c03far");
    let root = tmp.join("data");
    let rel = if op == 3 { "sqpack/ffxiv/big.bin".to_string() } else { dat_path(0, 0x02, 0, 0) };
    std::fs::create_dir_all(root.join("sqpack/ffxiv")).unwrap();
    let initial = content(off as u64, 0, 640, 0);
    std::fs::write(root.join(&rel), &initial).unwrap();
    let at = off as u64 * 128;
    let data = content(off as u64, 1, 256, 0);
    let (chunk, written): (Vec<u8>, Vec<u8>) = match op {
        0 => {
            let mut w = data.clone();
            w.extend_from_slice(&[0u8; 128]);
            (zp::add_data(0x02, 0, 0, off, &data, 1), w)
        }
        1 | 2 => {
            let mut w = empty_block_header(2);
            w.resize(256, 0);
            (zp::delete_or_expand(op == 2, 0x02, 0, 0, off, 2), w)
        }
        _ => (zp::file_op(b'A', at, data.len() as u64, 0, &rel, &[zp::file_block(&data, Mode::Raw)]), data.clone()),
    };
    let mut bytes = zp::file_header();
    bytes.extend_from_slice(&zp::target_info(0, -1, false, 0));
    bytes.extend_from_slice(&chunk);
    bytes.extend_from_slice(&zp::eof());
    let patch_path = tmp.join("far.patch");
    std::fs::write(&patch_path, &bytes).unwrap();
    let r = guard("ZiPatch::apply", || physis::patch::ZiPatch::apply(root.to_str().unwrap(), patch_path.to_str().unwrap()))?;
    if let Err(e) = r {
        return fail("far-offset/apply-error", format!("a command at block offset {:#x} returned Err({:?})", off, e));
    }
    // exactly the one file (names only: the file is sparse and several GiB long)
    let mut names = vec![];
    for e in std::fs::read_dir(root.join("sqpack/ffxiv")).unwrap().flatten() {
        names.push(e.file_name().to_string_lossy().to_string());
    }
    let want_name = rel.rsplit('/').next().unwrap().to_string();
    if names != vec![want_name.clone()] {
        return fail("far-offset/files", format!("files under sqpack/ffxiv after the patch: {:?}, expected only {}", names, want_name));
    }
    let f = std::fs::File::open(root.join(&rel)).unwrap();
    let len = f.metadata().unwrap().len();
    if len != at + written.len() as u64 {
        return fail("far-offset/file-length", format!("{} is {} bytes long after a {}-byte write at byte offset {} (= 128 x block offset {:#x})", rel, len, written.len(), at, off));
    }
    if read_at(&f, 0, 640) != initial {
        return fail("far-offset/start-overwritten", format!("the existing first 640 bytes of {} changed (write at block offset {:#x})", rel, off));
    }
    if read_at(&f, at, written.len()) != written {
        return fail("far-offset/content", format!("bytes at offset {} of {} differ from the command's effect", at, rel));
    }
    for (from, n) in [(640u64, 65536usize), (at - 65536, 65536), ((at & 0xFFFF_FFFF).max(640), 4096)] {
        if from + n as u64 <= at && read_at(&f, from, n).iter().any(|b| *b != 0) {
            return fail("far-offset/stray-write", format!("non-zero bytes in [{}, +{}) of {}, which no command wrote", from, n, rel));
        }
    }
    ctx.classf(format!("far:{}", ["AddData", "DeleteData", "ExpandData", "AddFile"][op as usize]));
    ctx.classf(format!("far-offset:{}", if at >= 1 << 32 { ">=4GiB" } else { "<4GiB" }));
    ctx.nontrivial(format!("far{:?}", c).as_bytes());
    Ok(())
}

pub fn property() -> Property {
    Property {
        id: "C03",
        rule: "random part: initial tree of 0..6 files + 0..3 dat files (plus the sqpack/<exp> directories in-place commands need); 1..3 patches applied in sequence, each = TargetInfo (platform in 5 as BE u16, region -1|1) then 0..12 chunks from FHDR v2/v3, APLY, ADIR, DELD, SQPK T/X/I/A/D/E/H/F(AddFile, DeleteFile, RemoveAll, MakeDirTree) over small id/path pools so that commands overlap, then EOF_; AddFile with 0..5 blocks each raw or deflated (stored / several stored pieces / fixed / dynamic / several flushed blocks), one block in sixteen of 15 999..65 535 bytes; a quarter of the whole-file AddFile commands echoed later with a front part of their own content. exhaustive part: all sequences of length <= 2 (183; thorough <= 3: 2380) over a concrete 13-chunk alphabet. far-offsets part: AddData / DeleteData / ExpandData at block offsets 0x01FFFFFF, 0x02000000, 0x02000004, 0x04000010 and AddFile at the same byte offsets on a 640-byte target (sparse result; length, the written range, the old start and samples of the hole are compared by position). Oracle: in-memory file-system model of the reference semantics; after apply returns Ok the real tree is walked: regular files must match exactly (paths and bytes), directories as required <= actual <= allowed. Non-trivial: >= 2 effectful chunks touching one file, or a multi-block AddFile with a deflated block, or a chain of >= 2 patches; distinct by hash of the case.",
        assumptions: &["well-formed domain only: DeleteData after a RemoveAll of the same expansion is emitted as ExpandData; no file/directory name clashes; AddFile size = sum of blocks; block counts >= 1", "ADIR/DELD effects, the MakeDirTree leaf and the directory left behind by RemoveAll are not asserted (Physis documents them as no-ops; statement constrains files)", "no files under movie/<exp> or *.var files are generated (the reference's RemoveAll filter)"],
        pre: None,
        post: None,
        parts: vec![
            Box::new(Part { name: "short-sequences", driver: Driver::Enum(sequences), prop, exhaustive: true }),
            Box::new(Part { name: "far-offsets", driver: Driver::Enum(far_cases), prop: prop_far, exhaustive: true }),
            Box::new(Part { name: "random-chains", driver: Driver::Gen(strategy, 40_000, 640_000), prop, exhaustive: false }),
        ],
    }
}

/// Valid single patches for the robustness checks (C17): patch bytes, initial tree, offset of the EOF_ chunk.
pub fn seed_patches(ctx: &Ctx, n: usize) -> Vec<(String, Vec<u8>, Vec<(String, Vec<u8>)>, usize)> {
    let strat = strategy(ctx);
    let mut out = Vec::new();
    let mut k = 0u64;
    while out.len() < n && k < 200 {
        let c = draw_fixed(&strat, 0xC03_5EED + k);
        k += 1;
        let mut it = Interp { fs: Fs::default(), platform: 0, dir_unknown: BTreeSet::new(), touched: BTreeMap::new(), classes: vec![], multi_block_deflated: false };
        for (p, len, seed) in &c.initial {
            it.fs.files.insert(p.path(), content(*seed, 0, *len as usize, 0));
        }
        for (t, platform, len, seed) in &c.initial_dats {
            let (main, sub, file) = t.ids();
            it.fs.files.insert(dat_path(*platform as usize % 5, main, sub, file), content(*seed, 0, *len as usize, 0));
        }
        let initial: Vec<(String, Vec<u8>)> = it.fs.files.iter().map(|(k, v)| (k.clone(), v.clone())).collect();
        let (platform, korea, chunks) = &c.patches[0];
        // seeds should be small enough for exhaustive sweeps but contain several command kinds
        if chunks.len() < 3 {
            continue;
        }
        let mut bytes = zp::file_header();
        bytes.extend_from_slice(&it.step(&Chunk::Target { platform: *platform, korea: *korea }));
        for ch in chunks {
            bytes.extend_from_slice(&it.step(ch));
        }
        let eof_at = bytes.len();
        bytes.extend_from_slice(&zp::eof());
        if bytes.len() > 6000 {
            continue;
        }
        out.push((format!("gen{}", out.len()), bytes, initial, eof_at));
    }
    out
}

pub fn seed_exps() -> Vec<String> {
    EXPS.iter().map(|e| exp_folder(*e)).collect()
}

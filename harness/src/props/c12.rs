//! C12 — path, shader-key and file hashes equal their standard definitions.
use crate::engine::panics::guard;
use crate::engine::tmp::TmpDir;
use crate::engine::util::{fnv64, hex};
use crate::engine::*;
use crate::oracle::{crc, sha1};
use crate::{ensure, ensure_eq, gen};
use proptest::collection::vec;
use proptest::prelude::*;
use serde::{Deserialize, Serialize};
use serde_json::json;

#[derive(Clone, Debug, Serialize, Deserialize)]
pub struct StrCase {
    pub s: String,
    /// positions (monotone-mapped) whose letter case is flipped for the metamorphic relation
    pub flips: Vec<u16>,
}

fn str_strategy(_: &Ctx) -> BoxedStrategy<StrCase> {
    let s = prop_oneof![
        6 => gen::ascii_any(4096),
        2 => gen::from_alphabet("abcXYZ/._019 -_AbCdEfGhIjKlMnOpQrStUvWxYz", 0, 200),
        1 => gen::from_alphabet("aA", 0, 64),
        // strings that read like something else: number literals of every common spelling, with and without blanks,
        // terminators or suffixes around them (a hash is a function of the bytes, whatever they spell)
        2 => (prop::sample::select(vec!["", "0x", "0X", "#", "0b", "0o", "-", "+", "$", "&H", "g_", "0", " ", "\\x", "%"]), gen::from_alphabet("0123456789abcdefABCDEF", 0, 10), prop::sample::select(vec!["", "", "", " ", "\0", "\n", "h", "u", "f", ".0", "e3", "\r\n"])).prop_map(|(a, b, c)| format!("{}{}{}", a, b, c)),
    ];
    (s, vec(any::<u16>(), 0..8)).prop_map(|(s, flips)| StrCase { s, flips }).boxed()
}

fn flip_case(s: &str, flips: &[u16]) -> String {
    let mut b = s.as_bytes().to_vec();
    let letters: Vec<usize> = (0..b.len()).filter(|&i| b[i].is_ascii_alphabetic()).collect();
    for f in flips {
        if letters.is_empty() {
            break;
        }
        let i = letters[util::pick_idx(*f, letters.len())];
        b[i] ^= 0x20;
    }
    String::from_utf8(b).unwrap()
}

fn prop_path_hash(c: &StrCase, ctx: &Ctx) -> PResult {
    let got = guard("calculate_partial_hash", || physis::sqpack::SqPackIndex::calculate_partial_hash(&c.s))?;
    let want = crc::jamcrc_lower(c.s.as_bytes());
    ensure_eq!(got, want, "path-hash-differs", "partial hash of {:?}", c.s);
    let flipped = flip_case(&c.s, &c.flips);
    let got2 = guard("calculate_partial_hash", || physis::sqpack::SqPackIndex::calculate_partial_hash(&flipped))?;
    ensure_eq!(got2, got, "path-hash-case-sensitive", "hash of case-flipped {:?} vs {:?}", flipped, c.s);
    let has_letter = c.s.bytes().any(|b| b.is_ascii_alphabetic());
    ctx.class(if c.s.len() > 1024 { "path:len>1024" } else if c.s.len() > 64 { "path:len>64" } else { "path:len<=64" });
    if flipped != c.s {
        ctx.class("path:case-flipped");
    }
    if c.s.len() >= 2 && has_letter {
        ctx.nontrivial_hash(fnv64(c.s.as_bytes()) ^ 1);
        if ctx.want_sample() {
            ctx.sample(json!({"part": "path-hash", "input": truncate(&c.s.escape_default().to_string(), 80), "len": c.s.len(), "flipped": truncate(&flipped.escape_default().to_string(), 80), "hash": format!("{:08x}", got)}));
        }
    }
    Ok(())
}

thread_local! {
    /// an empty index and an empty index2 file, parsed once per thread: the receivers of calculate_hash
    static INDEXES: std::cell::RefCell<Option<(physis::sqpack::SqPackIndex, physis::sqpack::SqPackIndex)>> = const { std::cell::RefCell::new(None) };
}

/// The full-path hash (index2) and the folder / file-name pair (index) of the same strings.
fn prop_index_hash(c: &StrCase, ctx: &Ctx) -> PResult {
    use physis::sqpack::Hash;
    let flipped = flip_case(&c.s, &c.flips);
    let r: Result<(Hash, Hash, Hash, Hash), Failure> = INDEXES.with(|cell| {
        let mut slot = cell.borrow_mut();
        if slot.is_none() {
            let dir = TmpDir::new("c12idx");
            let mut made = vec![];
            for index2 in [false, true] {
                let p = dir.join(if index2 { "000000.win32.index2" } else { "000000.win32.index" });
                std::fs::write(&p, crate::build::sqpack::index_file(0, -1, index2, &[], 1, true)).unwrap();
                match guard("SqPackIndex::from_existing", || physis::sqpack::SqPackIndex::from_existing(p.to_str().unwrap()))? {
                    Some(i) => made.push(i),
                    None => return fail("index-rejected", "a well-formed empty index file was rejected"),
                }
            }
            let i2 = made.pop().unwrap();
            let i1 = made.pop().unwrap();
            *slot = Some((i1, i2));
        }
        let (i1, i2) = slot.as_ref().unwrap();
        guard("SqPackIndex::calculate_hash", || (i1.calculate_hash(&c.s), i2.calculate_hash(&c.s), i1.calculate_hash(&flipped), i2.calculate_hash(&flipped)))
    });
    let (h1, h2, f1, f2) = r?;
    match h2 {
        Hash::FullPath(h) => ensure_eq!(h, crc::jamcrc_lower(c.s.as_bytes()), "full-path-hash-differs", "index2 hash of {:?}", c.s),
        other => return fail("full-path-hash-kind", format!("index2 hash of {:?} is {:?}", c.s, other)),
    }
    if let Some(pos) = c.s.rfind('/') {
        match h1 {
            Hash::SplitPath { name, path } => {
                ensure_eq!((path, name), (crc::jamcrc_lower(c.s[..pos].as_bytes()), crc::jamcrc_lower(c.s[pos + 1..].as_bytes())), "split-path-hash-differs", "index (folder, name) hash of {:?}", c.s);
                ctx.class("index-hash:with-folder");
            }
            other => return fail("split-path-hash-kind", format!("index hash of {:?} is {:?}", c.s, other)),
        }
    }
    ensure!(f2 == h2, "full-path-hash-case-sensitive", "index2 hash of case-flipped {:?} = {:?}, of {:?} = {:?}", flipped, f2, c.s, h2);
    ensure!(f1 == h1, "split-path-hash-case-sensitive", "index hash of case-flipped {:?} = {:?}, of {:?} = {:?}", flipped, f1, c.s, h1);
    if flipped != c.s {
        ctx.class("index-hash:case-flipped");
    }
    if c.s.len() >= 2 && c.s.bytes().any(|b| b.is_ascii_alphabetic()) {
        ctx.nontrivial_hash(fnv64(c.s.as_bytes()) ^ 4);
    }
    Ok(())
}

fn prop_shader_crc(c: &StrCase, ctx: &Ctx) -> PResult {
    let got = guard("ShaderPackage::crc", || physis::shpk::ShaderPackage::crc(&c.s))?;
    let want = crc::crc32_init0(c.s.as_bytes());
    ensure_eq!(got, want, "shader-crc-differs", "shader key hash of {:?}", c.s);
    ctx.class(if c.s.len() > 64 { "shader:len>64" } else { "shader:len<=64" });
    if c.s.len() >= 2 && c.s.bytes().any(|b| b.is_ascii_alphabetic()) {
        ctx.nontrivial_hash(fnv64(c.s.as_bytes()) ^ 2);
    }
    Ok(())
}

/// every spelling of a small number literal: prefix x all hex strings of 1..3 digits (both letter cases), plus 8-digit ones
fn literal_enum(_: &Ctx) -> Vec<StrCase> {
    let mut out = vec![];
    for prefix in ["0x", "0X", "#", "", "-", "0b", "0o", "$"] {
        for digits in [&b"0123456789abcdef"[..], &b"0123456789ABCDEF"[..]] {
            for n in 1..=3usize {
                for v in 0..16usize.pow(n as u32) {
                    let body: String = (0..n).rev().map(|k| digits[(v >> (4 * k)) & 15] as char).collect();
                    out.push(StrCase { s: format!("{}{}", prefix, body), flips: vec![] });
                }
            }
            for v in [0u32, 1, 0xffff_ffff, 0x8000_0000, 0x7fff_ffff, 0xdead_beef, 0x0012_3456, 0xedb8_8320, 0x04c1_1db7] {
                let body: String = (0..8).rev().map(|k| digits[((v >> (4 * k)) & 15) as usize] as char).collect();
                out.push(StrCase { s: format!("{}{}", prefix, body), flips: vec![] });
                out.push(StrCase { s: format!("{}{:x}", prefix, v), flips: vec![] });
                out.push(StrCase { s: format!("{}{}", prefix, v), flips: vec![] });
            }
        }
    }
    out
}

/// A batch of files, each described by (length, fill seed); contents are a deterministic function of both.
#[derive(Clone, Debug, Serialize, Deserialize)]
pub struct FilesCase {
    pub files: Vec<(u32, u64)>,
}

pub fn file_content(len: u32, seed: u64) -> Vec<u8> {
    let mut out = Vec::with_capacity(len as usize);
    let mut x = util::splitmix64(seed);
    while out.len() < len as usize {
        x = util::splitmix64(x);
        let b = x.to_le_bytes();
        let n = (len as usize - out.len()).min(8);
        out.extend_from_slice(&b[..n]);
    }
    out
}

fn sha_len_strategy(max: u32) -> BoxedStrategy<u32> {
    // every padding boundary: 55/56/63/64/119/120 mod 64, plus arbitrary lengths
    let blocks = max / 64;
    prop_oneof![
        3 => (0..=blocks.max(1) - 1, prop::sample::select(vec![55u32, 56, 57, 63, 64, 65, 119, 120, 0, 1])).prop_map(|(b, r)| b * 64 + r),
        2 => 0..=max.min(1000),
        1 => 0..=max,
    ]
    .boxed()
}

fn sha_strategy(ctx: &Ctx) -> BoxedStrategy<FilesCase> {
    let max = ctx.tier.pick(256 * 1024, 4 * 1024 * 1024);
    vec((sha_len_strategy(max), any::<u64>()), 1..6).prop_map(|files| FilesCase { files }).boxed()
}

fn sha_enum(ctx: &Ctx) -> Vec<FilesCase> {
    // every length 0..=300 (quick) / 0..=1100 (thorough), in batches of 20 files
    let top = ctx.tier.pick(300u32, 1100u32);
    let lens: Vec<u32> = (0..=top).collect();
    lens.chunks(20).map(|c| FilesCase { files: c.iter().map(|&l| (l, 0xC12 + l as u64)).collect() }).collect()
}

fn prop_sha1(c: &FilesCase, ctx: &Ctx) -> PResult {
    let dir = TmpDir::new("c12");
    let mut paths = vec![];
    let mut contents = vec![];
    for (i, (len, seed)) in c.files.iter().enumerate() {
        // a quarter of the later files carry the base name of the first one, in a folder of their own: an entry
        // describes the file at its path, whatever other files of the batch are called
        let p = if i > 0 && (*seed >> 8) % 4 == 0 {
            let sub = dir.join(format!("sub{}", i));
            std::fs::create_dir_all(&sub).map_err(|e| Failure { slug: "harness-io".into(), msg: e.to_string() })?;
            ctx.class("sha1:same-base-name-in-another-folder");
            sub.join("f000.bin")
        } else {
            dir.join(format!("f{:03}.bin", i))
        };
        let data = file_content(*len, *seed);
        std::fs::write(&p, &data).map_err(|e| Failure { slug: "harness-io".into(), msg: e.to_string() })?;
        paths.push(p.to_str().unwrap().to_string());
        contents.push(data);
    }
    let refs: Vec<&str> = paths.iter().map(|s| s.as_str()).collect();
    let fi = guard("FileInfo::new", || physis::fiin::FileInfo::new(&refs))?;
    let fi = match fi {
        Some(f) => f,
        None => return fail("fileinfo-none", "FileInfo::new returned None for readable files"),
    };
    ensure_eq!(fi.entries.len(), c.files.len(), "fileinfo-count", "entry count");
    for (i, e) in fi.entries.iter().enumerate() {
        let want = sha1::sha1(&contents[i]);
        ensure!(e.sha1.len() >= 20 && e.sha1[..20] == want && e.sha1[20..].iter().all(|b| *b == 0), "sha1-differs", "digest of {}-byte file: physis={} expected={}", contents[i].len(), hex(&e.sha1), hex(&want));
        ensure_eq!(e.file_size as i64, contents[i].len() as i64, "fileinfo-size", "file size");
        ctx.eval();
        let l = contents[i].len();
        ctx.class(match l % 64 {
            55 => "sha1:len%64=55",
            56 => "sha1:len%64=56",
            63 => "sha1:len%64=63",
            0 => "sha1:len%64=0",
            _ => "sha1:len%64=other",
        });
        if l > 65536 {
            ctx.class("sha1:len>64KiB");
        }
        if l >= 56 {
            ctx.nontrivial_hash(fnv64(&contents[i]) ^ 3);
            if ctx.want_sample() && i == 0 {
                ctx.sample(json!({"part": "sha1", "len": l, "content_prefix": util::hex_trunc(&contents[i], 16), "digest": hex(&want)}));
            }
        }
    }
    Ok(())
}

pub fn property() -> Property {
    Property {
        id: "C12",
        rule: "path-hash / shader-crc: ASCII strings (all 128 code points, both cases, length 0..4096) generated by proptest and compared with a bit-at-a-time CRC (one string in eleven spells a number literal - 0x.., #.., 0b.., signs, suffixes, terminators - and every such spelling of 1..3 hex digits is enumerated); letter-case flips must not change the path hash; the same for the path hashes an index (folder / file-name pair) and an index2 (full path) object computes with calculate_hash. sha1: files of every length 0..300 (0..1100 thorough) enumerated, plus random batches with lengths forced onto every padding boundary (55/56/63/64/119/120 mod 64) up to 256 KiB (4 MiB thorough), hashed through FileInfo::new and compared with a straight FIPS 180-4 implementation. Non-trivial: CRC input of length >= 2 containing a letter; SHA-1 input of length >= 56 (needs length padding to spill into a second block). Distinct by content hash.",
        assumptions: &["own CRC and SHA-1 validated against published check values at start-up", "Unicode lower-casing equals ASCII lower-casing on the ASCII inputs generated"],
        pre: None,
        post: None,
        parts: vec![
            Box::new(Part { name: "path-hash", driver: Driver::Gen(str_strategy, 1_200_000, 9_600_000), prop: prop_path_hash, exhaustive: false }),
            Box::new(Part { name: "index-hash", driver: Driver::Gen(str_strategy, 600_000, 4_800_000), prop: prop_index_hash, exhaustive: false }),
            Box::new(Part { name: "shader-crc", driver: Driver::Gen(str_strategy, 600_000, 4_800_000), prop: prop_shader_crc, exhaustive: false }),
            Box::new(Part { name: "shader-crc-literals", driver: Driver::Enum(literal_enum), prop: prop_shader_crc, exhaustive: true }),
            Box::new(Part { name: "path-hash-literals", driver: Driver::Enum(literal_enum), prop: prop_path_hash, exhaustive: true }),
            Box::new(Part { name: "sha1-every-length", driver: Driver::Enum(sha_enum), prop: prop_sha1, exhaustive: true }),
            Box::new(Part { name: "sha1-random", driver: Driver::Gen(sha_strategy, 4_500, 36_000), prop: prop_sha1, exhaustive: false }),
        ],
    }
}

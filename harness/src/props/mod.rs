use crate::engine::Property;

pub mod c01;
pub mod c02;
pub mod c03;
pub mod c04;
pub mod c05;
pub mod c06;
pub mod c07;
pub mod c08;
pub mod c09;
pub mod c10;
pub mod c11;
pub mod c12;
pub mod c13;
pub mod c14;
pub mod c15;

pub mod c16;
pub mod c17;
pub mod c18;
pub mod entries;
pub mod entries18;
pub mod mutate;
pub mod robust;

pub fn all() -> Vec<Property> {
    vec![c01::property(), c02::property(), c03::property(), c04::property(), c05::property(), c06::property(), c07::property(), c08::property(), c09::property(), c10::property(), c11::property(), c12::property(), c13::property(), c14::property(), c15::property(), c16::property(), c17::property(), c18::property()]
}

pub fn extra_command(cmd: &str, _args: &[String]) -> Option<i32> {
    match cmd {
        // development aid: show what Physis makes of the hand-built C18 seeds
        "debug-seeds" => {
            let reg = c18::registry();
            if let Some(s) = reg.get("dic", "words") {
                println!("dic words: {:?}", physis::dic::Dictionary::from_existing(s.bytes()).map(|d| d.words));
            }
            if let Some(s) = reg.get("lgb", "objects") {
                let g = physis::layer::LayerGroup::from_existing(s.bytes());
                println!("lgb: {:?}", g.map(|g| g.chunks.iter().map(|c| (c.name.clone(), c.layers.iter().map(|l| l.objects.iter().map(|o| format!("{:?}", o.data).chars().take(40).collect::<String>()).collect::<Vec<_>>()).collect::<Vec<_>>())).collect::<Vec<_>>()));
            }
            if let Some(s) = reg.get("avfx", "values") {
                println!("avfx: {}", physis::avfx::Avfx::from_existing(s.bytes()).map(|a| format!("{:?}", a).chars().take(300).collect::<String>()).unwrap_or_default());
            }
            if let Some(s) = reg.get("sqdb", "three") {
                println!("sqdb: {}", physis::sqpack::SqPackDatabase::from_existing(s.bytes()).map(|a| format!("{:?}", a).len()).unwrap_or(0));
            }
            for s in reg.seeds.iter() {
                println!("seed {}/{}: {} bytes", s.entry, s.name, s.bytes().len());
            }
            Some(0)
        }
        // writes the valid seed files of C17/C18 as a starting corpus for the libFuzzer side campaign:
        // <dir>/<target>/<entry>-<name> with the selector byte the fuzz target expects in front
        "dump-seeds" => {
            let dir = std::path::PathBuf::from(_args.first().cloned().unwrap_or_else(|| "fuzz/corpus".into()));
            let user = ["cfg", "exl", "fiin", "chardat", "gearsets", "log", "patchlist-boot", "patchlist-game"];
            let assets = ["mdl", "mtrl", "shpk", "tex", "exh", "exd", "pbd", "cmp", "tera", "stm", "dic", "lgb", "avfx", "uld", "sgb", "scd", "hwc", "iwc", "tmb", "skp", "schd", "phyb", "pap", "sqdb"];
            let mut n = 0;
            let mut put = |target: &str, name: String, sel: u8, body: Vec<u8>| {
                let d = dir.join(target);
                let _ = std::fs::create_dir_all(&d);
                let mut b = vec![sel];
                b.extend_from_slice(&body);
                let _ = std::fs::write(d.join(name.replace('/', "_")), b);
                n += 1;
            };
            for s in c17::registry().seeds.iter() {
                if let Some(i) = user.iter().position(|e| *e == s.entry) {
                    put("user_files", format!("{}-{}", s.entry, s.name), i as u8, s.bytes().to_vec());
                }
                if s.entry == "zipatch" {
                    put("archive", format!("zipatch-{}", s.name), 2, s.bytes().to_vec());
                }
            }
            for s in c18::registry().seeds.iter() {
                if s.bytes().len() > 200_000 {
                    continue;
                }
                if s.entry == "exd" {
                    if s.target == 1 {
                        let mut b = (s.args[0].len() as u16).to_le_bytes().to_vec();
                        b.extend_from_slice(&s.args[0]);
                        b.extend_from_slice(&s.args[1]);
                        put("assets", format!("exd-{}", s.name), 5, b);
                    }
                    continue;
                }
                if let Some(i) = assets.iter().position(|e| *e == s.entry) {
                    put("assets", format!("{}-{}", s.entry, s.name), i as u8, s.bytes().to_vec());
                }
                if s.entry == "index" {
                    put("archive", format!("index-{}", s.name), 0, s.bytes().to_vec());
                }
                if s.entry == "dat" {
                    put("archive", format!("dat-{}", s.name), 1, s.bytes().to_vec());
                }
            }
            println!("{} seed files written under {}", n, dir.display());
            Some(0)
        }
        _ => None,
    }
}

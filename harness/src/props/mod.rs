use crate::engine::Property;

pub mod c01;
pub mod c02;
pub mod c03;
pub mod c04;
pub mod c05;
pub mod c06;
pub mod c07;
pub mod c08;
pub mod c09;
pub mod c10;
pub mod c11;
pub mod c12;
pub mod c13;
pub mod c14;
pub mod c15;

pub mod c16;
pub mod c17;
pub mod c18;
pub mod entries;
pub mod entries18;
pub mod mutate;
pub mod robust;

pub fn all() -> Vec<Property> {
    vec![c01::property(), c02::property(), c03::property(), c04::property(), c05::property(), c06::property(), c07::property(), c08::property(), c09::property(), c10::property(), c11::property(), c12::property(), c13::property(), c14::property(), c15::property(), c16::property(), c17::property(), c18::property()]
}

pub fn extra_command(cmd: &str, _args: &[String]) -> Option<i32> {
    match cmd {
        // development aid: show what Physis makes of the hand-built C18 seeds
        "debug-seeds" => {
            let reg = c18::registry();
            if let Some(s) = reg.get("dic", "words") {
                println!("dic words: {:?}", physis::dic::Dictionary::from_existing(s.bytes()).map(|d| d.words));
            }
            if let Some(s) = reg.get("lgb", "objects") {
                let g = physis::layer::LayerGroup::from_existing(s.bytes());
                println!("lgb: {:?}", g.map(|g| g.chunks.iter().map(|c| (c.name.clone(), c.layers.iter().map(|l| l.objects.iter().map(|o| format!("{:?}", o.data).chars().take(40).collect::<String>()).collect::<Vec<_>>()).collect::<Vec<_>>())).collect::<Vec<_>>()));
            }
            if let Some(s) = reg.get("avfx", "values") {
                println!("avfx: {}", physis::avfx::Avfx::from_existing(s.bytes()).map(|a| format!("{:?}", a).chars().take(300).collect::<String>()).unwrap_or_default());
            }
            if let Some(s) = reg.get("sqdb", "three") {
                println!("sqdb: {}", physis::sqpack::SqPackDatabase::from_existing(s.bytes()).map(|a| format!("{:?}", a).len()).unwrap_or(0));
            }
            for s in reg.seeds.iter() {
                println!("seed {}/{}: {} bytes", s.entry, s.name, s.bytes().len());
            }
            Some(0)
        }
        _ => None,
    }
}

use crate::engine::Property;

pub mod c01;
pub mod c02;
pub mod c03;
pub mod c04;
pub mod c05;
pub mod c06;
pub mod c07;
pub mod c08;
pub mod c09;
pub mod c10;
pub mod c11;
pub mod c12;
pub mod c13;
pub mod c14;
pub mod c15;

pub mod c16;
pub mod c17;
pub mod entries;
pub mod entries18;
pub mod mutate;
pub mod robust;

pub fn all() -> Vec<Property> {
    vec![c01::property(), c02::property(), c03::property(), c04::property(), c05::property(), c06::property(), c07::property(), c08::property(), c09::property(), c10::property(), c11::property(), c12::property(), c13::property(), c14::property(), c15::property(), c16::property(), c17::property()]
}

pub fn extra_command(_cmd: &str, _args: &[String]) -> Option<i32> {
    None
}

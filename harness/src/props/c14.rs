//! C14 — materials and shader packages decode to what their files store.
use crate::build::material::*;
use crate::engine::panics::guard;
use crate::engine::*;
use crate::oracle::half::half_to_f32;
use crate::props::c06::feq;
use crate::{ensure, ensure_eq, gen};
use physis::mtrl::{ColorDyeTable, ColorTable, Material};
use physis::shpk::ShaderPackage;
use proptest::collection::vec;
use proptest::prelude::*;
use serde_json::json;

/// Extract `name: value` from a derived Debug rendering (value ends at the next top-level ", " or " }").
pub fn dbg_field<'a>(s: &'a str, name: &str) -> Option<&'a str> {
    let key = format!("{}: ", name);
    let mut from = 0;
    loop {
        let i = s[from..].find(&key)? + from;
        // must be at a field boundary
        if i == 0 || s[..i].ends_with("{ ") || s[..i].ends_with(", ") || s[..i].ends_with('(') {
            let rest = &s[i + key.len()..];
            let mut depth = 0i32;
            for (k, ch) in rest.char_indices() {
                match ch {
                    '[' | '{' | '(' => depth += 1,
                    ']' | ')' => depth -= 1,
                    '}' => {
                        if depth == 0 {
                            return Some(rest[..k].trim_end());
                        }
                        depth -= 1;
                    }
                    ',' if depth == 0 => return Some(&rest[..k]),
                    _ => {}
                }
            }
            return Some(rest);
        }
        from = i + key.len();
    }
}

fn path_name() -> BoxedStrategy<String> {
    prop_oneof![
        4 => gen::from_alphabet("abcdefghijklmnopqrstuvwxyz0123456789_/.", 1, 40),
        1 => Just("chara/equipment/e0038/texture/v01_c0201e0038_top_n.tex".to_string()),
        1 => gen::from_alphabet("aB_", 0, 3),
        // shapes of real entries: the placeholder texture, the Dawntrail "--" prefix, shader package names, equal paths twice
        1 => prop::sample::select(vec!["dummy.tex", "--chara/equipment/e0038/texture/v01_c0201e0038_top_m.tex", "character.shpk", "characterlegacy.shpk", "bg/ffxiv/sea_s1/twn/common/texture/s1t0_a0_flor1_d.tex", "common/graphics/texture/-fresnel.tex", ".tex", "a.tex", "a.tex"]).prop_map(|s| s.to_string()),
        // path bytes outside ASCII (mod folders): how such a path itself decodes is not pinned by the statement,
        // but the paths stored after it must still be found where they are
        1 => gen::from_alphabet("abc/_.é日ßΩ", 1, 12),
    ]
    .boxed()
}

fn finite_float_bits() -> BoxedStrategy<u32> {
    prop_oneof![3 => any::<u32>().prop_map(|b| if b & 0x7F80_0000 == 0x7F80_0000 { b & !0x0080_0000 } else { b }), 1 => prop::sample::select(vec![0u32, 0x8000_0000, 0x3F80_0000, 0x0000_0001, 0x7F7F_FFFF, 0xBF00_0000])].boxed()
}

fn mtrl_strategy(_: &Ctx) -> BoxedStrategy<MtrlSpec> {
    (
        (any::<u32>(), path_name(), vec(path_name(), 0..=6), vec(any::<(u16, u16)>(), 0..3), vec(any::<(u16, u16)>(), 0..3), vec(path_name(), 0..3)),
        (prop_oneof![8 => 0u8..4, 2 => Just(4u8), 1 => 5u8..7], any::<bool>(), any::<u64>(), 0u8..6, any::<u32>()),
        (vec(any::<(u32, u32)>(), 0..=8), vec((any::<u32>(), vec(finite_float_bits(), 1..=4)), 0..=8), vec((0u8..22, any::<u32>(), any::<u8>(), any::<[u8; 3]>()), 0..=6), any::<u32>(), 0u8..3),
    )
        .prop_map(|((version, shader_package, textures, uv_sets, color_sets, extra_strings), (table, dye, seed, additional_extra, flag_noise), (keys, constants, samplers, header_flags, value_gap))| {
            let rows = table_rows(table);
            let dye_rows = match table {
                4 | 6 => 32,
                5 => 16,
                _ => rows,
            };
            let raw = crate::build::mdl::random_bytes(seed, rows * rows * 2 + dye_rows * 4);
            let table_halves: Vec<u16> = (0..rows * rows).map(|i| u16::from_le_bytes([raw[2 * i], raw[2 * i + 1]])).collect();
            let dye_words: Vec<u32> = (0..dye_rows).map(|i| u32::from_le_bytes(raw[rows * rows * 2 + 4 * i..rows * rows * 2 + 4 * i + 4].try_into().unwrap())).collect();
            MtrlSpec { version, shader_package, textures, uv_sets, color_sets, extra_strings, table, dye: (dye && table != 2 && table != 0) || table >= 4, table_halves, dye_words, additional_extra, flag_noise, keys, constants, samplers, header_flags, value_gap }
        })
        .boxed()
}

fn h(x: u16) -> f32 {
    half_to_f32(x)
}

fn eq3(got: &[f32; 3], hs: &[u16], what: &str, row: usize) -> PResult {
    for k in 0..3 {
        if !feq(got[k], h(hs[k])) {
            return fail(&format!("color-table/{}", what), format!("row {} {} component {}: physis={:?} stored halves {:04x?} = {:?}", row, what, k, got, &hs[..3], [h(hs[0]), h(hs[1]), h(hs[2])]));
        }
    }
    Ok(())
}
fn eq2(got: &[f32; 2], hs: &[u16], what: &str, row: usize) -> PResult {
    for k in 0..2 {
        if !feq(got[k], h(hs[k])) {
            return fail(&format!("color-table/{}", what), format!("row {} {} component {}: physis={:?} stored halves {:04x?} = {:?}", row, what, k, got, &hs[..2], [h(hs[0]), h(hs[1])]));
        }
    }
    Ok(())
}
fn eq1(got: f32, hv: u16, what: &str, row: usize) -> PResult {
    if !feq(got, h(hv)) {
        return fail(&format!("color-table/{}", what), format!("row {} {}: physis={} stored half {:04x} = {}", row, what, got, hv, h(hv)));
    }
    Ok(())
}

fn prop_mtrl(m: &MtrlSpec, ctx: &Ctx) -> PResult {
    let bytes = encode_mtrl(m);
    let mat = match guard("Material::from_existing", || Material::from_existing(&bytes))? {
        Some(x) => x,
        None => return fail("material-rejected", "from_existing returned None for a well-formed material"),
    };
    if m.shader_package.is_ascii() {
        ensure_eq!(&mat.shader_package_name, &m.shader_package, "shader-package-name", "shader package name");
    }
    // ASCII paths must be returned exactly; a path with bytes >= 0x80 only has to occupy its place in the list
    ensure_eq!(mat.texture_paths.len(), m.textures.len(), "texture-paths", "number of texture paths");
    for (i, (got, want)) in mat.texture_paths.iter().zip(&m.textures).enumerate() {
        if want.is_ascii() {
            ensure_eq!(got, want, "texture-paths", "texture path {} of {:?}", i, m.textures);
        } else {
            ctx.class("mtrl:non-ascii-path");
            if i + 1 < m.textures.len() {
                ctx.class("mtrl:non-ascii-path-followed-by-another");
            }
        }
    }
    ensure_eq!(mat.shader_keys.iter().map(|k| (k.category, k.value)).collect::<Vec<_>>(), m.keys, "shader-keys", "shader keys");
    ensure_eq!(mat.constants.len(), m.constants.len(), "constant-count", "number of constants");
    for (i, (c, (id, vals))) in mat.constants.iter().zip(&m.constants).enumerate() {
        let d = format!("{:?}", c);
        let gid: u32 = dbg_field(&d, "id").and_then(|x| x.parse().ok()).ok_or_else(|| Failure { slug: "debug-format".into(), msg: d.clone() })?;
        let gn: u32 = dbg_field(&d, "num_values").and_then(|x| x.parse().ok()).ok_or_else(|| Failure { slug: "debug-format".into(), msg: d.clone() })?;
        let gv: Vec<f32> = dbg_field(&d, "values").map(|x| x.trim_matches(|c| c == '[' || c == ']').split(", ").filter_map(|t| t.parse::<f32>().ok()).collect()).unwrap_or_default();
        ensure_eq!(gid, *id, "constant-id", "constant {} id", i);
        ensure_eq!(gn as usize, vals.len(), "constant-num-values", "constant {} value count", i);
        ensure_eq!(gv.len(), 4, "debug-format", "constant values array in {:?}", d);
        for k in 0..4 {
            let want = if k < vals.len() { f32::from_bits(vals[k]) } else { 0.0 };
            if !feq(gv[k], want) {
                return fail("constant-values", format!("constant {} (id {:#x}) value {}: physis={:?} stored={:?} (all stored {:?})", i, id, k, gv, want, vals.iter().map(|b| f32::from_bits(*b)).collect::<Vec<_>>()));
            }
        }
    }
    ensure_eq!(mat.samplers.len(), m.samplers.len(), "sampler-count", "number of samplers");
    for (i, (s, (u, f, t, unk))) in mat.samplers.iter().zip(&m.samplers).enumerate() {
        let d = format!("{:?}", s);
        let field = |n: &str| dbg_field(&d, n).map(|x| x.to_string()).unwrap_or_default();
        ensure_eq!(field("texture_usage"), SAMPLER_USAGES[*u as usize % 22].1, "sampler-usage", "sampler {} usage", i);
        ensure_eq!(field("flags"), f.to_string(), "sampler-flags", "sampler {} flags", i);
        ensure_eq!(field("texture_index"), t.to_string(), "sampler-texture-index", "sampler {} texture index", i);
        ensure_eq!((field("unknown1"), field("unknown2"), field("unknown3")), (unk[0].to_string(), unk[1].to_string(), unk[2].to_string()), "sampler-unknown", "sampler {} trailing bytes", i);
    }
    // colour table
    match (&mat.color_table, m.table) {
        (None, 0 | 5 | 6) => {}
        (Some(ColorTable::LegacyColorTable(t)), 1 | 2) => {
            ensure_eq!(t.rows.len(), 16, "color-table-rows", "legacy row count");
            for (r, row) in t.rows.iter().enumerate() {
                let hs = &m.table_halves[16 * r..16 * r + 16];
                eq3(&row.diffuse_color, &hs[0..], "diffuse_color", r)?;
                eq1(row.specular_strength, hs[3], "specular_strength", r)?;
                eq3(&row.specular_color, &hs[4..], "specular_color", r)?;
                eq1(row.gloss_strength, hs[7], "gloss_strength", r)?;
                eq3(&row.emissive_color, &hs[8..], "emissive_color", r)?;
                ensure_eq!(row.tile_set, hs[11], "color-table/tile_set", "row {} tile set", r);
                eq2(&row.material_repeat, &hs[12..], "material_repeat", r)?;
                eq2(&row.material_skew, &hs[14..], "material_skew", r)?;
            }
        }
        (Some(ColorTable::DawntrailColorTable(t)), 3) => {
            ensure_eq!(t.rows.len(), 32, "color-table-rows", "Dawntrail row count");
            for (r, row) in t.rows.iter().enumerate() {
                let hs = &m.table_halves[32 * r..32 * r + 32];
                eq3(&row.diffuse_color, &hs[0..], "diffuse_color", r)?;
                eq1(row.unknown1, hs[3], "unknown1", r)?;
                eq3(&row.specular_color, &hs[4..], "specular_color", r)?;
                eq1(row.unknown2, hs[7], "unknown2", r)?;
                eq3(&row.emissive_color, &hs[8..], "emissive_color", r)?;
                eq1(row.unknown3, hs[11], "unknown3", r)?;
                for (k, (v, n)) in [(row.sheen_rate, "sheen_rate"), (row.sheen_tint, "sheen_tint"), (row.sheen_aperture, "sheen_aperture"), (row.unknown4, "unknown4"), (row.roughness, "roughness"), (row.unknown5, "unknown5"), (row.metalness, "metalness"), (row.anisotropy, "anisotropy"), (row.unknown6, "unknown6"), (row.sphere_mask, "sphere_mask"), (row.unknown7, "unknown7"), (row.unknown8, "unknown8")].iter().enumerate() {
                    eq1(*v, hs[12 + k], n, r)?;
                }
                ensure_eq!((row.shader_index, row.tile_set, row.sphere_index), (hs[24], hs[25], hs[27]), "color-table/indices", "row {} shader index / tile set / sphere index", r);
                eq1(row.tile_alpha, hs[26], "tile_alpha", r)?;
                eq2(&row.material_repeat, &hs[28..], "material_repeat", r)?;
                eq2(&row.material_skew, &hs[30..], "material_skew", r)?;
            }
        }
        (Some(ColorTable::OpaqueColorTable(_)), 4) => {}
        (got, want) => return fail("color-table-kind", format!("colour table kind: physis={:?} stored kind {}", got.as_ref().map(|g| format!("{:?}", g).chars().take(24).collect::<String>()), want)),
    }
    match (&mat.color_dye_table, m.dye, m.table) {
        (None, false, _) => {}
        (Some(ColorDyeTable::LegacyColorDyeTable(t)), true, 1 | 5) => {
            ensure_eq!(t.rows.len(), 16, "dye-table-rows", "legacy dye rows");
            for (r, row) in t.rows.iter().enumerate() {
                let d = m.dye_words[r] as u16;
                ensure_eq!((row.template, row.diffuse, row.specular, row.emissive, row.gloss, row.specular_strength), (d >> 5, d & 1 != 0, d & 2 != 0, d & 4 != 0, d & 8 != 0, d & 16 != 0), "dye-table-row", "legacy dye row {} from word {:#06x}", r, d);
            }
        }
        (Some(ColorDyeTable::DawntrailColorDyeTable(t)), true, 3 | 4 | 6) => {
            ensure_eq!(t.rows.len(), 32, "dye-table-rows", "Dawntrail dye rows");
            for (r, row) in t.rows.iter().enumerate() {
                let d = m.dye_words[r];
                let bit = |b: u32| d & (1 << b) != 0;
                ensure_eq!((row.template, row.channel), (((d >> 16) & 0x7FF) as u16, ((d >> 27) & 3) as u8), "dye-table-row", "Dawntrail dye row {} template/channel from {:#010x}", r, d);
                ensure_eq!([row.diffuse, row.specular, row.emissive, row.scalar3, row.metalness, row.roughness, row.sheen_rate, row.sheen_tint_rate, row.sheen_aperture, row.anisotropy, row.sphere_map_index, row.sphere_map_mask], [bit(0), bit(1), bit(2), bit(3), bit(4), bit(5), bit(6), bit(7), bit(8), bit(9), bit(10), bit(11)], "dye-table-row", "Dawntrail dye row {} flags from {:#010x}", r, d);
            }
        }
        (got, dye, table) => return fail("dye-table-kind", format!("dye table: physis={:?}, stored dye={} table kind {}", got.as_ref().map(|g| format!("{:?}", g).chars().take(24).collect::<String>()), dye, table)),
    }
    ctx.classf(format!("mtrl:table:{}", ["none", "legacy-dims0", "legacy-0x42", "dawntrail", "opaque-0x5X-with-dye", "dye-table-only-legacy", "dye-table-only-dawntrail"][m.table as usize]));
    if m.table == 4 {
        ctx.classf(format!("mtrl:dims:{:#04x}", 0x50 | opaque_dims_nibble(m.flag_noise)));
    }
    if m.dye {
        ctx.class("mtrl:dye-table");
    }
    ctx.classf(format!("mtrl:textures:{}", m.textures.len()));
    for (_, v) in &m.constants {
        ctx.classf(format!("mtrl:constant-floats:{}", v.len()));
    }
    if m.table != 0 {
        let rows = table_rows(m.table);
        let mut first: Vec<u16> = m.table_halves[..rows].to_vec();
        first.sort();
        first.dedup();
        if first.len() == rows {
            ctx.nontrivial(&bytes);
            if ctx.want_sample() {
                ctx.sample(json!({"kind": "material", "shader_package": m.shader_package, "textures": m.textures, "table": m.table, "dye": m.dye, "keys": m.keys.len(), "constants": m.constants.len(), "samplers": m.samplers.len(), "file_len": bytes.len(), "row0_halves": m.table_halves[..rows].iter().map(|x| format!("{:04x}", x)).collect::<Vec<_>>()}));
            }
        }
    }
    Ok(())
}

// ------------------------------------------------------------------------------------------------

fn param() -> BoxedStrategy<ParamSpec> {
    (any::<u32>(), prop_oneof![3 => gen::from_alphabet("abcdefghijklmnopqrstuvwxyzABCDEFGHIJKLMNOPQRSTUVWXYZ0123456789_", 1, 24), 1 => Just("g_SamplerDiffuse".to_string())], any::<u16>(), any::<u16>(), any::<u16>()).prop_map(|(id, name, unknown, slot, size)| ParamSpec { id, name, unknown, slot, size }).boxed()
}

fn shader(vertex: bool) -> BoxedStrategy<ShaderSpec> {
    let len = if vertex { prop_oneof![1 => Just(8u16), 3 => 8u16..200].boxed() } else { prop_oneof![1 => Just(0u16), 3 => 0u16..200].boxed() };
    (vec(param(), 0..=4), vec(param(), 0..=4), vec(param(), 0..=2), vec(param(), 0..=4), any::<u64>(), len).prop_map(|(scalars, resources, uavs, textures, blob_seed, blob_len)| ShaderSpec { scalars, resources, uavs, textures, blob_seed, blob_len }).boxed()
}

fn shpk_strategy(_: &Ctx) -> BoxedStrategy<ShpkSpec> {
    let key = || any::<(u32, u32)>();
    (
        (any::<u32>(), any::<bool>(), vec(shader(true), 0..=4), vec(shader(false), 0..=4)),
        (vec(any::<(u32, u16, u16)>(), 0..=6), 0u32..64, prop::option::of(vec(any::<u32>(), 0..16)), vec(param(), 0..3), vec(param(), 0..3), vec(param(), 0..3), vec(param(), 0..2)),
        (vec(key(), 0..4), vec(key(), 0..4), vec(key(), 0..4), any::<(u32, u32)>()),
        (vec((any::<u32>(), any::<[u8; 16]>(), vec(any::<u32>(), 4), vec(any::<u32>(), 4), vec(any::<u32>(), 4), any::<[u32; 2]>(), vec(any::<(u32, u32, u32)>(), 0..=16)), 0..=8), vec(any::<(u32, u16)>(), 0..=6), prop_oneof![2 => Just(0u16), 1 => 0u16..64, 1 => 600u16..2000], any::<bool>()),
    )
        .prop_map(|((version, dx11, vertex, pixel), (material_params, mps, defaults, scalars, samplers, textures, uavs), (system_keys, scene_keys, material_keys, subview_defaults), (nodes, aliases, trailing, dedup_names))| {
            let mut nodes: Vec<NodeSpec> = nodes
                .into_iter()
                .map(|(selector, pass_indices, sk, ck, mk, subview_keys, passes)| NodeSpec { selector, pass_indices, system_keys: sk[..system_keys.len()].to_vec(), scene_keys: ck[..scene_keys.len()].to_vec(), material_keys: mk[..material_keys.len()].to_vec(), subview_keys, passes })
                .collect();
            // one selector in sixteen is a value that reads like "nothing": 0 (the selector of an all-zero key set), 1, all ones, top bit
            let marker = |x: u32| if x % 16 == 0 { [0u32, 1, u32::MAX, 0x8000_0000][(x >> 4) as usize % 4] } else { x };
            for n in nodes.iter_mut() {
                n.selector = marker(n.selector);
            }
            let aliases: Vec<(u32, u16)> = aliases.into_iter().map(|(s, i)| (marker(s), i)).collect();
            // selectors unique across nodes and aliases
            let mut seen = std::collections::HashSet::new();
            nodes.retain(|n| seen.insert(n.selector));
            let n = nodes.len() as u32;
            let aliases: Vec<(u32, u32)> = if n == 0 { vec![] } else { aliases.into_iter().filter(|a| seen.insert(a.0)).map(|(s, i)| (s, i as u32 % n)).collect() };
            ShpkSpec { version, dx11, vertex, pixel, material_params, material_params_size: mps * 4, defaults, scalars, samplers, textures, uavs, system_keys, scene_keys, material_keys, subview_defaults, nodes, aliases, trailing, dedup_names }
        })
        .boxed()
}

fn check_params(got: &[physis::shpk::ResourceParameter], want: &[ParamSpec], what: &str) -> PResult {
    ensure_eq!(got.len(), want.len(), "parameter-count", "{}: number of parameters", what);
    for (i, (g, w)) in got.iter().zip(want).enumerate() {
        ensure_eq!(&g.name, &w.name, "parameter-name", "{} parameter {} name", what, i);
        ensure_eq!(g.slot, w.slot, "parameter-slot", "{} parameter {} slot", what, i);
        let d = format!("{:?}", g);
        ensure_eq!(dbg_field(&d, "id").map(|x| x.to_string()), Some(w.id.to_string()), "parameter-id", "{} parameter {} id", what, i);
        ensure_eq!(dbg_field(&d, "size").map(|x| x.to_string()), Some(w.size.to_string()), "parameter-size", "{} parameter {} size", what, i);
    }
    Ok(())
}

fn pow31(i: usize) -> u128 {
    let mut p: u128 = 1;
    for _ in 0..i {
        p = (p * 31) % (1u128 << 32);
    }
    p
}

fn ref_selector(keys: &[u32]) -> u32 {
    let mut s: u128 = 0;
    for (i, k) in keys.iter().enumerate() {
        s = (s + (*k as u128) * pow31(i)) % (1u128 << 32);
    }
    s as u32
}

fn prop_shpk(s: &ShpkSpec, ctx: &Ctx) -> PResult {
    let bytes = encode_shpk(s);
    // a vertex shader's bytecode read extends 8 bytes past its blob: make sure the file has them (see ledger)
    let mut bytes = bytes;
    if !s.vertex.is_empty() {
        bytes.extend_from_slice(&[0xAB; 8]);
    }
    let pk = match guard("ShaderPackage::from_existing", || ShaderPackage::from_existing(&bytes)).map_err(|mut f| {
        if !s.vertex.is_empty() {
            f.slug = format!("{}/package-with-vertex-shader", f.slug);
        }
        f
    })? {
        Some(p) => p,
        None => {
            return fail(if !s.vertex.is_empty() { "package-rejected/with-vertex-shader" } else { "package-rejected" }, format!("from_existing returned None for a well-formed {}-byte package ({} vertex, {} pixel shaders, shader data offset {})", bytes.len(), s.vertex.len(), s.pixel.len(), u32::from_le_bytes(bytes[16..20].try_into().unwrap())));
        }
    };
    ensure_eq!((pk.vertex_shaders.len(), pk.pixel_shaders.len()), (s.vertex.len(), s.pixel.len()), "shader-count", "shader counts");
    for (i, (g, w)) in pk.vertex_shaders.iter().zip(&s.vertex).chain(pk.pixel_shaders.iter().zip(&s.pixel)).enumerate() {
        let vertex = i < s.vertex.len();
        let what = format!("{} shader {}", if vertex { "vertex" } else { "pixel" }, if vertex { i } else { i - s.vertex.len() });
        check_params(&g.scalar_parameters, &w.scalars, &format!("{} scalar", what))?;
        check_params(&g.resource_parameters, &w.resources, &format!("{} resource", what))?;
        check_params(&g.uav_parameters, &w.uavs, &format!("{} uav", what))?;
        check_params(&g.texture_parameters, &w.textures, &format!("{} texture", what))?;
        let b = blob(w.blob_seed, w.blob_len as usize);
        if vertex {
            let n = b.len() - 8;
            ensure!(g.bytecode.len() >= n && g.bytecode[..n] == b[8..], "vertex-bytecode", "{}: bytecode is not the blob after its 8-byte header", what);
        } else {
            ensure!(g.bytecode == b, "pixel-bytecode", "{}: bytecode ({} bytes) differs from the stored blob ({} bytes)", what, g.bytecode.len(), b.len());
        }
    }
    ensure_eq!(pk.material_parameters_size, s.material_params_size, "material-parameters-size", "material parameters size");
    ensure_eq!(pk.material_parameters.len(), s.material_params.len(), "material-parameter-count", "material parameter count");
    for (i, (g, w)) in pk.material_parameters.iter().zip(&s.material_params).enumerate() {
        let d = format!("{:?}", g);
        let got = (dbg_field(&d, "id").map(|x| x.to_string()), dbg_field(&d, "byte_offset").map(|x| x.to_string()), dbg_field(&d, "byte_size").map(|x| x.to_string()));
        ensure_eq!(got, (Some(w.0.to_string()), Some(w.1.to_string()), Some(w.2.to_string())), "material-parameter", "material parameter {}", i);
    }
    let keys = |k: &[physis::shpk::Key]| k.iter().map(|x| (x.id, x.default_value)).collect::<Vec<_>>();
    ensure_eq!(keys(&pk.system_keys), s.system_keys, "system-keys", "system keys");
    ensure_eq!(keys(&pk.scene_keys), s.scene_keys, "scene-keys", "scene keys");
    ensure_eq!(keys(&pk.material_keys), s.material_keys, "material-keys", "material keys");
    ensure_eq!((pk.sub_view_key1_default, pk.sub_view_key2_default), s.subview_defaults, "subview-defaults", "sub-view key defaults");
    ensure_eq!(pk.nodes.len(), s.nodes.len(), "node-count", "node count");
    let node_eq = |g: &physis::shpk::Node, w: &NodeSpec| -> bool {
        let passes: Vec<String> = g.passes.iter().map(|p| format!("{:?}", p)).collect();
        let want: Vec<String> = w.passes.iter().map(|p| format!("Pass {{ id: {}, vertex_shader: {}, pixel_shader: {} }}", p.0, p.1, p.2)).collect();
        g.selector == w.selector && g.pass_count as usize == w.passes.len() && g.pass_indices == w.pass_indices && g.system_keys == w.system_keys && g.scene_keys == w.scene_keys && g.material_keys == w.material_keys && g.subview_keys == w.subview_keys && passes == want
    };
    for (i, (g, w)) in pk.nodes.iter().zip(&s.nodes).enumerate() {
        ensure!(node_eq(g, w), "node-differs", "node {}: physis={:?} stored={:?}", i, g, w);
    }
    // selector resolution: what a selector resolves to is a function of the package alone - not of what was looked up before.
    // Selectors nobody carries (0, 1, all ones among them) are asked first on the fresh package, then every node and alias in
    // an order that depends on the case, then everything again in the opposite order.
    let carried = |sel: u32| s.nodes.iter().position(|n| n.selector == sel).or_else(|| s.aliases.iter().find(|a| a.0 == sel).map(|a| a.1 as usize));
    let absent = s.nodes.iter().map(|n| n.selector).chain(s.aliases.iter().map(|a| a.0)).fold(0x1234_5678u32, |a, b| a.wrapping_mul(31).wrapping_add(b) | 1);
    let mut queries: Vec<u32> = vec![0, absent, 1, u32::MAX];
    let mut rest: Vec<u32> = s.nodes.iter().map(|n| n.selector).chain(s.aliases.iter().map(|a| a.0)).collect();
    if !rest.is_empty() {
        let r = (util::fnv64(&bytes) % rest.len() as u64) as usize;
        rest.rotate_left(r);
        if util::fnv64(&bytes) & 0x100 != 0 {
            rest.reverse();
        }
    }
    queries.extend(rest);
    let again: Vec<u32> = queries.iter().rev().copied().collect();
    queries.extend(again);
    for (k, sel) in queries.iter().enumerate() {
        let want = carried(*sel);
        let got = guard("find_node", || pk.find_node(*sel).map(|x| want.map(|w| node_eq(x, &s.nodes[w]))))?;
        match (want, got) {
            (Some(w), Some(Some(true))) => {
                let _ = w;
            }
            (Some(w), _) => {
                let slug = if s.nodes[w].selector == *sel { "find-node-direct" } else { "find-node-alias" };
                return fail(slug, format!("query {}: find_node({:#x}) should return node {} ({})", k, sel, w, if got.is_none() { "returned nothing" } else { "returned another node" }));
            }
            (None, None) => {}
            (None, Some(_)) => return fail("find-node-absent", format!("query {}: find_node({:#x}) found a node for a selector nobody carries", k, sel)),
        }
        if want.is_none() && k < 4 {
            ctx.class("shpk:first-lookups-of-selectors-nobody-carries");
        }
        if want.is_some() && [0, 1, u32::MAX, 0x8000_0000].contains(sel) {
            ctx.class("shpk:marker-like-selector-carried");
        }
    }
    ctx.class(if s.dx11 { "shpk:DX11" } else { "shpk:DX9" });
    ctx.classf(format!("shpk:vertex-shaders:{}", s.vertex.len().min(3)));
    ctx.class(if s.trailing >= 600 { "shpk:roomy" } else { "shpk:tight" });
    if s.defaults.is_some() {
        ctx.class("shpk:material-defaults");
    }
    if !s.aliases.is_empty() {
        ctx.class("shpk:aliases");
    }
    if !s.aliases.is_empty() && s.nodes.len() >= 2 {
        ctx.nontrivial(&bytes);
        if ctx.want_sample() {
            ctx.sample(json!({"kind": "shader package", "dx11": s.dx11, "vertex_shaders": s.vertex.len(), "pixel_shaders": s.pixel.len(), "nodes": s.nodes.iter().map(|n| format!("{:#x} ({} passes)", n.selector, n.passes.len())).collect::<Vec<_>>(), "aliases": s.aliases, "file_len": bytes.len()}));
        }
    }
    Ok(())
}

/// A package with more nodes than a 16-bit index can number (and aliases of the nodes beyond): node count, selector of node i
/// = i * 2654435761 + 1.
#[derive(Clone, Debug, serde::Serialize, serde::Deserialize)]
pub struct LargePackage {
    pub nodes: u32,
}

fn large_cases(_: &Ctx) -> Vec<LargePackage> {
    vec![LargePackage { nodes: 66_000 }, LargePackage { nodes: 70_000 }]
}

fn prop_large(c: &LargePackage, ctx: &Ctx) -> PResult {
    let sel = |i: u32| i.wrapping_mul(2_654_435_761).wrapping_add(1);
    let nodes: Vec<NodeSpec> = (0..c.nodes).map(|i| NodeSpec { selector: sel(i), pass_indices: [(i % 251) as u8; 16], system_keys: vec![], scene_keys: vec![], material_keys: vec![], subview_keys: [i, !i], passes: vec![] }).collect();
    let alias_targets = [65_535u32, 65_536, 65_537, c.nodes - 1, 0];
    let aliases: Vec<(u32, u32)> = alias_targets.iter().enumerate().map(|(k, t)| (0xAAAA_0000 + k as u32 * 2, *t)).collect();
    let s = ShpkSpec { version: 0x0D01, dx11: true, vertex: vec![], pixel: vec![], material_params: vec![], material_params_size: 0, defaults: None, scalars: vec![], samplers: vec![], textures: vec![], uavs: vec![], system_keys: vec![], scene_keys: vec![], material_keys: vec![], subview_defaults: (1, 2), nodes, aliases: aliases.clone(), trailing: 0, dedup_names: false };
    let bytes = encode_shpk(&s);
    let pk = match guard("ShaderPackage::from_existing", || ShaderPackage::from_existing(&bytes))? {
        Some(p) => p,
        None => return fail("package-rejected", format!("from_existing returned None for a package of {} nodes ({} bytes)", c.nodes, bytes.len())),
    };
    let mut wanted: Vec<(u32, u32)> = [0u32, 1, 255, 256, 4_450, 32_767, 32_768, 65_534, 65_535, 65_536, 65_537, 65_999, c.nodes - 1].iter().map(|i| (sel(*i), *i)).collect();
    wanted.extend(aliases.iter().copied());
    for (selector, node) in wanted {
        let want = &s.nodes[node as usize];
        let got = guard("find_node", || pk.find_node(selector).map(|n| (n.selector, n.subview_keys.to_vec(), n.pass_indices)))?;
        ensure_eq!(got, Some((want.selector, want.subview_keys.to_vec(), want.pass_indices)), "find-node-large-package", "find_node({:#x}) should return node {} of {}", selector, node, c.nodes);
    }
    let got = guard("find_node", || pk.find_node(0).is_some())?;
    ensure!(!got, "find-node-absent", "find_node(0) found a node in a package where nobody carries selector 0");
    ctx.class("shpk:more-than-65536-nodes");
    ctx.nontrivial(&bytes[..4096]);
    ctx.nontrivial_hash(c.nodes as u64);
    Ok(())
}

fn selector_strategy(_: &Ctx) -> BoxedStrategy<Vec<Vec<u32>>> {
    let k = prop_oneof![3 => any::<u32>(), 1 => prop::sample::select(vec![0u32, 1, u32::MAX, 0x8000_0000, 31, 961])];
    vec(vec(k, 0..20), 4).boxed()
}

fn prop_selector(lists: &Vec<Vec<u32>>, ctx: &Ctx) -> PResult {
    let mut parts = vec![];
    for l in lists {
        let got = guard("build_selector", || ShaderPackage::build_selector(l))?;
        ensure_eq!(got, ref_selector(l), "selector-polynomial", "build_selector({:?})", l);
        parts.push(got);
    }
    let got = guard("build_selector_from_all_keys", || ShaderPackage::build_selector_from_all_keys(&lists[0], &lists[1], &lists[2], &lists[3]))?;
    ensure_eq!(got, ref_selector(&parts), "selector-from-all-keys", "build_selector_from_all_keys");
    let got = guard("build_selector_from_keys", || ShaderPackage::build_selector_from_keys(parts[0], parts[1], parts[2], parts[3]))?;
    ensure_eq!(got, ref_selector(&parts), "selector-from-keys", "build_selector_from_keys");
    ctx.class("selector-lists");
    if lists.iter().any(|l| l.len() >= 2) {
        ctx.nontrivial(format!("{:?}", lists).as_bytes());
    }
    Ok(())
}

pub fn property() -> Property {
    Property {
        id: "C14",
        rule: "[rounds 8-9: half of the texture table entries carry flags in their high half; a quarter of the string tables unpadded] materials: 0..6 texture paths (strings canonical: texture paths first, in order), uv / colour sets, extra strings, additional data of 4..9 bytes with random unrelated flag bits, table kind in {none, legacy dims 0, legacy dims 0x42, Dawntrail 0x53, opaque 0x5X with dye table, dye table without a colour table (legacy / Dawntrail: the two flag bits are independent)} with random half patterns in every row component, dye table where the reader supports it, 0..8 keys, 0..8 constants of 1..4 finite floats with gaps in the value list, 0..6 samplers over the 22 known usages. shader packages: DX9/DX11, 0..4 vertex / pixel shaders with 0..4 parameters of each kind (names in a shared heap, optionally de-duplicated), bytecode blobs, material parameters with / without defaults, package parameters, three key tables, 0..8 nodes with 0..16 passes, 0..6 aliases, tight (no trailing bytes) and roomy files. selector lists: 4 lists of 0..19 keys. Oracle: the generated values (private fields observed through Debug); colour / dye rows component by component from their own half / bit field (own half decoder); pixel bytecode exactly, vertex bytecode as the blob after its 8-byte header; find_node first for selectors nobody carries (0, 1, all ones, a computed one) on the fresh package, then for every node selector and alias (one in sixteen a marker-like value) in a case-dependent order, then all of them again in the opposite order - the answer must not depend on earlier look-ups; build_selector = sum key_i * 31^i mod 2^32 in u128 arithmetic. Non-trivial: material with a table whose first row has pairwise distinct halves; package with >= 1 alias and >= 2 nodes; selector lists with >= 2 keys. Distinct by hash of the file.",
        assumptions: &["vertex-shader bytecode beyond data_size - 8 is not compared; 8 spare bytes follow the file when it has vertex shaders", "dye table with dims 0x42 is not generated", "node and alias selectors are pairwise distinct; alias node indices are in range"],
        pre: None,
        post: None,
        parts: vec![
            Box::new(Part { name: "materials", driver: Driver::Gen(mtrl_strategy, 120_000, 1_920_000), prop: prop_mtrl, exhaustive: false }),
            Box::new(Part { name: "shader-packages", driver: Driver::Gen(shpk_strategy, 120_000, 1_920_000), prop: prop_shpk, exhaustive: false }),
            Box::new(Part { name: "large-packages", driver: Driver::Enum(large_cases), prop: prop_large, exhaustive: false }),
            Box::new(Part { name: "selectors", driver: Driver::Gen(selector_strategy, 400_000, 6_400_000), prop: prop_selector, exhaustive: false }),
        ],
    }
}

/// (materials, shader packages)
pub fn seed_files(ctx: &Ctx, n: usize) -> (Vec<(String, Vec<u8>)>, Vec<(String, Vec<u8>)>) {
    let ms = mtrl_strategy(ctx);
    let ss = shpk_strategy(ctx);
    let mut mtrls = vec![];
    let mut shpks = vec![];
    let mut k = 0u64;
    while (mtrls.len() < n || shpks.len() < n) && k < 300 {
        let m = draw_fixed(&ms, 0xC14_5EED + k);
        let s = draw_fixed(&ss, 0xC14_E5ED + k);
        k += 1;
        let mb = encode_mtrl(&m);
        if mtrls.len() < n && !m.textures.is_empty() && mb.len() < 6000 {
            mtrls.push((format!("gen{}", mtrls.len()), mb));
        }
        let sb = encode_shpk(&s);
        if shpks.len() < n && !s.nodes.is_empty() && sb.len() < 8000 {
            shpks.push((format!("gen{}", shpks.len()), sb));
        }
    }
    (mtrls, shpks)
}

/// Shader packages for the robustness checks (C18) together with the selectors a caller would look up (every node's
/// and every alias'), and the offsets of the alias records. Every package has an alias of its last node.
pub fn seed_shpks(ctx: &Ctx, n: usize) -> Vec<(String, Vec<u8>, Vec<u32>, Vec<u32>)> {
    let ss = shpk_strategy(ctx);
    let mut out = vec![];
    let mut k = 0u64;
    while out.len() < n && k < 300 {
        let mut s = draw_fixed(&ss, 0xC14_E5ED + k);
        k += 1;
        if s.nodes.is_empty() {
            continue;
        }
        let last = s.nodes.len() as u32 - 1;
        if !s.aliases.iter().any(|a| a.1 == last) {
            s.aliases.push((0xA11A_5000 + k as u32, last));
        }
        let b = encode_shpk(&s);
        if b.len() >= 8000 {
            continue;
        }
        let mut sels: Vec<u32> = s.nodes.iter().map(|n| n.selector).collect();
        sels.extend(s.aliases.iter().map(|a| a.0));
        let mut marks = vec![];
        for (sel, node) in &s.aliases {
            let mut rec = sel.to_le_bytes().to_vec();
            rec.extend_from_slice(&node.to_le_bytes());
            if let Some(at) = b.windows(8).position(|w| w == &rec[..]) {
                marks.push(at as u32);
            }
        }
        out.push((format!("gen{}", out.len()), b, sels, marks));
    }
    out
}

pub fn shpk_strategy_pub(ctx: &Ctx) -> BoxedStrategy<ShpkSpec> {
    shpk_strategy(ctx)
}

//! C05 — Excel sheets decode to the cell values stored in them.
use crate::build::excel::*;
use crate::build::sqpack::{self, BlockSpec, IndexRecord, Install};
use crate::engine::panics::guard;
use crate::engine::*;
use crate::{ensure, ensure_eq, gen};
use physis::exd::{ColumnData, EXD};
use physis::exh::EXH;
use proptest::collection::{btree_set, vec};
use proptest::prelude::*;
use serde::{Deserialize, Serialize};
use serde_json::json;

/// Column before layout: type, gap before it, physical-order key, share-a-byte flag (packed bools).
type ColSeed = (u8, u8, u16, bool);

fn layout(cols: &[ColSeed], tail_gap: u16, subrow_sheet: bool) -> (Vec<Column>, u16) {
    let mut order: Vec<usize> = (0..cols.len()).collect();
    order.sort_by_key(|&i| (cols[i].2, i));
    let mut out = vec![Column { ty: 0, offset: 0 }; cols.len()];
    let mut pos = 0usize;
    let mut last_packed: Option<(usize, u8)> = None;
    for i in order {
        let (mut ty, gap, _, share) = cols[i];
        if subrow_sheet && ty == 0 && gap % 2 == 1 {
            ty = 7; // string columns are kept rarer in sub-row sheets
        }
        if ty >= 11 {
            let bit = 1u8 << (ty - 11);
            if let (true, Some((o, bits))) = (share, last_packed) {
                if bits & bit == 0 {
                    out[i] = Column { ty, offset: o as u16 };
                    last_packed = Some((o, bits | bit));
                    continue;
                }
            }
            pos += gap as usize;
            out[i] = Column { ty, offset: pos as u16 };
            last_packed = Some((pos, bit));
            pos += 1;
        } else {
            pos += gap as usize;
            out[i] = Column { ty, offset: pos as u16 };
            pos += type_width(ty as usize);
            last_packed = None;
        }
    }
    (out, (pos + tail_gap as usize) as u16)
}

fn cell(ty: u8) -> BoxedStrategy<Cell> {
    fn ext<T: Clone + std::fmt::Debug + 'static>(any: BoxedStrategy<T>, extremes: Vec<T>) -> BoxedStrategy<T> {
        prop_oneof![3 => any, 1 => prop::sample::select(extremes)].boxed()
    }
    match ty {
        0 => prop_oneof![
            60 => gen::from_alphabet("abcdefghijklmnopqrstuvwxyzABCDEFGHIJKLMNOPQRSTUVWXYZ0123456789 _-,.<>/\\\"'!?\t\r\n\x01\x7f", 0, 24),
            10 => gen::from_alphabet("abc XYZ", 25, 300),
            // one string cell in seventy is long: around 4 KiB, 8 KiB, 64 KiB, or anything up to 20 000 characters
            1 => gen::long_ascii(),
        ]
        .prop_map(Cell::Str)
        .boxed(),
        1 | 11..=18 => any::<bool>().prop_map(Cell::Bool).boxed(),
        2 => ext(any::<i8>().boxed(), vec![i8::MIN, i8::MAX, 0, -1, 1]).prop_map(Cell::I8).boxed(),
        3 => ext(any::<u8>().boxed(), vec![0, 1, 0x7f, 0x80, 0xff]).prop_map(Cell::U8).boxed(),
        4 => ext(any::<i16>().boxed(), vec![i16::MIN, i16::MAX, 0, -1, 1, 0x0100, 0x00ff]).prop_map(Cell::I16).boxed(),
        5 => ext(any::<u16>().boxed(), vec![0, 1, 0x7fff, 0x8000, 0xffff, 0x0100, 0x00ff]).prop_map(Cell::U16).boxed(),
        6 => ext(any::<i32>().boxed(), vec![i32::MIN, i32::MAX, 0, -1, 1, 0x0100_0000]).prop_map(Cell::I32).boxed(),
        7 => ext(any::<u32>().boxed(), vec![0, 1, 0x7fff_ffff, 0x8000_0000, 0xffff_ffff, 0x0100_0000]).prop_map(Cell::U32).boxed(),
        8 => ext(any::<u32>().boxed(), vec![0, 0x8000_0000, 0x7f80_0000, 0xff80_0000, 0x7fc0_0000, 0x7f80_0001, 0x3f80_0000, 0x0000_0001, 0x7f7f_ffff]).prop_map(Cell::F32).boxed(),
        9 => ext(any::<i64>().boxed(), vec![i64::MIN, i64::MAX, 0, -1, 1]).prop_map(Cell::I64).boxed(),
        _ => ext(any::<u64>().boxed(), vec![0, 1, u64::MAX, 1 << 63, (1 << 63) - 1]).prop_map(Cell::U64).boxed(),
    }
}

fn cells_for(columns: &[Column]) -> BoxedStrategy<Vec<Cell>> {
    let strats: Vec<BoxedStrategy<Cell>> = columns.iter().map(|c| cell(c.ty)).collect();
    strats.boxed()
}

fn col_seed() -> BoxedStrategy<ColSeed> {
    (prop_oneof![3 => 0u8..19, 1 => 11u8..19, 1 => 0u8..2], prop_oneof![3 => Just(0u8), 1 => 0u8..4], any::<u16>(), any::<bool>()).boxed()
}

#[derive(Clone, Debug, Serialize, Deserialize)]
pub struct Case {
    pub schema: Schema,
    pub rows: Vec<Row>,
    pub order_keys: Vec<u16>,
    pub absent_ids: Vec<u32>,
    pub exd_version: u16,
    /// keys that permute the row index table (empty: ascending row ids)
    #[serde(default)]
    pub index_keys: Vec<u16>,
}

fn row_ids(max_rows: usize) -> BoxedStrategy<Vec<u32>> {
    btree_set(prop_oneof![3 => 0u32..200, 1 => any::<u32>()], 1..=max_rows).prop_map(|s| s.into_iter().collect()).boxed()
}

fn rows_for(columns: Vec<Column>, ids: Vec<u32>, subrow_sheet: bool) -> BoxedStrategy<Vec<Row>> {
    let per_row: Vec<BoxedStrategy<Row>> = ids
        .into_iter()
        .map(|id| {
            let nsub = if subrow_sheet { prop_oneof![8 => 2usize..=8, 1 => 9usize..=300].boxed() } else { Just(1usize).boxed() };
            let cols = columns.clone();
            (nsub, any::<u64>())
                .prop_flat_map(move |(n, junk)| (vec((any::<u16>(), cells_for(&cols)), n), Just(junk)))
                .prop_map(move |(subs, junk)| Row { id, subrows: subs.into_iter().map(|(sid, cells)| SubRow { id: sid, cells }).collect(), junk })
                .boxed()
        })
        .collect();
    per_row.boxed()
}

fn schema_strategy(max_pages: usize) -> BoxedStrategy<(Schema, bool)> {
    (vec(col_seed(), 1..=24), prop_oneof![4 => 0u16..6, 1 => 0u16..400], prop::bool::weighted(0.3), any::<u16>(), vec((0u32..100_000, 1u32..500), 1..=max_pages), vec(0u8..8, 1..=4), any::<u32>())
        .prop_map(|(cols, tail, subrow_sheet, version, pages, languages, row_count)| {
            let (columns, data_offset) = layout(&cols, tail, subrow_sheet);
            (Schema { version, data_offset, columns, pages, languages, row_count }, subrow_sheet)
        })
        .boxed()
}

fn strategy(_: &Ctx) -> BoxedStrategy<Case> {
    (schema_strategy(4), row_ids(8))
        .prop_flat_map(|((schema, sub), ids)| {
            let n = ids.len();
            (rows_for(schema.columns.clone(), ids, sub), Just(schema), vec(any::<u16>(), n), vec(any::<u32>(), 0..4), any::<u16>(), prop_oneof![1 => Just(vec![]), 1 => vec(any::<u16>(), n)])
        })
        .prop_map(|(rows, schema, order_keys, absent_ids, exd_version, index_keys)| Case { schema, rows, order_keys, absent_ids, exd_version, index_keys })
        .boxed()
}

fn cell_matches(got: &ColumnData, want: &Cell) -> bool {
    match (got, want) {
        (ColumnData::String(a), Cell::Str(b)) => a == b,
        (ColumnData::Bool(a), Cell::Bool(b)) => a == b,
        (ColumnData::Int8(a), Cell::I8(b)) => a == b,
        (ColumnData::UInt8(a), Cell::U8(b)) => a == b,
        (ColumnData::Int16(a), Cell::I16(b)) => a == b,
        (ColumnData::UInt16(a), Cell::U16(b)) => a == b,
        (ColumnData::Int32(a), Cell::I32(b)) => a == b,
        (ColumnData::UInt32(a), Cell::U32(b)) => a == b,
        (ColumnData::Float32(a), Cell::F32(b)) => a.to_bits() == *b,
        (ColumnData::Int64(a), Cell::I64(b)) => a == b,
        (ColumnData::UInt64(a), Cell::U64(b)) => a == b,
        _ => false,
    }
}

fn check_exh(exh: &EXH, s: &Schema) -> PResult {
    ensure_eq!(exh.header.data_offset, s.data_offset, "exh-data-offset", "EXH data_offset");
    ensure_eq!(exh.header.row_count, s.row_count, "exh-row-count", "EXH row_count");
    ensure_eq!(exh.column_definitions.len(), s.columns.len(), "exh-column-count", "EXH column count");
    for (i, (g, w)) in exh.column_definitions.iter().zip(&s.columns).enumerate() {
        ensure_eq!(g.data_type.clone() as u16, TYPE_IDS[w.ty as usize], "exh-column-type", "column {} type", i);
        ensure_eq!(g.offset, w.offset, "exh-column-offset", "column {} offset", i);
    }
    ensure_eq!(exh.pages.iter().map(|p| (p.start_id, p.row_count)).collect::<Vec<_>>(), s.pages, "exh-pages", "EXH pages");
    ensure_eq!(exh.languages.len(), s.languages.len(), "exh-language-count", "EXH language count");
    ensure_eq!(exh.languages[0] as u8, s.languages[0], "exh-first-language", "first language");
    Ok(())
}

fn check_rows(exd: &EXD, exh: &EXH, s: &Schema, rows: &[Row], ctx: &Ctx) -> PResult {
    for r in rows {
        let got = guard("EXD::read_row", || exd.read_row(exh, r.id)).map_err(|mut f| {
            if r.subrows.len() as u32 * (s.data_offset as u32 + 2) > 65535 {
                f.slug = format!("{}/subrow-offset-overflow", f.slug);
            }
            f
        })?;
        let got = match got {
            Some(g) => g,
            None => return fail("row-missing", format!("read_row({}) returned None for a stored row", r.id)),
        };
        ensure_eq!(got.len(), r.subrows.len(), "subrow-count", "row {}: number of records", r.id);
        for (k, (g, w)) in got.iter().zip(&r.subrows).enumerate() {
            ensure_eq!(g.data.len(), s.columns.len(), "cell-count", "row {} sub-row {}: number of cells", r.id, k);
            for (ci, (gc, wc)) in g.data.iter().zip(&w.cells).enumerate() {
                if !cell_matches(gc, wc) {
                    let tyname = TYPE_NAMES[s.columns[ci].ty as usize];
                    let slug = match s.columns[ci].ty {
                        1 => "cell-differs/Bool".to_string(),
                        11..=18 => "cell-differs/PackedBool".to_string(),
                        _ => format!("cell-differs/{}", tyname),
                    };
                    return fail(&slug, format!("row {} sub-row {} column {} ({} @ offset {}): physis={:?} stored={:?}", r.id, k, ci, tyname, s.columns[ci].offset, gc, wc));
                }
                ctx.classf(format!("type:{}", TYPE_NAMES[s.columns[ci].ty as usize]));
                if let Cell::Str(t) = wc {
                    if t.len() >= 1000 {
                        ctx.classf(format!("string-length:{}", if t.len() < 4000 { "1000-3999" } else if t.len() < 4200 { "~4096" } else if t.len() < 8100 { "4200-8099" } else if t.len() < 8300 { "~8192" } else if t.len() < 65_000 { "8300-64999" } else { "~65536" }));
                    }
                }
            }
        }
        ctx.classf(format!("subrows:{}", match r.subrows.len() { 1 => "1", 2..=8 => "2-8", _ => ">8" }));
        if r.subrows.len() > 1 && s.columns.iter().any(|c| c.ty == 0) {
            ctx.class("subrow-sheet-with-string-cells");
        }
    }
    Ok(())
}

fn physical_order(keys: &[u16]) -> Vec<usize> {
    let mut o: Vec<usize> = (0..keys.len()).collect();
    o.sort_by_key(|&i| (keys[i], i));
    o
}

fn prop(c: &Case, ctx: &Ctx) -> PResult {
    let exh_bytes = encode_exh(&c.schema);
    let index_order: Vec<usize> = if c.index_keys.len() == c.rows.len() { physical_order(&c.index_keys) } else { (0..c.rows.len()).collect() };
    if index_order.windows(2).any(|w| w[0] > w[1]) {
        ctx.class("row-index-not-ascending");
    }
    let exd_bytes = encode_exd_indexed(&c.schema, &c.rows, &physical_order(&c.order_keys), &index_order, c.exd_version);
    let exh = match guard("EXH::from_existing", || EXH::from_existing(&exh_bytes))? {
        Some(e) => e,
        None => return fail("exh-rejected", "EXH::from_existing returned None for a well-formed header"),
    };
    check_exh(&exh, &c.schema)?;
    let exd = match guard("EXD::from_existing", || EXD::from_existing(&exd_bytes))? {
        Some(e) => e,
        None => return fail("exd-rejected", "EXD::from_existing returned None for a well-formed page"),
    };
    check_rows(&exd, &exh, &c.schema, &c.rows, ctx)?;
    for id in &c.absent_ids {
        if c.rows.iter().any(|r| r.id == *id) {
            continue;
        }
        let got = guard("EXD::read_row", || exd.read_row(&exh, *id))?;
        ensure!(got.is_none(), "unknown-row-found", "read_row({}) returned a record for an id that is not stored", id);
        ctx.class("absent-id-query");
    }
    // file names for all 8 languages
    for (li, lang) in LANGS.iter().enumerate() {
        for (pi, p) in exh.pages.iter().enumerate() {
            let got = guard("EXD::calculate_filename", || EXD::calculate_filename("Sheet/Name", *lang, p))?;
            ensure_eq!(got, exd_filename("Sheet/Name", li as u8, c.schema.pages[pi].0), "exd-filename", "EXD file name for language {}", li);
        }
    }
    ctx.class("route:direct");
    let types: std::collections::BTreeSet<u8> = c.schema.columns.iter().map(|c| c.ty.min(11)).collect();
    let has_special = c.schema.columns.iter().any(|c| c.ty == 0 || c.ty >= 11);
    if types.len() >= 4 && has_special && c.rows.len() >= 2 {
        ctx.nontrivial(&exd_bytes);
        if ctx.want_sample() {
            ctx.sample(json!({"route": "direct", "columns": c.schema.columns.iter().map(|c| format!("{}@{}", TYPE_NAMES[c.ty as usize], c.offset)).collect::<Vec<_>>(), "data_offset": c.schema.data_offset, "rows": c.rows.iter().map(|r| (r.id, r.subrows.len())).collect::<Vec<_>>(), "exd_prefix": util::hex_trunc(&exd_bytes, 64)}));
        }
    }
    Ok(())
}

const LANGS: [physis::common::Language; 8] = {
    use physis::common::Language::*;
    [None, Japanese, English, German, French, ChineseSimplified, ChineseTraditional, Korean]
};

// ------------------------------------------------------------------------------------------------
// archive route
// ------------------------------------------------------------------------------------------------

#[derive(Clone, Debug, Serialize, Deserialize)]
pub struct Sheet {
    pub name: String,
    pub schema: Schema,
    /// languages for which pages exist (0 = language-agnostic)
    pub langs: Vec<u8>,
    /// rows[lang index][page index]
    pub rows: Vec<Vec<Vec<Row>>>,
}

#[derive(Clone, Debug, Serialize, Deserialize)]
pub struct ArchiveCase {
    pub sheets: Vec<Sheet>,
    pub list_version: i32,
    pub ids: Vec<i32>,
    pub platform: u8,
    pub index2: bool,
    pub chunk: u8,
}

fn sheet_name() -> BoxedStrategy<String> {
    (prop::option::weighted(0.3, gen::from_alphabet("abcdefgh0123", 1, 6)), gen::from_alphabet("abcdefghijklmnopqrstuvwxyzABCDEFGHIJKLMNOPQRSTUVWXYZ0123456789_", 1, 16))
        .prop_map(|(dir, n)| match dir {
            Some(d) => format!("{}/{}", d, n),
            None => n,
        })
        .boxed()
}

fn sheet() -> BoxedStrategy<Sheet> {
    (sheet_name(), schema_strategy(3), prop_oneof![1 => Just(vec![0u8]), 2 => prop::sample::subsequence((1u8..8).collect::<Vec<_>>(), 1..=3)])
        .prop_flat_map(|(name, (mut schema, sub), langs)| {
            // pages: increasing, non-overlapping id ranges
            let mut start = 0u32;
            for p in schema.pages.iter_mut() {
                p.0 = start + p.0 % 50;
                p.1 = p.1 % 40 + 3;
                start = p.0 + p.1;
            }
            let mut per_lang = vec![];
            for _ in &langs {
                let mut per_page = vec![];
                for p in &schema.pages {
                    let (s0, n) = (p.0, p.1);
                    let cols = schema.columns.clone();
                    per_page.push(btree_set(0u32..n, 1..=3usize).prop_flat_map(move |ids| rows_for(cols.clone(), ids.into_iter().map(|i| s0 + i).collect(), sub)).boxed());
                }
                per_lang.push(per_page);
            }
            (Just(name), Just(schema), Just(langs), per_lang)
        })
        .prop_map(|(name, schema, langs, rows)| Sheet { name, schema, langs, rows })
        .boxed()
}

fn archive_strategy(_: &Ctx) -> BoxedStrategy<ArchiveCase> {
    (vec(sheet(), 1..=4), any::<i32>(), vec(any::<i32>(), 4), 0u8..5, any::<bool>(), prop_oneof![3 => Just(0u8), 1 => 0u8..4])
        .prop_map(|(mut sheets, list_version, ids, platform, index2, chunk)| {
            // distinct names (case-insensitively)
            let mut seen = std::collections::HashSet::new();
            sheets.retain(|s| seen.insert(s.name.to_ascii_lowercase()));
            ArchiveCase { sheets, list_version, ids, platform, index2, chunk }
        })
        .boxed()
}

fn prop_archive(c: &ArchiveCase, ctx: &Ctx) -> PResult {
    let inst = Install::new("c05");
    let mut files: Vec<(String, Vec<u8>)> = vec![];
    let entries: Vec<(String, i32)> = c.sheets.iter().enumerate().map(|(i, s)| (s.name.clone(), c.ids[i % c.ids.len()])).collect();
    let mut list = encode_exl(c.list_version, &entries);
    // every third root list carries rows that are no entries between its entries (a blank line, a remark without a
    // comma, a row whose id is no number, a commented-out row): the sheets named behind them are listed all the same
    if (c.list_version as i64 + c.sheets.len() as i64).rem_euclid(3) == 0 {
        let text = String::from_utf8(list).unwrap();
        let mut out = String::new();
        for (i, line) in text.split("\r\n").enumerate() {
            if i >= 1 && !line.is_empty() {
                out.push_str(["", "# note", "Remark,abc", "#Commented,5"][(i + c.sheets.len()) % 4]);
                out.push_str("\r\n");
            }
            out.push_str(line);
            out.push_str("\r\n");
        }
        list = out.into_bytes();
        ctx.class("archive:root-list-with-rows-that-are-no-entries");
    }
    files.push(("exd/root.exl".into(), list));
    for s in &c.sheets {
        files.push((format!("exd/{}.exh", s.name.to_lowercase()), encode_exh(&s.schema)));
        for (li, lang) in s.langs.iter().enumerate() {
            for (pi, p) in s.schema.pages.iter().enumerate() {
                let rows = &s.rows[li][pi];
                let order: Vec<usize> = (0..rows.len()).rev().collect();
                files.push((format!("exd/{}", exd_filename(&s.name, *lang, p.0)), encode_exd(&s.schema, rows, &order, 2)));
            }
        }
    }
    // pack into 0a0000 chunk `chunk`, dat0/dat1 alternating, multi-block entries for larger files
    let stem = sqpack::file_stem(0x0a, 0, c.chunk, c.platform as usize);
    let mut records = vec![];
    let mut dats: [Vec<(u64, Vec<u8>)>; 2] = [vec![], vec![]];
    let mut next = [2048u64, 2048u64];
    for (i, (path, data)) in files.iter().enumerate() {
        let d = i % 2;
        let blocks: Vec<BlockSpec> = data.chunks(700).enumerate().map(|(k, ch)| BlockSpec { data: ch.to_vec(), mode: crate::build::deflate::MODES[(i + k) % 8] }).collect();
        let entry = sqpack::standard_entry(&blocks, 0, &[]);
        records.push(IndexRecord { path: path.clone(), dat_id: d as u8, offset: next[d], synonym: false });
        let len = entry.len() as u64;
        dats[d].push((next[d], entry));
        next[d] += (len + 127) / 128 * 128 + 128;
    }
    inst.write(0, &format!("{}.index{}", stem, if c.index2 { "2" } else { "" }), &sqpack::index_file(c.platform, -1, c.index2, &records, 2, true));
    for d in 0..2 {
        inst.write(0, &format!("{}.dat{}", stem, d), &sqpack::dat_file(c.platform, -1, &dats[d], 0x5A));
    }
    let game_dir = inst.game_dir();
    let mut g = match guard("GameData::from_existing", || physis::gamedata::GameData::from_existing(sqpack::platform_enum(c.platform as usize), &game_dir))? {
        Some(g) => g,
        None => return fail("open-failed", "GameData::from_existing returned None"),
    };
    let names = guard("get_all_sheet_names", || g.get_all_sheet_names())?;
    ensure_eq!(names, Some(c.sheets.iter().map(|s| s.name.clone()).collect::<Vec<_>>()), "sheet-names", "sheet names from the root list");
    let mut nontrivial = false;
    for s in &c.sheets {
        let exh = match guard("read_excel_sheet_header", || g.read_excel_sheet_header(&s.name))? {
            Some(e) => e,
            None => return fail("sheet-header-missing", format!("read_excel_sheet_header({:?}) returned None", s.name)),
        };
        check_exh(&exh, &s.schema)?;
        for (li, lang) in s.langs.iter().enumerate() {
            for pi in 0..s.schema.pages.len() {
                let exd = match guard("read_excel_sheet", || g.read_excel_sheet(&s.name, &exh, LANGS[*lang as usize], pi))? {
                    Some(e) => e,
                    None => return fail("sheet-page-missing", format!("read_excel_sheet({:?}, lang {}, page {}) returned None", s.name, lang, pi)),
                };
                check_rows(&exd, &exh, &s.schema, &s.rows[li][pi], ctx)?;
                // a row of another page must not be found in this page
                for (pj, other) in s.rows[li].iter().enumerate() {
                    if pj != pi {
                        let id = other[0].id;
                        let got = guard("EXD::read_row", || exd.read_row(&exh, id))?;
                        ensure!(got.is_none(), "wrong-page", "sheet {:?}: row {} of page {} found in page {}", s.name, id, pj, pi);
                    }
                }
                ctx.eval();
                ctx.classf(format!("lang:{}", if *lang == 0 { "none" } else { LANG_CODES[*lang as usize] }));
            }
        }
        if s.schema.pages.len() >= 2 || s.langs.len() >= 2 {
            nontrivial = true;
        }
        if s.name.contains('/') {
            ctx.class("sheet-name-with-folder");
        }
        if s.name != s.name.to_lowercase() {
            ctx.class("sheet-name-mixed-case");
        }
    }
    let missing = guard("read_excel_sheet_header", || g.read_excel_sheet_header("NoSuchSheet_"))?;
    ensure!(missing.is_none(), "unknown-sheet-found", "a sheet that is not in the root list was found");
    ctx.class("route:archive");
    if nontrivial {
        ctx.nontrivial(format!("{:?}", c).as_bytes());
        if ctx.want_sample() {
            ctx.sample(json!({"route": "archive", "sheets": c.sheets.iter().map(|s| json!({"name": s.name, "pages": s.schema.pages, "langs": s.langs, "columns": s.schema.columns.len()})).collect::<Vec<_>>(), "files": files.iter().map(|f| f.0.clone()).take(8).collect::<Vec<_>>()}));
        }
    }
    Ok(())
}

pub fn property() -> Property {
    Property {
        id: "C05",
        rule: "[rounds 8-9: one string cell in seventy around 4 096 / 8 192 / 65 536 characters or free up to 20 000; string heap in column, reverse or rotated order, equal strings sharing an entry in half of the rows] direct route: schema of 1..24 columns over all 19 column types at non-overlapping offsets with gaps (packed bools may share a byte), arbitrary fixed-region size, 1..4 pages, 1..4 languages in the 2-byte on-disk form; 1..8 rows with distinct ids in shuffled physical order, either single-record rows with a string heap (junk gaps between strings, ASCII strings 0..300 incl. control characters) or 2..8 (up to 300) sub-rows, also with string cells (one heap behind the last sub-row); gaps and unused bits filled with junk; numeric cells with extremes (MIN/MAX/NaN/inf/-0 bit patterns); encoded big-endian by the harness; read through EXH/EXD::from_existing + read_row for every stored id and some absent ids; file names for all 8 languages. archive route: 1..4 sheets (mixed-case names, optional folder) with several pages and languages packed into a generated 0a0000 archive together with exd/root.exl; read through get_all_sheet_names / read_excel_sheet_header / read_excel_sheet. Oracle: the generated cell values (floats by bit pattern). Non-trivial (direct): >= 4 distinct column types incl. a string or packed bool and >= 2 rows; (archive): a sheet with >= 2 pages or >= 2 languages. Distinct by hash of the encoded page / case.",
        assumptions: &["string cells of sub-row sheets hold offsets relative to the end of their own sub-row's fixed-size region, with one heap behind the last sub-row (the reference reader Lumina's convention)", "only the first EXH language entry is compared (Physis reads 1 byte per language, the format stores 2)", "a sub-row sheet always has >= 2 sub-rows per row (Physis switches on row_count > 1)"],
        pre: None,
        post: None,
        parts: vec![
            Box::new(Part { name: "direct", driver: Driver::Gen(strategy, 20_000, 500_000), prop, exhaustive: false }),
            Box::new(Part { name: "archive", driver: Driver::Gen(archive_strategy, 1_000, 24_000), prop: prop_archive, exhaustive: false }),
        ],
    }
}

/// (name, exh bytes, exd bytes) of generated sheets for the robustness checks (C18)
pub fn seed_files(ctx: &Ctx, n: usize) -> Vec<(String, Vec<u8>, Vec<u8>)> {
    let strat = strategy(ctx);
    let mut out = vec![];
    let mut k = 0u64;
    while out.len() < n && k < 300 {
        let c = draw_fixed(&strat, 0xC05_5EED + k);
        k += 1;
        if c.rows.len() < 2 || c.schema.columns.len() < 3 {
            continue;
        }
        // one plain sheet with strings, one sub-row sheet
        let has_string = c.schema.columns.iter().any(|c| c.ty == 0);
        let sub = c.rows.iter().any(|r| r.subrows.len() > 1);
        let want_sub = out.len() % 2 == 1;
        if (want_sub && !sub) || (!want_sub && !has_string) {
            continue;
        }
        let exh = encode_exh(&c.schema);
        let exd = encode_exd(&c.schema, &c.rows, &physical_order(&c.order_keys), c.exd_version);
        if exd.len() > 6000 {
            continue;
        }
        out.push((format!("gen{}", out.len()), exh, exd));
    }
    out
}

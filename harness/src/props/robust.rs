//! Shared machinery of the robustness properties C17 and C18: seed registry, case type, sweeps, verdicts.
use crate::engine::robust::verdict;
use crate::engine::util::{fnv64, hex_trunc, Bytes};
use crate::engine::worker::{self, Outcome, Request};
use crate::engine::*;
use crate::props::mutate::{self, Mut, Pos};
use proptest::collection::vec;
use proptest::prelude::*;
use serde::{Deserialize, Serialize};
use serde_json::json;
use std::collections::BTreeMap;
use std::sync::{Mutex, OnceLock};

#[derive(Clone, Debug)]
pub struct SeedFile {
    pub entry: &'static str,
    pub name: String,
    pub args: Vec<Vec<u8>>,
    /// index of the argument that mutations are applied to
    pub target: usize,
    /// structure boundaries (sweeps of large seeds visit these +-1)
    pub marks: Vec<u32>,
    /// length of the magic prefix that a non-trivial mutant keeps intact
    pub magic: usize,
    /// for patch streams: a prefix shorter than this cannot contain the end-of-file chunk and must be an error
    pub must_fail_below: Option<usize>,
}

impl SeedFile {
    pub fn new(entry: &'static str, name: impl Into<String>, bytes: Vec<u8>) -> SeedFile {
        SeedFile { entry, name: name.into(), args: vec![bytes], target: 0, marks: vec![], magic: 0, must_fail_below: None }
    }
    pub fn magic(mut self, n: usize) -> Self {
        self.magic = n;
        self
    }
    pub fn marks(mut self, m: Vec<u32>) -> Self {
        self.marks = m;
        self
    }
    pub fn bytes(&self) -> &[u8] {
        &self.args[self.target]
    }
}

pub struct Registry {
    pub seeds: Vec<SeedFile>,
    pub index: BTreeMap<(String, String), usize>,
}

impl Registry {
    pub fn new(seeds: Vec<SeedFile>) -> Registry {
        let mut index = BTreeMap::new();
        for (i, s) in seeds.iter().enumerate() {
            index.insert((s.entry.to_string(), s.name.clone()), i);
        }
        Registry { seeds, index }
    }
    pub fn get(&self, entry: &str, name: &str) -> Option<&SeedFile> {
        self.index.get(&(entry.to_string(), name.to_string())).map(|i| &self.seeds[*i])
    }
    pub fn entries(&self) -> Vec<&'static str> {
        let mut v: Vec<&'static str> = self.seeds.iter().map(|s| s.entry).collect();
        v.sort();
        v.dedup();
        v
    }
}

/// One robustness case. Either (seed, mutations) -- materialised on demand -- or explicit arguments (replay files,
/// random blobs, fault recipes).
#[derive(Clone, Debug, Serialize, Deserialize)]
pub struct RCase {
    pub entry: String,
    #[serde(default)]
    pub seed: String,
    #[serde(default)]
    pub muts: Vec<Mut>,
    /// explicit arguments; when present they are used as they are
    #[serde(default)]
    pub args: Option<Vec<Bytes>>,
    /// >1: leak probe
    #[serde(default)]
    pub reps: u32,
    /// semantic expectation: "err" = the call must report its ordinary failure
    #[serde(default)]
    pub expect: String,
    #[serde(default)]
    pub note: String,
}

impl RCase {
    pub fn seeded(entry: &str, seed: &str, muts: Vec<Mut>) -> RCase {
        RCase { entry: entry.into(), seed: seed.into(), muts, args: None, reps: 0, expect: String::new(), note: String::new() }
    }
    pub fn explicit(entry: &str, note: &str, args: Vec<Vec<u8>>) -> RCase {
        RCase { entry: entry.into(), seed: String::new(), muts: vec![], args: Some(args.into_iter().map(Bytes).collect()), reps: 0, expect: String::new(), note: note.into() }
    }
    pub fn expect_err(mut self) -> Self {
        self.expect = "err".into();
        self
    }
}

pub struct Materialised {
    pub args: Vec<Vec<u8>>,
    pub target: usize,
    pub nontrivial: bool,
    pub expect_err: bool,
}

pub fn materialise(reg: &Registry, c: &RCase) -> Result<Materialised, Failure> {
    if let Some(a) = &c.args {
        return Ok(Materialised { args: a.iter().map(|b| b.0.clone()).collect(), target: 0, nontrivial: a.iter().any(|b| !b.0.is_empty()), expect_err: c.expect == "err" });
    }
    let s = reg.get(&c.entry, &c.seed).ok_or_else(|| Failure { slug: "harness-seed-missing".into(), msg: format!("no seed {}/{}", c.entry, c.seed) })?;
    let mutated = mutate::apply(s.bytes(), &c.muts);
    let nontrivial = !mutated.is_empty() && mutated != s.bytes() && mutated.len() >= s.magic && mutated[..s.magic] == s.bytes()[..s.magic];
    let mut expect_err = c.expect == "err";
    if let (Some(limit), [Mut::Trunc(p)]) = (s.must_fail_below, c.muts.as_slice()) {
        let n = match p {
            Pos::Abs(a) => *a as usize,
            Pos::Frac(f) => crate::engine::util::pick_idx(*f, s.bytes().len() + 1),
        };
        if n < limit {
            expect_err = true;
        }
    }
    let mut args = s.args.clone();
    args[s.target] = mutated;
    Ok(Materialised { args, target: s.target, nontrivial, expect_err })
}

// ------------------------------------------------------------------------------------------------
// harvest mode (development only): collect every signature instead of failing
// ------------------------------------------------------------------------------------------------

fn harvest() -> Option<&'static Mutex<BTreeMap<String, (u64, String, String)>>> {
    static H: OnceLock<Option<Mutex<BTreeMap<String, (u64, String, String)>>>> = OnceLock::new();
    H.get_or_init(|| if std::env::var("VERIF_HARVEST").is_ok() { Some(Mutex::new(BTreeMap::new())) } else { None }).as_ref()
}

pub fn dump_harvest(id: &str) {
    if let Some(h) = harvest() {
        let h = h.lock().unwrap();
        let v: Vec<_> = h.iter().map(|(k, (n, detail, case))| json!({"signature": format!("{}:{}", id, k), "count": n, "detail": detail, "example": case})).collect();
        let p = util::verif_root().join(format!("harvest-{}.json", id));
        let _ = std::fs::write(&p, serde_json::to_string_pretty(&v).unwrap());
        eprintln!("harvest: {} signatures written to {}", v.len(), p.display());
    }
}

/// Execute one case in the isolation worker and judge it.
pub fn run(reg: &Registry, c: &RCase, ctx: &Ctx) -> PResult {
    let m = materialise(reg, c)?;
    let req = Request { entry: &c.entry, reps: c.reps.max(1), args: m.args.iter().map(|a| a.as_slice()).collect() };
    let (out, st) = worker::exec(&req);
    let input_len: usize = m.args.iter().map(|a| a.len()).sum();
    let kind = if c.args.is_some() {
        if c.note.is_empty() {
            "explicit".to_string()
        } else {
            c.note.split(':').next().unwrap_or("explicit").to_string()
        }
    } else if c.muts.len() == 1 {
        mutate::kind_name(&c.muts[0]).to_string()
    } else if c.muts.is_empty() {
        "seed".to_string()
    } else {
        "multi".to_string()
    };
    let oname = match &out {
        Outcome::Value => "value",
        Outcome::Rejected => "rejected",
        Outcome::Panic { .. } => "panic",
        Outcome::Died { .. } => "died",
        Outcome::Hang { .. } => "hang",
        Outcome::Infra(_) => "infra",
    };
    ctx.classf(format!("{}/{}/{}", c.entry, kind, oname));
    // CPU time of the slowest cases per entry point (per call): the margin below the budget is part of the evidence
    let per_call = st.cpu_us / c.reps.max(1) as u64;
    if per_call >= 300_000 {
        ctx.classf(format!("cpu/{}/{}", c.entry, if per_call >= 3_000_000 { ">=3s" } else if per_call >= 1_000_000 { "1-3s" } else { "0.3-1s" }));
    }
    if m.nontrivial {
        let mut h = fnv64(c.entry.as_bytes());
        for a in &m.args {
            h = util::splitmix64(h ^ fnv64(a));
        }
        ctx.nontrivial_hash(h);
    }
    if ctx.want_sample() && m.nontrivial && (ctx.sample_count() < 2 || (ctx.seed ^ fnv64(format!("{:?}", c.muts).as_bytes())) % 997 == 0) {
        ctx.sample(json!({"entry": c.entry, "seed": c.seed, "mutations": format!("{:?}", c.muts), "input": hex_trunc(&m.args[m.target], 48), "outcome": oname}));
    }
    let case_json = || {
        let mut v = serde_json::to_value(c).unwrap_or(serde_json::Value::Null);
        if c.args.is_none() {
            if let Some(o) = v.as_object_mut() {
                o.insert("args".into(), json!(m.args.iter().map(|a| util::hex(a)).collect::<Vec<_>>()));
                if m.expect_err {
                    o.insert("expect".into(), json!("err"));
                }
            }
        }
        v
    };
    if let Outcome::Infra(e) = &out {
        ctx.infra(&format!("worker: {} (entry {})", e, c.entry));
        return Ok(());
    }
    let mut bad = verdict(&c.entry, &out, &st);
    if bad.is_none() {
        if m.expect_err && out == Outcome::Value {
            bad = Some(crate::engine::robust::Bad { slug: format!("{}|reported-success", c.entry), detail: format!("the call reported success although it cannot have completed ({})", if c.note.is_empty() { "the patch stream ends before its end-of-file chunk" } else { &c.note }) });
        } else if c.reps > 1 && st.growth >= (c.reps - (c.reps / 4).max(1)) as i64 * 1024 {
            let measured = (c.reps - (c.reps / 4).max(1)) as i64;
            bad = Some(crate::engine::robust::Bad { slug: format!("{}|leak", c.entry), detail: format!("heap in use grew by {} bytes over the last {} of {} repetitions of the same call ({} bytes per call)", st.growth, measured, c.reps, st.growth / measured.max(1)) });
        }
    }
    let _ = input_len;
    match bad {
        None => Ok(()),
        Some(b) => {
            if let Some(h) = harvest() {
                let mut h = h.lock().unwrap();
                let e = h.entry(b.slug.clone()).or_insert_with(|| (0, b.detail.clone(), serde_json::to_string(&case_json()).unwrap_or_default().chars().take(30000).collect()));
                e.0 += 1;
                return Ok(());
            }
            if !ctx.strict && ctx.known_probe_hit(&b.slug) {
                ctx.excluded(0);
                return Ok(());
            }
            set_case_detail(case_json());
            Err(Failure { slug: b.slug, msg: b.detail })
        }
    }
}

// ------------------------------------------------------------------------------------------------
// case lists and strategies
// ------------------------------------------------------------------------------------------------

pub fn truncation_cases(reg: &Registry, cap: usize) -> Vec<RCase> {
    let mut out = vec![];
    for s in &reg.seeds {
        let len = s.bytes().len();
        let mut offs = mutate::sweep_offsets(len, cap);
        for m in &s.marks {
            for d in [-1i64, 0, 1] {
                let o = *m as i64 + d;
                if o >= 0 && (o as usize) < len {
                    offs.push(o as u32);
                }
            }
        }
        offs.sort();
        offs.dedup();
        for o in offs {
            out.push(RCase::seeded(s.entry, &s.name, vec![Mut::Trunc(Pos::Abs(o))]));
        }
    }
    out
}

pub fn field_cases(reg: &Registry, cap: usize, seeds_per_entry: usize) -> Vec<RCase> {
    let mut out = vec![];
    let mut per_entry: BTreeMap<&str, usize> = BTreeMap::new();
    for s in &reg.seeds {
        let n = per_entry.entry(s.entry).or_insert(0);
        *n += 1;
        if *n > seeds_per_entry {
            continue;
        }
        let len = s.bytes().len();
        let mut offs = mutate::sweep_offsets(len, cap);
        for m in &s.marks {
            for d in 0..8u32 {
                if ((*m + d) as usize) < len {
                    offs.push(*m + d);
                }
            }
        }
        offs.sort();
        offs.dedup();
        for o in offs {
            for width in [1u8, 2, 4, 8] {
                if o as usize + width as usize > len {
                    continue;
                }
                // the relational values (KINDS..KINDS_EXT) for 16- and 32-bit fields, where sizes and offsets live
                let kinds = if width == 2 || width == 4 { mutate::KINDS_EXT } else { mutate::KINDS };
                for kind in 0..kinds {
                    // one-byte fields: byte order is irrelevant
                    if width == 1 && kind >= 2 && kind % 2 == 1 {
                        continue;
                    }
                    out.push(RCase::seeded(s.entry, &s.name, vec![Mut::Set { at: Pos::Abs(o), width, kind }]));
                }
            }
        }
    }
    out
}

/// text formats: every line x every separated field x every text operation (see `Mut::Text`)
pub fn text_field_cases(reg: &Registry, entries: &[(&str, &[u8])]) -> Vec<RCase> {
    let mut out = vec![];
    for s in &reg.seeds {
        let Some((_, seps)) = entries.iter().find(|(e, _)| *e == s.entry) else { continue };
        let lines: Vec<&[u8]> = s.bytes().split(|c| *c == b'\n').collect();
        if lines.len() > 400 {
            continue;
        }
        for (li, l) in lines.iter().enumerate() {
            for op in 7..mutate::TEXT_OPS {
                out.push(RCase::seeded(s.entry, &s.name, vec![Mut::Text { line: li as u16, col: 0, sep: seps[0], op }]));
            }
            for sep in seps.iter() {
                let ncols = l.split(|c| c == sep).count();
                if ncols < 2 && *sep != seps[0] {
                    continue;
                }
                for col in 0..ncols.min(16) {
                    for op in (0..7).chain(10..mutate::TEXT_OPS) {
                        out.push(RCase::seeded(s.entry, &s.name, vec![Mut::Text { line: li as u16, col: col as u16, sep: *sep, op }]));
                    }
                }
            }
        }
    }
    out
}

/// text formats: a character whose case mapping changes its UTF-8 length, inserted at the start of every line; and
/// the first two of them at the start of the text combined with every truncation point and with a two-byte
/// character inserted at every offset (byte offsets computed on a case-folded copy then point beside the text)
pub fn case_mapping_cases(reg: &Registry, entries: &[&str], cap: usize, seeds_per_entry: usize) -> Vec<RCase> {
    let mut out = vec![];
    let mut per_entry: BTreeMap<&str, usize> = BTreeMap::new();
    for s in &reg.seeds {
        if !entries.contains(&s.entry) {
            continue;
        }
        let n = per_entry.entry(s.entry).or_insert(0);
        *n += 1;
        if *n > seeds_per_entry {
            continue;
        }
        let b = s.bytes();
        let mut starts = vec![0u32];
        starts.extend(b.iter().enumerate().filter(|(_, c)| **c == b'\n').map(|(i, _)| i as u32 + 1).take(60));
        for ch in mutate::CASE_LENGTH_CHARS {
            for st in &starts {
                out.push(RCase::seeded(s.entry, &s.name, vec![Mut::Insert { at: Pos::Abs(*st), data: Bytes(ch.as_bytes().to_vec()) }]));
            }
        }
        for ch in &mutate::CASE_LENGTH_CHARS[..2] {
            let lead = Mut::Insert { at: Pos::Abs(0), data: Bytes(ch.as_bytes().to_vec()) };
            for o in mutate::sweep_offsets(b.len() + 1, cap) {
                out.push(RCase::seeded(s.entry, &s.name, vec![Mut::Trunc(Pos::Abs(o)), lead.clone()]));
                out.push(RCase::seeded(s.entry, &s.name, vec![Mut::Insert { at: Pos::Abs(o), data: Bytes("\u{e9}".as_bytes().to_vec()) }, lead.clone()]));
            }
        }
    }
    out
}

/// leak probes over one block header: every offset x width {1,2,4} x field value, each repeated `reps` times
pub fn header_leak_cases(entry: &str, note: &str, args: &[Vec<u8>], target: usize, header_at: usize, header_len: usize, reps: u32) -> Vec<RCase> {
    let mut out = vec![];
    for off in 0..header_len {
        for width in [1usize, 2, 4] {
            if off + width > header_len {
                continue;
            }
            let kinds = if width == 1 { mutate::KINDS } else { mutate::KINDS_EXT };
            for kind in 0..kinds {
                if width == 1 && kind >= 2 && kind % 2 == 1 {
                    continue;
                }
                let mut a = args.to_vec();
                let at = header_at + off;
                if at + width > a[target].len() {
                    continue;
                }
                let nb = mutate::field_bytes(&a[target][at..at + width], width, kind);
                if nb == a[target][at..at + width] {
                    continue;
                }
                a[target][at..at + width].copy_from_slice(&nb);
                let mut c = RCase::explicit(entry, note, a);
                c.reps = reps;
                out.push(c);
            }
        }
    }
    out
}

pub fn seed_cases(reg: &Registry) -> Vec<RCase> {
    reg.seeds.iter().map(|s| RCase::seeded(s.entry, &s.name, vec![])).collect()
}

pub fn mutant_strategy(reg: &'static Registry) -> BoxedStrategy<RCase> {
    let n = reg.seeds.len();
    (any::<u16>(), vec(mutate::random_mut(), 1..=3)).prop_map(move |(i, muts)| {
        let s = &reg.seeds[util::pick_idx(i, n)];
        RCase::seeded(s.entry, &s.name, muts)
    })
    .boxed()
}

/// random blobs (optionally behind the seed's magic / first bytes) up to `max` bytes
pub fn blob_strategy(reg: &'static Registry, max: usize) -> BoxedStrategy<RCase> {
    let n = reg.seeds.len();
    let len = prop_oneof![4 => 0usize..64, 3 => 0usize..2048, 1 => 0usize..=max];
    (any::<u16>(), len, any::<u64>(), 0u8..4).prop_map(move |(i, len, seed, keep)| {
        let s = &reg.seeds[util::pick_idx(i, n)];
        let mut blob = crate::build::mdl::random_bytes(seed, len);
        // keep: 0 pure random; 1 magic intact; 2 first 16 bytes of the seed; 3 first quarter of the seed
        let k = match keep {
            0 => 0,
            1 => s.magic,
            2 => 16.min(s.bytes().len()),
            _ => s.bytes().len() / 4,
        };
        let k = k.min(blob.len()).min(s.bytes().len());
        blob[..k].copy_from_slice(&s.bytes()[..k]);
        let mut args = s.args.clone();
        args[s.target] = blob;
        let mut c = RCase::explicit(s.entry, "blob", args);
        c.seed = s.name.clone();
        c
    })
    .boxed()
}

// ------------------------------------------------------------------------------------------------
// growth: the same well-formed structure at full and at half size
// ------------------------------------------------------------------------------------------------

/// Work that grows faster than the input: a case that needs at least a second of CPU at full size and more than
/// 3.2 times what the same structure needs at half size (linear work doubles, quadratic work quadruples). Cases
/// below one second are not judged - timing noise dominates there, and they are far inside the budget anyway.
#[derive(Clone, Debug, Serialize, Deserialize)]
pub struct GrowthCase {
    pub full: RCase,
    pub half: RCase,
}

pub fn growth_cases(full: Vec<RCase>, half: Vec<RCase>) -> Vec<GrowthCase> {
    assert_eq!(full.len(), half.len());
    full.into_iter().zip(half).map(|(full, half)| GrowthCase { full, half }).collect()
}

pub fn run_growth(reg: &Registry, c: &GrowthCase, ctx: &Ctx) -> PResult {
    let mut cpu = [0u64; 2];
    for (k, case) in [&c.half, &c.full].into_iter().enumerate() {
        let m = materialise(reg, case)?;
        let req = Request { entry: &case.entry, reps: 1, args: m.args.iter().map(|a| a.as_slice()).collect() };
        let (out, st) = worker::exec(&req);
        if let Outcome::Infra(e) = &out {
            ctx.infra(&format!("worker: {} (entry {})", e, case.entry));
            return Ok(());
        }
        if let Some(b) = verdict(&case.entry, &out, &st) {
            // the budgets themselves are judged by the scale part; here only report what that part would
            set_case_detail(serde_json::to_value(case).unwrap_or(serde_json::Value::Null));
            return Err(Failure { slug: b.slug, msg: b.detail });
        }
        cpu[k] = st.cpu_us;
    }
    let (half, full) = (cpu[0].max(1), cpu[1]);
    ctx.classf(format!("growth/{}/{}", c.full.entry, if full < 1_000_000 { "full-size-below-1s:not-judged" } else { "judged" }));
    ctx.nontrivial_hash(fnv64(c.full.note.as_bytes()) ^ fnv64(c.full.entry.as_bytes()));
    if full >= 1_000_000 && full as f64 > 3.2 * half as f64 {
        set_case_detail(serde_json::to_value(&c.full).unwrap_or(serde_json::Value::Null));
        return Err(Failure { slug: format!("{}|superlinear", c.full.entry), msg: format!("{}: {:.2} s of CPU at full size, {:.2} s at half size ({:.1} times as much for twice the input)", c.full.note, full as f64 / 1e6, half as f64 / 1e6, full as f64 / half as f64) });
    }
    Ok(())
}

//! C11 — the SqexArg cipher is standard Blowfish and decryption inverts encryption.
use crate::engine::panics::guard;
use crate::engine::util::{fnv64, Bytes};
use crate::engine::*;
use crate::oracle::blowfish as refbf;
use crate::{ensure, ensure_eq, gen};
use proptest::collection::vec;
use proptest::prelude::*;
use serde::{Deserialize, Serialize};
use serde_json::json;

#[derive(Clone, Debug, Serialize, Deserialize)]
pub struct Case {
    pub key: Bytes,
    pub msg: Bytes,
}

fn strategy(ctx: &Ctx) -> BoxedStrategy<Case> {
    let max = ctx.tier.pick(4096usize, 65536usize);
    let key = prop_oneof![
        3 => vec(any::<u8>(), 8..=8),
        3 => vec(any::<u8>(), 8..=56),
        1 => vec(prop::sample::select(vec![0u8, 0xff, 0x80, 0x7f, 1]), 8..=16),
        // bytes that are no valid UTF-8 on their own (continuation bytes, 0xF8..): keys are bytes, not text
        1 => vec(prop_oneof![3 => 0x80u8..=0xBF, 1 => 0xF8u8..=0xFF], 8..=12),
    ];
    (key, gen::bytes(max)).prop_map(|(k, m)| Case { key: Bytes(k), msg: Bytes(m) }).boxed()
}

fn pad8(m: &[u8]) -> Vec<u8> {
    let mut v = m.to_vec();
    while v.len() % 8 != 0 {
        v.push(0);
    }
    v
}

fn ref_crypt(key: &[u8], padded: &[u8], enc: bool) -> Vec<u8> {
    let bf = refbf::Blowfish::new(&key[..8]);
    let mut out = Vec::with_capacity(padded.len());
    for blk in padded.chunks(8) {
        let l = u32::from_le_bytes([blk[0], blk[1], blk[2], blk[3]]);
        let r = u32::from_le_bytes([blk[4], blk[5], blk[6], blk[7]]);
        let (a, b) = if enc { bf.enc(l, r) } else { bf.dec(l, r) };
        out.extend_from_slice(&a.to_le_bytes());
        out.extend_from_slice(&b.to_le_bytes());
    }
    out
}

fn prop(c: &Case, ctx: &Ctx) -> PResult {
    let key = &c.key.0;
    let msg = &c.msg.0;
    let padded = pad8(msg);
    // A cipher is a function of its own key only. Immediately before it, on the same thread, another cipher is set up
    // and used with a key that is close to this one: same bytes but the last / the first, same length with every high
    // byte replaced by another high byte, the key cut to 8 bytes or extended.
    {
        let sel = fnv64(key) ^ msg.len() as u64;
        let mut prev = key.clone();
        match sel % 5 {
            0 => *prev.last_mut().unwrap() ^= 0x01,
            1 => prev[0] ^= 0x80,
            2 => prev.iter_mut().for_each(|b| {
                if *b >= 0x80 {
                    *b ^= 0x01
                } else {
                    *b ^= 0x20
                }
            }),
            3 => prev.truncate(8),
            _ => prev.push(0x41),
        }
        if prev != *key {
            let before = guard("Blowfish::new", || physis::blowfish::Blowfish::new(&prev))?;
            let _ = guard("encrypt", || before.encrypt(msg))?;
            ctx.class("preceded-by-a-cipher-with-a-similar-key");
        }
    }
    let fish = guard("Blowfish::new", || physis::blowfish::Blowfish::new(key))?;
    let enc = guard("encrypt", || fish.encrypt(msg))?;
    let enc = match enc {
        Some(e) => e,
        None => return fail("encrypt-none", "encrypt returned None"),
    };
    ensure_eq!(enc.len(), padded.len(), "encrypt-length", "ciphertext length for {}-byte message", msg.len());
    let want = ref_crypt(key, &padded, true);
    ensure!(enc == want, "encrypt-differs", "ciphertext differs from standard Blowfish (key {} bytes, msg {} bytes): first differing block {}", key.len(), msg.len(), enc.chunks(8).zip(want.chunks(8)).position(|(a, b)| a != b).unwrap_or(0));
    let dec = guard("decrypt", || fish.decrypt(&enc))?;
    let dec = match dec {
        Some(d) => d,
        None => return fail("decrypt-none", "decrypt returned None"),
    };
    ensure!(dec == padded, "decrypt-not-inverse", "decrypt(encrypt(m)) != zero-padded m for {}-byte message", msg.len());
    // decrypt direction on arbitrary ciphertext (the message bytes themselves)
    let dec2 = guard("decrypt", || fish.decrypt(msg))?;
    let dec2 = match dec2 {
        Some(d) => d,
        None => return fail("decrypt-none", "decrypt returned None"),
    };
    let want2 = ref_crypt(key, &padded, false);
    ensure!(dec2 == want2, "decrypt-differs", "decrypt of arbitrary ciphertext differs from standard Blowfish ({} bytes)", msg.len());
    // only the first 8 key bytes are significant
    if key.len() > 8 {
        let fish8 = guard("Blowfish::new", || physis::blowfish::Blowfish::new(&key[..8]))?;
        let e8 = guard("encrypt", || fish8.encrypt(msg))?;
        ensure!(e8.as_deref() == Some(&enc[..]), "key-tail-significant", "bytes after the 8th changed the ciphertext");
        ctx.class("key>8");
    } else {
        ctx.class("key=8");
    }
    ctx.class(if msg.len() % 8 == 0 { "msg:multiple-of-8" } else { "msg:needs-padding" });
    ctx.class(if msg.is_empty() { "msg:empty" } else if msg.len() <= 8 { "msg:1-block" } else { "msg:multi-block" });
    if msg.len() % 8 != 0 && msg.len() > 8 {
        let mut k = key.clone();
        k.extend_from_slice(msg);
        ctx.nontrivial_hash(fnv64(&k));
        if ctx.want_sample() {
            ctx.sample(json!({"key": util::hex(key), "msg_len": msg.len(), "msg_prefix": util::hex_trunc(msg, 16), "cipher_prefix": util::hex_trunc(&enc, 16)}));
        }
    }
    Ok(())
}

/// Schneier's published ECB vectors re-expressed in the little-endian word packing Physis uses.
#[derive(Clone, Debug, Serialize, Deserialize)]
pub struct VecCase {
    pub key: u64,
    pub plain: u64,
    pub cipher: u64,
}

fn vectors(_: &Ctx) -> Vec<VecCase> {
    let v: &[(u64, u64, u64)] = &[
        (0x0000000000000000, 0x0000000000000000, 0x4EF997456198DD78),
        (0xFFFFFFFFFFFFFFFF, 0xFFFFFFFFFFFFFFFF, 0x51866FD5B85ECB8A),
        (0x3000000000000000, 0x1000000000000001, 0x7D856F9A613063F2),
        (0x1111111111111111, 0x1111111111111111, 0x2466DD878B963C9D),
        (0x0123456789ABCDEF, 0x1111111111111111, 0x61F9C3802281B096),
        (0x1111111111111111, 0x0123456789ABCDEF, 0x7D0CC630AFDA1EC7),
        (0x0000000000000000, 0x0000000000000000, 0x4EF997456198DD78),
        (0xFEDCBA9876543210, 0x0123456789ABCDEF, 0x0ACEAB0FC6A0A28D),
        (0x7CA110454A1A6E57, 0x01A1D6D039776742, 0x59C68245EB05282B),
        (0x0131D9619DC1376E, 0x5CD54CA83DEF57DA, 0xB1B8CC0B250F09A0),
        (0x07A1133E4A0B2686, 0x0248D43806F67172, 0x1730E5778BEA1DA4),
        (0x3849674C2602319E, 0x51454B582DDF440A, 0xA25E7856CF2651EB),
        (0x04B915BA43FEB5B6, 0x42FD443059577FA2, 0x353882B109CE8F1A),
        (0x0113B970FD34F2CE, 0x059B5E0851CF143A, 0x48F4D0884C379918),
        (0x0170F175468FB5E6, 0x0756D8E0774761D2, 0x432193B78951FC98),
        (0x43297FAD38E373FE, 0x762514B829BF486A, 0x13F04154D69D1AE5),
        (0x07A7137045DA2A16, 0x3BDD119049372802, 0x2EEDDA93FFD39C79),
        (0x04689104C2FD3B2F, 0x26955F6835AF609A, 0xD887E0393C2DA6E3),
        (0x37D06BB516CB7546, 0x164D5E404F275232, 0x5F99D04F5B163969),
        (0x1F08260D1AC2465E, 0x6B056E18759F5CCA, 0x4A057A3B24D3977B),
        (0x584023641ABA6176, 0x004BD6EF09176062, 0x452031C1E4FADA8E),
        (0x025816164629B007, 0x480D39006EE762F2, 0x7555AE39F59B87BD),
        (0x49793EBC79B3258F, 0x437540C8698F3CFA, 0x53C55F9CB49FC019),
        (0x4FB05E1515AB73A7, 0x072D43A077075292, 0x7A8E7BFA937E89A3),
        (0x49E95D6D4CA229BF, 0x02FE55778117F12A, 0xCF9C5D7A4986ADB5),
        (0x018310DC409B26D6, 0x1D9D5C5018F728C2, 0xD1ABB290658BC778),
        (0x1C587F1C13924FEF, 0x305532286D6F295A, 0x55CB3774D13EF201),
        (0x0101010101010101, 0x0123456789ABCDEF, 0xFA34EC4847B268B2),
        (0x1F1F1F1F0E0E0E0E, 0x0123456789ABCDEF, 0xA790795108EA3CAE),
        (0xE0FEE0FEF1FEF1FE, 0x0123456789ABCDEF, 0xC39E072D9FAC631D),
        (0x0000000000000000, 0xFFFFFFFFFFFFFFFF, 0x014933E0CDAFF6E4),
        (0xFFFFFFFFFFFFFFFF, 0x0000000000000000, 0xF21E9A77B71C49BC),
        (0x0123456789ABCDEF, 0x0000000000000000, 0x245946885754369A),
        (0xFEDCBA9876543210, 0xFFFFFFFFFFFFFFFF, 0x6B5C5A9C5D9E0A5A),
    ];
    v.iter().map(|&(key, plain, cipher)| VecCase { key, plain, cipher }).collect()
}

fn le_block(x: u64) -> Vec<u8> {
    let mut v = ((x >> 32) as u32).to_le_bytes().to_vec();
    v.extend_from_slice(&(x as u32).to_le_bytes());
    v
}

fn prop_vector(c: &VecCase, ctx: &Ctx) -> PResult {
    let fish = guard("Blowfish::new", || physis::blowfish::Blowfish::new(&c.key.to_be_bytes()))?;
    let enc = guard("encrypt", || fish.encrypt(&le_block(c.plain)))?;
    ensure_eq!(enc, Some(le_block(c.cipher)), "published-vector-encrypt", "Schneier vector key={:016x} plain={:016x}", c.key, c.plain);
    let dec = guard("decrypt", || fish.decrypt(&le_block(c.cipher)))?;
    ensure_eq!(dec, Some(le_block(c.plain)), "published-vector-decrypt", "Schneier vector key={:016x}", c.key);
    ctx.class("published-vector");
    Ok(())
}

fn pre(ctx: &Ctx) {
    if let Err(e) = refbf::self_check() {
        ctx.infra(&format!("reference Blowfish self-check failed: {}", e));
    }
}

pub fn property() -> Property {
    Property {
        id: "C11",
        rule: "keys of 8..56 random bytes (and extreme byte patterns) x messages of 0..4096 bytes (64 KiB thorough): Physis encrypt/decrypt compared block by block with a textbook 16-round Blowfish whose P/S tables are computed at run time from the hexadecimal expansion of pi (Machin formula over a private bigint), keyed with the first 8 key bytes, on little-endian words of the zero-padded message; decrypt(encrypt(m)) = pad(m); arbitrary bytes decrypted and compared; bytes after the 8th key byte must not matter; Schneier's 34 published ECB vectors enumerated. Non-trivial: message longer than one block whose length is not a multiple of 8. Distinct by hash of key||message.",
        assumptions: &["pi digits self-checked against the first/last table words and Schneier's vectors before use", "tables are private: a wrong table word is detected through ciphertext (each key schedule performs 521*64 table look-ups)"],
        pre: Some(pre),
        post: None,
        parts: vec![
            Box::new(Part { name: "published-vectors", driver: Driver::Enum(vectors), prop: prop_vector, exhaustive: true }),
            Box::new(Part { name: "random-keys", driver: Driver::Gen(strategy, 240_000, 3_840_000), prop: prop, exhaustive: false }),
        ],
    }
}

//! C02 — extraction returns exactly the bytes that were packed.
use crate::build::deflate::{Mode, MODES};
use crate::build::sqpack::{self, BlockSpec, Install, ModelEntrySpec};
use crate::engine::panics::guard;
use crate::engine::tmp::TmpDir;
use crate::engine::*;
use crate::{ensure, ensure_eq};
use proptest::collection::vec;
use proptest::prelude::*;
use serde::{Deserialize, Serialize};
use serde_json::json;

/// (length, deflate mode, content style)
pub type Blk = (u16, Mode, u8);

#[derive(Clone, Debug, Serialize, Deserialize)]
pub enum Entry {
    Standard { blocks: Vec<Blk>, gaps: Vec<u8> },
    Texture { header_len: u16, mips: Vec<Vec<Blk>> },
    Model { version: u32, stack: Vec<Blk>, runtime: Vec<Blk>, lods: Vec<(Vec<Blk>, Vec<Blk>)>, decl: u16, material: u16, flags: (bool, bool) },
}

#[derive(Clone, Debug, Serialize, Deserialize)]
pub struct Case {
    pub entry: Entry,
    pub seed: u64,
    pub dat_id: u8,
    /// number of 128-byte units of unrelated bytes before the entry (after the 2048-byte dat header)
    pub lead_128: u16,
    pub extra_header_128: u8,
    pub platform: u8,
    /// read through GameData::extract via an index instead of SqPackData directly
    pub via_index: bool,
    pub index2: bool,
}

pub fn block_len() -> BoxedStrategy<u16> {
    prop_oneof![
        4 => 1u16..=300,
        2 => prop::sample::select(vec![1u16, 2, 15, 16, 111, 112, 113, 127, 128, 129, 255, 256, 4095, 4096, 15999, 16000]),
        2 => 1u16..=16000,
        1 => 15000u16..=16000,
    ]
    .boxed()
}

pub fn mode() -> BoxedStrategy<Mode> {
    any::<u16>().prop_map(|i| MODES[util::pick_idx(i, MODES.len())]).boxed()
}

pub fn blk() -> BoxedStrategy<Blk> {
    (block_len(), mode(), 0u8..5).boxed()
}

fn blocks(min: usize, max: usize) -> BoxedStrategy<Vec<Blk>> {
    vec(blk(), min..=max).boxed()
}

fn entry_strategy(ctx: &Ctx) -> BoxedStrategy<Entry> {
    let many = ctx.tier.pick(6usize, 70usize);
    let standard = prop_oneof![
        6 => blocks(0, 5),
        2 => blocks(1, many),
        1 => vec((15900u16..=16000, mode(), 0u8..5), 1..=many),
        // block counts for which the block table ends exactly where the minimal 128-aligned header ends
        // (24 + 8 n = 128 k: n = 13, 29, 45), and their neighbours
        1 => prop::sample::select(vec![12usize, 13, 14, 28, 29, 30, 45]).prop_flat_map(|n| vec((1u16..=200, mode(), 0u8..5), n)),
    ]
    .prop_flat_map(|b| {
        let n = b.len();
        (Just(b), vec(prop_oneof![3 => Just(0u8), 1 => 0u8..3], n))
    })
    .prop_map(|(blocks, gaps)| Entry::Standard { blocks, gaps });
    let texture = (0u16..=200, vec(blocks(1, 4), 1..=13)).prop_map(|(header_len, mips)| Entry::Texture { header_len, mips });
    let model = (
        prop::sample::select(vec![0x0100_0005u32, 0x0100_0006, 5, 6]),
        blocks(1, 3),
        blocks(1, 3),
        vec((blocks(0, 4), blocks(0, 4)), 1..=3),
        any::<u16>(),
        any::<u16>(),
        any::<(bool, bool)>(),
    )
        .prop_map(|(version, stack, runtime, mut lods, decl, material, flags)| {
            // LOD 0 always carries vertex data
            if lods[0].0.is_empty() {
                lods[0].0.push((64, Mode::Raw, 0));
            }
            Entry::Model { version, stack, runtime, lods, decl, material, flags }
        });
    // entries of thousands of tiny blocks: their block tables (8, 2 and 2 bytes per block) are longer than any buffer a reader
    // is likely to read them through (4 KiB, 8 KiB, 64 KiB), the counts sit around those sizes
    let tiny = |n: usize| vec((1u16..=40, mode(), 0u8..5), n);
    let many_standard = prop::sample::select(vec![510usize, 1020, 1021, 1024, 2047, 8200]).prop_flat_map(move |n| tiny(n)).prop_map(|blocks| {
        let gaps = vec![0u8; blocks.len()];
        Entry::Standard { blocks, gaps }
    });
    let many_texture = (0u16..=200, prop::sample::select(vec![2040usize, 4050, 4070, 4096, 5040]), 0usize..3).prop_flat_map(move |(header_len, n, extra)| (Just(header_len), tiny(n), vec(blocks(1, 2), extra))).prop_map(|(header_len, first, rest)| {
        let mut mips = vec![first];
        mips.extend(rest);
        Entry::Texture { header_len, mips }
    });
    let many_model = (prop::sample::select(vec![2040usize, 4090, 4100]), blocks(1, 2), blocks(1, 2), any::<u16>(), any::<u16>(), any::<bool>()).prop_flat_map(move |(n, stack, runtime, decl, material, which)| (tiny(n), Just((stack, runtime, decl, material, which)))).prop_map(|(many, (stack, runtime, decl, material, which))| {
        let few: Vec<Blk> = vec![(64, Mode::Raw, 0)];
        let lods = if which { vec![(many, few)] } else { vec![(few.clone(), many), (few.clone(), few)] };
        Entry::Model { version: 0x0100_0005, stack, runtime, lods, decl, material, flags: (false, true) }
    });
    prop_oneof![500 => standard, 300 => texture, 300 => model, 2 => many_standard, 2 => many_texture, 1 => many_model].boxed()
}

fn strategy(ctx: &Ctx) -> BoxedStrategy<Case> {
    (entry_strategy(ctx), any::<u64>(), 0u8..8, prop_oneof![3 => 0u16..4, 1 => 0u16..2000], 0u8..3, 0u8..5, prop::bool::weighted(0.25), any::<bool>())
        .prop_map(|(entry, seed, dat_id, lead_128, extra_header_128, platform, via_index, index2)| Case { entry, seed, dat_id, lead_128, extra_header_128, platform, via_index, index2 })
        .boxed()
}

/// Deterministic block content in one of several styles (so Huffman coding and matching are exercised).
pub fn content(seed: u64, idx: u64, len: usize, style: u8) -> Vec<u8> {
    let mut x = util::splitmix64(seed ^ idx.wrapping_mul(0x9E37_79B9));
    let mut out = Vec::with_capacity(len);
    match style {
        0 => {
            while out.len() < len {
                x = util::splitmix64(x);
                out.extend_from_slice(&x.to_le_bytes());
            }
        }
        1 => {
            // text-like, small alphabet
            let alpha = b"etaoin shrdlu,./EXD_0123\n";
            while out.len() < len {
                x = util::splitmix64(x);
                for k in 0..8 {
                    out.push(alpha[((x >> (8 * k)) & 0xff) as usize % alpha.len()]);
                }
            }
        }
        2 => {
            // long runs
            while out.len() < len {
                x = util::splitmix64(x);
                let run = (x & 0x3ff) as usize + 1;
                let b = (x >> 16) as u8;
                out.extend(std::iter::repeat(b).take(run));
            }
        }
        3 => {
            // repeated phrase with mutations (back-references)
            let phrase: Vec<u8> = (0..37).map(|i| (util::splitmix64(x ^ i) & 0xff) as u8).collect();
            while out.len() < len {
                x = util::splitmix64(x);
                out.extend_from_slice(&phrase[..(x as usize % 37) + 1]);
            }
        }
        _ => {
            out.resize(len, (x & 0xff) as u8);
        }
    }
    out.truncate(len);
    out
}

fn specs(seed: u64, base: u64, blocks: &[Blk]) -> Vec<BlockSpec> {
    blocks.iter().enumerate().map(|(i, (len, mode, style))| BlockSpec { data: content(seed, base + i as u64, *len as usize, *style), mode: *mode }).collect()
}

fn concat(s: &[BlockSpec]) -> Vec<u8> {
    let mut v = vec![];
    for b in s {
        v.extend_from_slice(&b.data);
    }
    v
}

struct Expected {
    standard_or_texture: Option<Vec<u8>>,
    model: Option<ModelExpect>,
}

struct ModelExpect {
    spec: ModelEntrySpec,
}

fn build_entry(c: &Case) -> (Vec<u8>, Expected) {
    match &c.entry {
        Entry::Standard { blocks, gaps } => {
            let s = specs(c.seed, 0, blocks);
            let gaps: Vec<usize> = gaps.iter().map(|g| *g as usize).collect();
            // a third of the multi-block entries store their blocks in another order than the content has them
            let mut order: Vec<usize> = vec![];
            if s.len() >= 2 && (c.seed >> 40) % 3 == 0 {
                order = (0..s.len()).collect();
                let mut x = c.seed ^ 0x0DE2;
                for i in (1..s.len()).rev() {
                    x = util::splitmix64(x);
                    order.swap(i, (x % (i as u64 + 1)) as usize);
                }
            }
            (sqpack::standard_entry_ordered(&s, c.extra_header_128 as usize, &gaps, &order), Expected { standard_or_texture: Some(concat(&s)), model: None })
        }
        Entry::Texture { header_len, mips } => {
            let header = content(c.seed, 9999, *header_len as usize, 0);
            let mut exp = header.clone();
            let mut m = vec![];
            for (i, mip) in mips.iter().enumerate() {
                let s = specs(c.seed, 100 * (i as u64 + 1), mip);
                exp.extend_from_slice(&concat(&s));
                m.push(s);
            }
            // a third of the textures with several levels have 1..3 units of unrelated bytes in front of the later levels
            // (every level record carries its own offset)
            let gaps: Vec<usize> = if c.seed % 3 == 1 { (0..m.len()).map(|i| if i == 0 { 0 } else { 1 + ((c.seed >> (8 + 2 * i as u64)) % 3) as usize }).collect() } else { vec![] };
            (sqpack::texture_entry_with_gaps(&header, &m, c.extra_header_128 as usize, &gaps), Expected { standard_or_texture: Some(exp), model: None })
        }
        Entry::Model { version, stack, runtime, lods, decl, material, flags } => {
            let mut spec = ModelEntrySpec { version: *version, decl_num: *decl, material_num: *material, num_lods: lods.len() as u8, index_streaming: flags.0, edge_geometry: flags.1, ..Default::default() };
            spec.stack = specs(c.seed, 1000, stack);
            spec.runtime = specs(c.seed, 2000, runtime);
            for (i, (v, ix)) in lods.iter().enumerate() {
                spec.vertex[i] = specs(c.seed, 3000 + 100 * i as u64, v);
                spec.index[i] = specs(c.seed, 4000 + 100 * i as u64, ix);
            }
            // a third of the model entries store their sections in another physical order than the logical one, with
            // unrelated bytes between them: every section is found through its own offset in the slot table
            if (c.seed >> 8) % 3 == 0 {
                let mut order: Vec<usize> = (0..8).collect();
                let mut x = c.seed;
                for i in (1..8).rev() {
                    x = util::splitmix64(x);
                    order.swap(i, (x % (i as u64 + 1)) as usize);
                }
                spec.phys_order = order;
                spec.phys_gap_128 = ((c.seed >> 16) % 3) as usize;
            }
            (sqpack::model_entry(&spec, c.extra_header_128 as usize), Expected { standard_or_texture: None, model: Some(ModelExpect { spec }) })
        }
    }
}

fn rd32(b: &[u8], at: usize) -> u32 {
    u32::from_le_bytes([b[at], b[at + 1], b[at + 2], b[at + 3]])
}
fn rd16(b: &[u8], at: usize) -> u16 {
    u16::from_le_bytes([b[at], b[at + 1]])
}

fn check_model(out: &[u8], e: &ModelExpect) -> PResult {
    let s = &e.spec;
    ensure!(out.len() >= 0x44, "model-too-short", "model output of {} bytes has no file header", out.len());
    let stack = concat(&s.stack);
    let runtime = concat(&s.runtime);
    ensure_eq!(rd32(out, 0), s.version, "model-header-version", "version");
    ensure_eq!(rd32(out, 4) as usize, stack.len(), "model-header-stack-size", "stack size");
    ensure_eq!(rd32(out, 8) as usize, runtime.len(), "model-header-runtime-size", "runtime size");
    ensure_eq!(rd16(out, 12), s.decl_num, "model-header-decl", "vertex declaration count");
    ensure_eq!(rd16(out, 14), s.material_num, "model-header-material", "material count");
    ensure_eq!(out[64], s.num_lods, "model-header-lods", "lod count");
    ensure_eq!(out[65] != 0, s.index_streaming, "model-header-flag", "index buffer streaming flag");
    ensure_eq!(out[66] != 0, s.edge_geometry, "model-header-flag", "edge geometry flag");
    let total = 0x44 + stack.len() + runtime.len() + (0..3).map(|i| concat(&s.vertex[i]).len() + concat(&s.index[i]).len()).sum::<usize>();
    ensure_eq!(out.len(), total, "model-length", "model file length");
    ensure!(out[0x44..0x44 + stack.len()] == stack[..], "model-stack-bytes", "stack section differs");
    ensure!(out[0x44 + stack.len()..0x44 + stack.len() + runtime.len()] == runtime[..], "model-runtime-bytes", "runtime section differs");
    for i in 0..3 {
        for (what, sect, off_at, size_at) in [("vertex", concat(&s.vertex[i]), 16 + 4 * i, 40 + 4 * i), ("index", concat(&s.index[i]), 28 + 4 * i, 52 + 4 * i)] {
            let off = rd32(out, off_at) as usize;
            let size = rd32(out, size_at) as usize;
            ensure_eq!(size, sect.len(), "model-section-size", "LOD {} {} buffer size", i, what);
            if !sect.is_empty() {
                ensure!(off >= 0x44 + stack.len() + runtime.len() && off + size <= out.len(), "model-section-out-of-bounds", "LOD {} {} section [{}, +{}) outside the {}-byte file", i, what, off, size, out.len());
                ensure!(out[off..off + size] == sect[..], "model-section-bytes", "LOD {} {} section at {} differs from the packed bytes", i, what, off);
            }
        }
    }
    Ok(())
}

fn prop(c: &Case, ctx: &Ctx) -> PResult {
    let (entry, expected) = build_entry(c);
    let offset = 2048u64 + c.lead_128 as u64 * 128;
    let lead = content(c.seed, 77, c.lead_128 as usize * 128, 0);
    let mut dat = sqpack::sqpack_header(c.platform, 1, -1);
    dat.resize(2048, 0);
    dat.extend_from_slice(&lead);
    dat.extend_from_slice(&entry);
    // trailing unrelated bytes
    dat.extend_from_slice(&content(c.seed, 78, 256, 0));
    // a quarter of the direct reads happen on a handle with history: a damaged entry of the same dat file (its last
    // block overwritten) was read first. Whatever that read returned, the intact entry must still come back whole.
    let damaged_at: Option<u64> = if !c.via_index && (c.seed >> 20) % 4 == 0 {
        while dat.len() % 128 != 0 {
            dat.push(0);
        }
        let at = dat.len() as u64;
        let b = |n: usize, mode: Mode, i: u64| BlockSpec { data: content(c.seed, 500 + i, n, 1), mode };
        let mut damaged = match (c.seed >> 24) % 3 {
            0 => sqpack::standard_entry(&[b(90, Mode::Raw, 0), b(90, Mode::Raw, 1), b(300, MODES[(c.seed >> 28) as usize % MODES.len()], 2)], 0, &[]),
            1 => sqpack::texture_entry(&content(c.seed, 510, 80, 0), &[vec![b(200, Mode::Raw, 3), b(100, Mode::Raw, 4)], vec![b(50, Mode::Raw, 5)]], 0),
            _ => sqpack::model_entry(&ModelEntrySpec { version: 0x0100_0005, stack: vec![b(136, Mode::Raw, 6)], runtime: vec![b(200, Mode::Raw, 7)], vertex: [vec![b(64, Mode::Raw, 8), b(64, Mode::Raw, 9)], vec![], vec![]], index: [vec![b(32, Mode::Raw, 10)], vec![], vec![]], decl_num: 1, material_num: 1, num_lods: 1, ..Default::default() }, 0),
        };
        let n = damaged.len();
        match (c.seed >> 32) % 3 {
            0 => damaged[n - 128..].fill(0xFF),
            1 => damaged[n - 112..].fill(0xFF), // the last block's header stays, its payload is damaged
            _ => damaged.truncate(n - 128),     // the dat file ends in front of the last block
        }
        dat.extend_from_slice(&damaged);
        Some(at)
    } else {
        None
    };

    let out: Option<Vec<u8>> = if c.via_index {
        let inst = Install::new("c02");
        let stem = sqpack::file_stem(0x04, 0, 0, c.platform as usize);
        let path = "chara/test/file.bin";
        let rec = sqpack::IndexRecord { path: path.to_string(), dat_id: c.dat_id, offset, synonym: false };
        // a decoy in *another* dat file of the same chunk, at the same offset, extracted first on the same handle:
        // the bytes returned for the real path must still come from the dat file its index entry names
        let decoy_dat = (c.dat_id + 1 + (c.seed % 7) as u8) % 8;
        let decoy_path = "chara/test/decoy.bin";
        let decoy = sqpack::IndexRecord { path: decoy_path.to_string(), dat_id: decoy_dat, offset, synonym: false };
        let decoy_content = b"decoy entry in another dat file".to_vec();
        let mut dat2 = sqpack::sqpack_header(c.platform, 1, -1);
        dat2.resize(2048, 0);
        dat2.extend_from_slice(&lead);
        dat2.extend_from_slice(&sqpack::standard_entry(&[sqpack::BlockSpec { data: decoy_content.clone(), mode: Mode::Raw }], 0, &[]));
        inst.write(0, &format!("{}.index{}", stem, if c.index2 { "2" } else { "" }), &sqpack::index_file(c.platform, -1, c.index2, &[rec, decoy], 8, true));
        inst.write(0, &format!("{}.dat{}", stem, c.dat_id), &dat);
        inst.write(0, &format!("{}.dat{}", stem, decoy_dat), &dat2);
        let (first, second) = guard("GameData::extract", || {
            let mut g = physis::gamedata::GameData::from_existing(sqpack::platform_enum(c.platform as usize), &inst.game_dir())?;
            let first = if c.seed % 2 == 0 { g.extract(decoy_path) } else { None };
            let second = g.extract(path);
            let after = if c.seed % 2 == 1 { g.extract(decoy_path) } else { first };
            Some((after, second))
        })?
        .unwrap_or((None, None));
        if first.as_deref() != Some(&decoy_content[..]) {
            return fail("decoy-content-differs", format!("the second file of the chunk (stored in dat{}) was extracted as {:?}", decoy_dat, first.map(|b| String::from_utf8_lossy(&b[..b.len().min(40)]).to_string())));
        }
        ctx.class("route:two-dat-files-on-one-handle");
        second
    } else {
        let dir = TmpDir::new("c02");
        let p = dir.join(format!("040000.win32.dat{}", c.dat_id));
        std::fs::write(&p, &dat).unwrap();
        // one direct read in thirty-two is of an entry stored far into a (sparse) data file: just below and above 2 GiB,
        // just below and above 4 GiB - an entry may lie at any 128-aligned offset
        let mut offset = offset;
        if damaged_at.is_none() && c.seed % 32 == 9 {
            use std::io::{Seek, SeekFrom, Write};
            let far = [0x7800_0080u64, 0x8000_0000, 0xFFFF_FF80, 0x1_0000_0080][(c.seed >> 8) as usize % 4];
            let mut f = std::fs::OpenOptions::new().write(true).open(&p).unwrap();
            f.seek(SeekFrom::Start(far)).unwrap();
            f.write_all(&entry).unwrap();
            f.write_all(&content(c.seed, 78, 256, 0)).unwrap();
            offset = far;
            ctx.classf(format!("entry-offset:{:#x}", far));
        }
        guard("SqPackData::read_from_offset", || {
            let mut d = physis::sqpack::SqPackData::from_existing(p.to_str().unwrap())?;
            if let Some(at) = damaged_at {
                let _ = d.read_from_offset(at);
            }
            d.read_from_offset(offset)
        })?
    };
    let out = match out {
        Some(o) => o,
        None => return fail("extract-none", "extraction of a well-formed entry returned None"),
    };
    let (kind, nblocks, has_raw, has_defl, multi) = match &c.entry {
        Entry::Standard { blocks, .. } => ("standard", blocks.len(), blocks.iter().any(|b| b.1 == Mode::Raw), blocks.iter().any(|b| b.1 != Mode::Raw), false),
        Entry::Texture { mips, .. } => ("texture", mips.iter().map(|m| m.len()).sum(), mips.iter().flatten().any(|b| b.1 == Mode::Raw), mips.iter().flatten().any(|b| b.1 != Mode::Raw), mips.len() >= 2),
        Entry::Model { lods, .. } => ("model", lods.iter().map(|l| l.0.len() + l.1.len()).sum::<usize>() + 2, true, true, lods.len() >= 2),
    };
    if let Some(exp) = &expected.standard_or_texture {
        if out != *exp {
            let pos = out.iter().zip(exp.iter()).position(|(a, b)| a != b).unwrap_or(out.len().min(exp.len()));
            return fail(&format!("{}-content-differs", kind), format!("{} entry: extracted {} bytes, packed {} bytes, first difference at {}", kind, out.len(), exp.len(), pos));
        }
    }
    if let Some(m) = &expected.model {
        check_model(&out, m)?;
    }
    ctx.classf(format!("kind:{}", kind));
    ctx.classf(format!("blocks:{}", match nblocks { 0 => "0", 1 => "1", 2..=4 => "2-4", 5..=16 => "5-16", 17..=499 => "17-499", 500..=2046 => "500-2046", 2047..=4089 => "2047-4089", _ => ">=4090" }));
    if nblocks >= 500 { ctx.classf(format!("many-blocks:{}", kind)); }
    ctx.classf(format!("size:{}", match out.len() { 0 => "0", 1..=1023 => "<1K", 1024..=65535 => "1K-64K", _ => ">=64K" }));
    ctx.classf(format!("dat{}", c.dat_id));
    if damaged_at.is_some() {
        ctx.class("route:after-a-failed-read-on-the-same-handle");
    }
    if let Entry::Standard { blocks, .. } = &c.entry {
        if blocks.len() >= 2 && (c.seed >> 40) % 3 == 0 {
            ctx.class("standard:blocks-stored-out-of-content-order");
        }
    }
    if let Entry::Model { .. } = &c.entry {
        if (c.seed >> 8) % 3 == 0 {
            ctx.class("model:sections-in-another-physical-order");
        }
    }
    if c.via_index {
        ctx.class("route:GameData::extract");
    } else {
        ctx.class("route:SqPackData");
    }
    match &c.entry {
        Entry::Standard { blocks, .. } => blocks.iter().for_each(|b| ctx.classf(format!("mode:{:?}", b.1))),
        Entry::Texture { mips, .. } => mips.iter().flatten().for_each(|b| ctx.classf(format!("mode:{:?}", b.1))),
        Entry::Model { lods, stack, runtime, .. } => stack.iter().chain(runtime).chain(lods.iter().flat_map(|l| l.0.iter().chain(l.1.iter()))).for_each(|b| ctx.classf(format!("mode:{:?}", b.1))),
    }
    if (nblocks >= 2 && has_raw && has_defl) || multi {
        ctx.nontrivial(&entry);
        if ctx.want_sample() {
            ctx.sample(json!({"kind": kind, "blocks": nblocks, "extracted_len": out.len(), "dat": c.dat_id, "offset": offset, "via_index": c.via_index, "entry_prefix": util::hex_trunc(&entry, 48), "case": format!("{:?}", c.entry).chars().take(300).collect::<String>()}));
        }
    }
    Ok(())
}

fn pre(ctx: &Ctx) {
    if let Err(e) = crate::build::deflate::self_check() {
        ctx.infra(&format!("deflate producer self-check failed: {}", e));
    }
}

pub fn property() -> Property {
    Property {
        id: "C02",
        rule: "[rounds 8-9: deflate shapes 'several stored pieces' and 'several flushed blocks'; one entry in 200 with a block table of 510..8 200 (standard), 2 040..5 040 (texture mip) or 2 040..4 100 (model section) tiny blocks] Entries built by the harness's own SqPack encoder: kind standard (0..N blocks, optional gaps between blocks) / texture (raw header of 0..200 bytes, 1..13 mips x 1..4 blocks, i16 block-size table) / model (stack, runtime, 1..3 LODs x vertex/index sections of 0..4 blocks, five 11-slot tables, u16 block-size table); block sizes 1..16000 biased to alignment boundaries; each block independently raw or deflated by miniz_oxide (hand-written stored, stored, fixed Huffman, dynamic level 6/9); five content styles; entry placed at a 128-aligned offset after unrelated bytes in dat0..dat7; read through SqPackData::read_from_offset, 1 in 4 through GameData::extract via a generated index/index2. Oracle: packed bytes (standard: concatenation; texture: header then mips in order; model: decoded 0x44 header must describe stack/runtime/vertex/index sections byte for byte). Non-trivial: >= 2 blocks mixing raw and deflated, or >= 2 mips, or >= 2 LODs; distinct by hash of the encoded entry.",
        assumptions: &["miniz_oxide produces valid raw deflate streams (self-checked by inflating with miniz at start-up)", "zero-length blocks and edge-geometry blocks are not generated; offsets of empty LOD sections are not constrained (sizes must be 0)"],
        pre: Some(pre),
        post: None,
        parts: vec![Box::new(Part { name: "extract", driver: Driver::Gen(strategy, 60_000, 960_000), prop, exhaustive: false })],
    }
}

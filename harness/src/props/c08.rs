//! C08 — config and list text files survive parse/edit/write unchanged.
use crate::engine::panics::guard;
use crate::engine::*;
use crate::{ensure, ensure_eq};
use physis::cfg::{ConfigFile, ConfigMap};
use physis::exl::EXL;
use proptest::collection::vec;
use proptest::prelude::*;
use serde::{Deserialize, Serialize};
use serde_json::json;
use std::collections::HashMap;

/// printable text without the structural characters < > TAB CR LF NUL (and without ',' for lists)
fn text(max: usize, for_list: bool) -> BoxedStrategy<String> {
    let ascii: Vec<char> = (0x20u8..0x7f).map(|b| b as char).filter(|c| *c != '<' && *c != '>' && !(for_list && *c == ',')).collect();
    let uni: Vec<char> = "éßñ日本語αβΩ–€".chars().collect();
    vec(prop_oneof![8 => prop::sample::select(ascii), 1 => prop::sample::select(uni)], 0..=max).prop_map(|v| v.into_iter().collect()).boxed()
}

/// a long run of printable text (no structural characters): lengths around the sizes at which a reader that works in pieces
/// of 4 KiB, 8 KiB or 64 KiB changes from one piece to the next, and free lengths up to 20 000
fn long_text() -> BoxedStrategy<String> {
    (prop_oneof![3 => 4080usize..4110, 1 => 8180usize..8200, 1 => 1000usize..20_000, 1 => 65_530usize..65_540], any::<u64>())
        .prop_map(|(n, seed)| {
            let alpha = b"abcdefghijklmnopqrstuvwxyzABCDEFGHIJKLMNOPQRSTUVWXYZ0123456789 _-.:/\\[]{}()!?*+=&%$#@'\"";
            let mut x = seed;
            let mut s = String::with_capacity(n);
            while s.len() < n {
                x = util::splitmix64(x);
                for k in 0..8 {
                    if s.len() < n {
                        s.push(alpha[((x >> (8 * k)) & 0xff) as usize % alpha.len()] as char);
                    }
                }
            }
            s
        })
        .boxed()
}

/// values as the real file has them - numbers - in every spelling a reader might be tempted to normalise: leading zeros, signs,
/// blanks around them, fractions, exponents, hex, booleans in any letter case
fn number_like() -> BoxedStrategy<String> {
    prop_oneof![
        2 => prop::sample::select(vec!["0", "1", "00", "007", "-0", "+1", "-1", "1.0", "1.50", ".5", "1e3", " 1", "1 ", "0x1F", "0X1f", "true", "TRUE", "False", "1,5", "4294967296", "-2147483648", "18446744073709551616", "NaN", "inf"]).prop_map(|s| s.to_string()),
        1 => (prop::sample::select(vec!["", "-", "+", "0", "00", " "]), 0u64..100_000, prop::sample::select(vec!["", ".0", ".00", " ", "f"])).prop_map(|(a, n, b)| format!("{}{}{}", a, n, b)),
    ]
    .boxed()
}

fn key() -> BoxedStrategy<String> {
    prop_oneof![
        90 => prop::sample::select(vec!["Language", "Region", "UPnP", "Port", "ScreenLeft", "K", ""]).prop_map(|s| s.to_string()),
        60 => text(12, false),
        1 => long_text(),
    ]
    .boxed()
}

#[derive(Clone, Debug, Serialize, Deserialize)]
pub struct CfgCase {
    pub categories: Vec<(String, Vec<(String, String)>)>,
    pub edits: Vec<(String, String)>,
    pub probes: Vec<String>,
}

fn cfg_strategy(_: &Ctx) -> BoxedStrategy<CfgCase> {
    (vec((prop_oneof![20 => Just("Version".to_string()), 80 => text(20, false), 1 => long_text()], prop_oneof![1 => Just(vec![]), 4 => vec((key(), prop_oneof![30 => text(16, false), 10 => number_like(), 1 => long_text()]), 0..=8)]), 0..=8), vec((key(), prop_oneof![22 => text(10, false), 8 => number_like(), 1 => long_text()]), 0..=8), vec(prop_oneof![1 => key(), 1 => text(20, false)], 0..4))
        .prop_map(|(mut categories, edits, probes)| {
            // distinct category names
            let mut seen = std::collections::HashSet::new();
            categories.retain(|c| seen.insert(c.0.clone()));
            CfgCase { categories, edits, probes }
        })
        .boxed()
}

fn canonical_cfg(model: &[(String, Vec<(String, String)>)]) -> Vec<u8> {
    let mut s = String::new();
    for (cat, keys) in model {
        s.push_str(&format!("\r\n<{}>\r\n", cat));
        for (k, v) in keys {
            s.push_str(&format!("{}\t{}\r\n", k, v));
        }
    }
    s.push('\0');
    s.into_bytes()
}

fn check_cfg(cfg: &ConfigFile, model: &[(String, Vec<(String, String)>)], what: &str) -> PResult {
    let names: Vec<String> = model.iter().map(|c| c.0.clone()).collect();
    ensure_eq!(cfg.categories, names, "cfg-categories", "{}: category list", what);
    for (cat, keys) in model {
        let got: Vec<(String, String)> = cfg.settings.get(cat).map(|m| m.keys.clone()).unwrap_or_default();
        ensure_eq!(&got, keys, "cfg-keys", "{}: key/value lines of category {:?}", what, cat);
    }
    for (cat, m) in &cfg.settings {
        ensure!(names.contains(cat) || m.keys.is_empty(), "cfg-extra-category", "{}: settings hold a category {:?} that is not in the file", what, cat);
    }
    Ok(())
}

fn prop_cfg(c: &CfgCase, ctx: &Ctx) -> PResult {
    let mut model = c.categories.clone();
    let canon = canonical_cfg(&model);
    // parse(canonical) = model
    let mut cfg = match guard("ConfigFile::from_existing", || ConfigFile::from_existing(&canon))? {
        Some(c) => c,
        None => return fail("cfg-rejected", "from_existing returned None for a canonical file"),
    };
    check_cfg(&cfg, &model, "parse(canonical)")?;
    // write(parse(canonical)) = canonical
    let out = guard("write_to_buffer", || cfg.write_to_buffer())?;
    ensure!(out.as_deref() == Some(&canon[..]), "cfg-write-differs", "write(parse(x)) != x: wrote {:?}, canonical {:?}", out.map(|o| String::from_utf8_lossy(&o).to_string()), String::from_utf8_lossy(&canon));
    // parse(write(direct value)) = value
    let direct = ConfigFile { categories: model.iter().map(|c| c.0.clone()).collect(), settings: model.iter().filter(|c| !c.1.is_empty() || c.0.len() % 2 == 0).map(|c| (c.0.clone(), ConfigMap { keys: c.1.clone() })).collect::<HashMap<_, _>>() };
    let w = match guard("write_to_buffer", || direct.write_to_buffer())? {
        Some(w) => w,
        None => return fail("cfg-write-none", "write_to_buffer returned None"),
    };
    ensure!(w == canon, "cfg-write-differs", "writing a directly constructed value: wrote {:?}, documented layout {:?}", String::from_utf8_lossy(&w), String::from_utf8_lossy(&canon));
    // queries agree with the content
    let query = |cfg: &ConfigFile, model: &[(String, Vec<(String, String)>)], probes: &[String]| -> PResult {
        for p in probes {
            let hk = guard("has_key", || cfg.has_key(p))?;
            ensure_eq!(hk, model.iter().any(|c| c.1.iter().any(|k| k.0 == *p)), "cfg-has-key", "has_key({:?})", p);
            let hc = guard("has_category", || cfg.has_category(p))?;
            let want = model.iter().any(|c| c.0 == *p);
            if hc != want {
                let empty = model.iter().any(|c| c.0 == *p && c.1.is_empty());
                return fail(if empty { "cfg-has-category/empty-category" } else { "cfg-has-category" }, format!("has_category({:?}) = {}, file content says {}", p, hc, want));
            }
        }
        Ok(())
    };
    let mut probes: Vec<String> = c.probes.clone();
    probes.extend(model.iter().map(|c| c.0.clone()));
    probes.extend(model.iter().flat_map(|c| c.1.iter().map(|k| k.0.clone())));
    query(&cfg, &model, &probes)?;
    // set_value histories
    let mut effective = 0;
    for (k, v) in &c.edits {
        guard("set_value", || cfg.set_value(k, v))?;
        let mut hit = 0;
        for cat in model.iter_mut() {
            for kv in cat.1.iter_mut() {
                if kv.0 == *k {
                    kv.1 = v.clone();
                    hit += 1;
                }
            }
        }
        if hit > 0 {
            effective += 1;
        }
        ctx.class(match hit {
            0 => "set_value:absent-key",
            1 => "set_value:one-occurrence",
            _ => "set_value:duplicated-key",
        });
        check_cfg(&cfg, &model, &format!("after set_value({:?}, {:?})", k, v)).map_err(|f| Failure { slug: format!("set-value/{}", f.slug), msg: f.msg })?;
    }
    // the edited file still writes canonically and re-parses
    let out = guard("write_to_buffer", || cfg.write_to_buffer())?;
    let canon2 = canonical_cfg(&model);
    ensure!(out.as_deref() == Some(&canon2[..]), "cfg-write-after-edit", "file written after the edits differs from the documented layout");
    let re = match guard("ConfigFile::from_existing", || ConfigFile::from_existing(&canon2))? {
        Some(c) => c,
        None => return fail("cfg-rejected", "re-parse returned None"),
    };
    check_cfg(&re, &model, "re-parse after edits")?;
    query(&re, &model, &probes)?;
    let has_empty = model.iter().any(|c| c.1.is_empty());
    let mut all_keys: Vec<&String> = model.iter().flat_map(|c| c.1.iter().map(|k| &k.0)).collect();
    let nkeys = all_keys.len();
    all_keys.sort();
    all_keys.dedup();
    let dup = all_keys.len() < nkeys;
    if has_empty {
        ctx.class("cfg:empty-category");
    }
    if dup {
        ctx.class("cfg:duplicate-key");
    }
    ctx.classf(format!("cfg:categories:{}", model.len().min(5)));
    let longest = c.categories.iter().map(|c| c.0.len() + 2).chain(c.categories.iter().flat_map(|c| c.1.iter().map(|k| k.0.len() + 1 + k.1.len()))).chain(c.edits.iter().map(|e| e.1.len())).max().unwrap_or(0);
    if longest >= 1000 {
        ctx.classf(format!("cfg:longest-line:{}", if longest < 4000 { "1000-3999" } else if longest < 4200 { "~4096" } else if longest < 8100 { "4200-8099" } else if longest < 8300 { "~8192" } else if longest < 65_000 { "8300-64999" } else { "~65536" }));
    }
    if model.len() >= 2 && has_empty && dup && effective >= 1 {
        ctx.nontrivial(&canon);
        if ctx.want_sample() {
            ctx.sample(json!({"kind": "cfg", "canonical": String::from_utf8_lossy(&canon), "edits": c.edits}));
        }
    }
    Ok(())
}

#[derive(Clone, Debug, Serialize, Deserialize)]
pub struct ExlCase {
    pub version: i32,
    pub entries: Vec<(String, i32)>,
    /// comment rows inserted on the input side: (position key, text)
    pub comments: Vec<(u16, String)>,
    pub crlf: bool,
    pub probes: Vec<String>,
}

fn exl_name() -> BoxedStrategy<String> {
    prop_oneof![
        3 => crate::gen::from_alphabet("abcdefghijklmnopqrstuvwxyzABCDEFGHIJKLMNOPQRSTUVWXYZ0123456789_/", 0, 24),
        1 => text(24, true),
        // names as the real list has them, names that spell numbers or the header word, names with blanks around them, and
        // one name in sixty long
        1 => prop::sample::select(vec!["Achievement", "quest/000/ClsArc000_00002", "custom/000/CmnDefBeginning_00176", "0", "1", "-1", "007", "209", "EXLT2", "exlt", "EXL", " Action", "Action ", "Action,", "a#b", "x#"]).prop_map(|s| s.trim_end_matches(',').to_string()),
    ]
    .prop_map(|s| if s.starts_with('#') || s == "EXLT" { format!("x{}", s) } else { s })
    .boxed()
}

fn exl_strategy(_: &Ctx) -> BoxedStrategy<ExlCase> {
    let id = prop_oneof![3 => -1i32..2000, 1 => any::<i32>(), 1 => prop::sample::select(vec![i32::MIN, i32::MAX, 0, -1])];
    (prop_oneof![3 => 0i32..10, 1 => any::<i32>()], vec((exl_name(), id), 0..=30), vec((any::<u16>(), text(20, true)), 0..4), any::<bool>(), vec(exl_name(), 0..4)).prop_map(|(version, entries, comments, crlf, probes)| ExlCase { version, entries, comments, crlf, probes }).boxed()
}

fn prop_exl(c: &ExlCase, ctx: &Ctx) -> PResult {
    // canonical form (what the writer documents): "EXLT,v" then "\nname,id" per entry
    let mut canon = format!("EXLT,{}", c.version);
    for (n, id) in &c.entries {
        canon.push_str(&format!("\n{},{}", n, id));
    }
    let check = |exl: &EXL, what: &str| -> PResult {
        ensure_eq!(exl.version, c.version, "exl-version", "{}: version", what);
        ensure_eq!(&exl.entries, &c.entries, "exl-entries", "{}: entries", what);
        Ok(())
    };
    let parsed = match guard("EXL::from_existing", || EXL::from_existing(canon.as_bytes()))? {
        Some(e) => e,
        None => return fail("exl-rejected", "from_existing returned None"),
    };
    check(&parsed, "parse(canonical)")?;
    let w = guard("EXL::write_to_buffer", || parsed.write_to_buffer())?;
    ensure!(w.as_deref() == Some(canon.as_bytes()), "exl-write-differs", "write(parse(x)) != x: {:?} vs {:?}", w.map(|x| String::from_utf8_lossy(&x).to_string()), canon);
    // direct value -> write -> parse
    let direct = EXL { version: c.version, entries: c.entries.clone() };
    let w = match guard("EXL::write_to_buffer", || direct.write_to_buffer())? {
        Some(w) => w,
        None => return fail("exl-write-none", "write_to_buffer returned None"),
    };
    ensure!(w == canon.as_bytes(), "exl-write-differs", "written list {:?} differs from the documented layout {:?}", String::from_utf8_lossy(&w), canon);
    let back = match guard("EXL::from_existing", || EXL::from_existing(&w))? {
        Some(e) => e,
        None => return fail("exl-rejected", "from_existing returned None"),
    };
    check(&back, "parse(write(x))")?;
    // input side with comment rows and CRLF line ends
    let mut lines: Vec<String> = vec![format!("EXLT,{}", c.version)];
    lines.extend(c.entries.iter().map(|(n, id)| format!("{},{}", n, id)));
    for (pos, t) in &c.comments {
        let at = 1 + util::pick_idx(*pos, lines.len());
        // comment rows of every shape: numeric tail, no comma at all, non-numeric text after a comma, several commas
        let row = match pos % 4 {
            0 => format!("#{},{}", t, pos),
            1 => format!("#{}", t),
            2 => format!("#{},id", t),
            _ => format!("# {}, kept for reference, {}", t, t),
        };
        ctx.classf(format!("exl:comment-shape:{}", pos % 4));
        lines.insert(at.min(lines.len()), row);
    }
    let text = lines.join(if c.crlf { "\r\n" } else { "\n" });
    let with_comments = match guard("EXL::from_existing", || EXL::from_existing(text.as_bytes()))? {
        Some(e) => e,
        None => return fail("exl-rejected", "from_existing returned None"),
    };
    check(&with_comments, "parse(list with comment rows)")?;
    let mut probes = c.probes.clone();
    probes.extend(c.entries.iter().map(|e| e.0.clone()));
    for p in &probes {
        let got = guard("EXL::contains", || parsed.contains(p))?;
        ensure_eq!(got, c.entries.iter().any(|e| e.0 == *p), "exl-contains", "contains({:?})", p);
    }
    if !c.comments.is_empty() {
        ctx.class("exl:comment-rows");
    }
    if c.crlf {
        ctx.class("exl:crlf");
    }
    ctx.classf(format!("exl:entries:{}", match c.entries.len() { 0 => "0", 1..=5 => "1-5", _ => ">5" }));
    if c.entries.len() >= 2 {
        ctx.nontrivial(text.as_bytes());
        if ctx.want_sample() && c.entries.len() < 6 {
            ctx.sample(json!({"kind": "exl", "text": text}));
        }
    }
    Ok(())
}

/// The repository's own fixtures anchor the canonical forms to data not produced by this harness.
fn pre(ctx: &Ctx) {
    let root = util::repo_root().join("resources/tests");
    if let Ok(b) = std::fs::read(root.join("FFXIV.cfg")) {
        let r = std::panic::catch_unwind(|| ConfigFile::from_existing(&b).and_then(|c| c.write_to_buffer()));
        match r {
            Ok(Some(w)) if w == b => ctx.class("fixture:FFXIV.cfg-byte-identical"),
            _ => ctx.report("fixtures", json!({"file": "FFXIV.cfg"}), &Failure { slug: "fixture-cfg-roundtrip".into(), msg: "write(parse(FFXIV.cfg)) differs from the checked-in file".into() }),
        }
        ctx.eval();
    }
    if let Ok(b) = std::fs::read(root.join("test.exl")) {
        let r = std::panic::catch_unwind(|| EXL::from_existing(&b).and_then(|c| c.write_to_buffer()));
        match r {
            Ok(Some(w)) if w == b => ctx.class("fixture:test.exl-byte-identical"),
            _ => ctx.report("fixtures", json!({"file": "test.exl"}), &Failure { slug: "fixture-exl-roundtrip".into(), msg: "write(parse(test.exl)) differs from the checked-in file".into() }),
        }
        ctx.eval();
    }
}

pub fn property() -> Property {
    Property {
        id: "C08",
        rule: "[round 8: one value in forty, one key in 150 and one category name in 100 is 1 000..65 540 bytes long] cfg: ordered list of 0..8 distinct category names each with 0..8 (key, value) lines (keys repeat within and across categories, empty keys/values allowed) over printable ASCII + some UTF-8 minus < > TAB CR LF NUL; canonical text '\\r\\n<cat>\\r\\n' + 'key\\tvalue\\r\\n'... + NUL produced by the harness; checks: parse(canonical) = model in order; write(parse(canonical)) = canonical bytes; writing a directly constructed value = canonical; set_value histories of 0..8 calls (present, absent, duplicated keys) compared with the model after every call; has_key / has_category agree with the content; the edited file writes canonically and re-parses. exl: version i32, 0..30 (name, i32) rows, optional '#' comment rows and CRLF line ends on the input side; parse/write/parse and contains. The checked-in FFXIV.cfg and test.exl must round-trip byte for byte. Non-trivial: cfg with >= 2 categories, an empty one, a duplicated key and >= 1 effective set_value; exl with >= 2 entries. Distinct by content hash.",
        assumptions: &["category names are distinct; names and values avoid the structural characters", "EXL names do not start with '#', are not 'EXLT' and contain no comma"],
        pre: Some(pre),
        post: None,
        parts: vec![
            Box::new(Part { name: "cfg", driver: Driver::Gen(cfg_strategy, 240_000, 3_840_000), prop: prop_cfg, exhaustive: false }),
            Box::new(Part { name: "exl", driver: Driver::Gen(exl_strategy, 240_000, 3_840_000), prop: prop_exl, exhaustive: false }),
        ],
    }
}

pub fn seed_files(ctx: &Ctx, n: usize) -> (Vec<(String, Vec<u8>)>, Vec<(String, Vec<u8>)>) {
    let mut cfgs = vec![];
    let mut exls = vec![];
    if let Ok(b) = std::fs::read(util::repo_root().join("resources/tests/FFXIV.cfg")) {
        cfgs.push(("fixture".to_string(), b));
    }
    if let Ok(b) = std::fs::read(util::repo_root().join("resources/tests/test.exl")) {
        exls.push(("fixture".to_string(), b));
    }
    let cs = cfg_strategy(ctx);
    let es = exl_strategy(ctx);
    for k in 0..n as u64 {
        let c = draw_fixed(&cs, 0xC08_5EED + k);
        cfgs.push((format!("gen{}", k), canonical_cfg(&c.categories)));
        let e = draw_fixed(&es, 0xC08_E5ED + k);
        let mut canon = format!("EXLT,{}", e.version);
        for (nm, id) in &e.entries {
            canon.push_str(&format!("{}{},{}", if e.crlf { "\r\n" } else { "\n" }, nm, id));
        }
        for (_, t) in &e.comments {
            canon.push_str(&format!("\n#{},1", t));
        }
        exls.push((format!("gen{}", k), canon.into_bytes()));
    }
    (cfgs, exls)
}

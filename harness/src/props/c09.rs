//! C09 — saved character and gear-set files keep the documented layout.
use crate::engine::panics::guard;
use crate::engine::*;
use crate::{ensure, ensure_eq};
use physis::chardat::{CharacterData, CustomizeData};
use physis::gearsets::{GearSet, GearSets, GearSlot, GearSlotType};
use physis::race::{Gender, Race, Tribe};
use proptest::collection::vec;
use proptest::prelude::*;
use serde::{Deserialize, Serialize};
use serde_json::json;
use std::collections::HashMap;

// ------------------------------------------------------------------------------------------------
// character presets — own codec pinned to absolute byte positions
// ------------------------------------------------------------------------------------------------

#[derive(Clone, Debug, Serialize, Deserialize, PartialEq)]
pub struct Preset {
    pub version: u32,
    /// the 27 appearance bytes in documented order (race, gender, age, height, tribe, face, hair, highlights flag, ...)
    pub customize: Vec<u8>,
    pub timestamp: u32,
    pub comment: String,
}

const FIELD_NAMES: [&str; 27] = ["race", "gender", "age", "height", "tribe", "face", "hair", "enable_highlights", "skin_tone", "right_eye_color", "hair_tone", "highlights", "facial_features", "facial_feature_color", "eyebrows", "left_eye_color", "eyes", "nose", "jaw", "mouth", "lips_tone_fur_pattern", "race_feature_size", "race_feature_type", "bust", "face_paint", "face_paint_color", "voice"];

fn checksum(region: &[u8]) -> u32 {
    let mut c = 0u32;
    for (i, b) in region.iter().enumerate() {
        c ^= (*b as u32) << (i % 24);
    }
    c
}

pub fn encode_preset(p: &Preset) -> Vec<u8> {
    let mut f = vec![0u8; 212];
    f[0..4].copy_from_slice(&0x2013FF14u32.to_le_bytes());
    f[4..8].copy_from_slice(&p.version.to_le_bytes());
    f[0x10..0x10 + 27].copy_from_slice(&p.customize);
    f[0x2C..0x30].copy_from_slice(&p.timestamp.to_le_bytes());
    f[0x30..0x30 + p.comment.len()].copy_from_slice(p.comment.as_bytes());
    let c = checksum(&f[0x10..0xD4]);
    f[8..12].copy_from_slice(&c.to_le_bytes());
    f
}

pub fn decode_preset(f: &[u8]) -> Option<Preset> {
    if f.len() != 212 || f[0..4] != 0x2013FF14u32.to_le_bytes() {
        return None;
    }
    let end = f[0x30..0xD4].iter().position(|b| *b == 0).unwrap_or(164);
    Some(Preset { version: u32::from_le_bytes(f[4..8].try_into().unwrap()), customize: f[0x10..0x10 + 27].to_vec(), timestamp: u32::from_le_bytes(f[0x2C..0x30].try_into().unwrap()), comment: String::from_utf8(f[0x30..0x30 + end].to_vec()).ok()? })
}

fn customize_bytes(c: &CustomizeData) -> Vec<u8> {
    vec![
        c.race as u8,
        c.gender.clone() as u8,
        c.age,
        c.height,
        c.tribe as u8,
        c.face,
        c.hair,
        c.enable_highlights as u8,
        c.skin_tone,
        c.right_eye_color,
        c.hair_tone,
        c.highlights,
        c.facial_features,
        c.facial_feature_color,
        c.eyebrows,
        c.left_eye_color,
        c.eyes,
        c.nose,
        c.jaw,
        c.mouth,
        c.lips_tone_fur_pattern,
        c.race_feature_size,
        c.race_feature_type,
        c.bust,
        c.face_paint,
        c.face_paint_color,
        c.voice,
    ]
}

fn to_customize(b: &[u8]) -> CustomizeData {
    CustomizeData {
        race: Race::try_from(b[0]).unwrap(),
        gender: Gender::try_from(b[1]).unwrap(),
        age: b[2],
        height: b[3],
        tribe: Tribe::try_from(b[4]).unwrap(),
        face: b[5],
        hair: b[6],
        enable_highlights: b[7] == 1,
        skin_tone: b[8],
        right_eye_color: b[9],
        hair_tone: b[10],
        highlights: b[11],
        facial_features: b[12],
        facial_feature_color: b[13],
        eyebrows: b[14],
        left_eye_color: b[15],
        eyes: b[16],
        nose: b[17],
        jaw: b[18],
        mouth: b[19],
        lips_tone_fur_pattern: b[20],
        race_feature_size: b[21],
        race_feature_type: b[22],
        bust: b[23],
        face_paint: b[24],
        face_paint_color: b[25],
        voice: b[26],
    }
}

fn comment() -> BoxedStrategy<String> {
    let ch = prop_oneof![8 => (0x20u8..0x7f).prop_map(|b| b as char), 1 => prop::sample::select("éß日本語Ω€\t\n".chars().collect::<Vec<_>>())];
    prop_oneof![3 => vec(ch.clone(), 0..=20), 2 => vec(ch.clone(), 0..=163), 1 => vec(ch, 150..=163)]
        .prop_map(|v| {
            let mut s: String = v.into_iter().collect();
            while s.len() > 163 {
                s.pop();
            }
            s
        })
        .boxed()
}

fn preset_strategy(_: &Ctx) -> BoxedStrategy<Preset> {
    (prop_oneof![3 => 0u32..8, 1 => any::<u32>()], 1u8..=8, 0u8..=1, 1u8..=16, any::<bool>(), vec(any::<u8>(), 27), prop_oneof![1 => any::<u32>(), 1 => Just(0u32), 1 => Just(u32::MAX)], comment())
        .prop_map(|(version, race, gender, tribe, hl, mut customize, timestamp, comment)| {
            customize[0] = race;
            customize[1] = gender;
            customize[4] = tribe;
            customize[7] = hl as u8;
            Preset { version, customize, timestamp, comment }
        })
        .boxed()
}

fn prop_preset(p: &Preset, ctx: &Ctx) -> PResult {
    let mine = encode_preset(p);
    // my_encode(v) -> Physis parse = v
    let parsed = match guard("CharacterData::from_existing", || CharacterData::from_existing(&mine))? {
        Some(c) => c,
        None => return fail("preset-rejected", "from_existing returned None for a well-formed preset"),
    };
    ensure_eq!(parsed.version, p.version, "preset-version", "version");
    let got = customize_bytes(&parsed.customize);
    for i in 0..27 {
        ensure_eq!(got[i], p.customize[i], "preset-field", "appearance field {} (byte 0x{:02x})", FIELD_NAMES[i], 0x10 + i);
    }
    ensure_eq!(parsed.timestamp, p.timestamp, "preset-timestamp", "timestamp");
    ensure_eq!(&parsed.comment, &p.comment, "preset-comment", "comment");
    // Physis write(parse(x)) = x byte for byte
    let w = guard("CharacterData::write_to_buffer", || parsed.write_to_buffer())?;
    let w = match w {
        Some(w) => w,
        None => return fail("preset-write-none", "write_to_buffer returned None"),
    };
    if w != mine {
        let pos = w.iter().zip(mine.iter()).position(|(a, b)| a != b).unwrap_or(w.len().min(mine.len()));
        let slug = if (8..12).contains(&pos) { "preset-checksum" } else { "preset-bytes" };
        return fail(slug, format!("written preset differs from the documented layout at byte 0x{:x} (len {} vs 212): physis={} expected={}", pos, w.len(), util::hex_trunc(&w[pos.min(w.len())..], 16), util::hex_trunc(&mine[pos.min(mine.len())..], 16)));
    }
    // Physis write(v directly constructed) -> my_decode = v
    let direct = CharacterData { version: p.version, customize: to_customize(&p.customize), timestamp: p.timestamp, comment: p.comment.clone() };
    let w2 = match guard("CharacterData::write_to_buffer", || direct.write_to_buffer())? {
        Some(w) => w,
        None => return fail("preset-write-none", "write_to_buffer returned None"),
    };
    let back = decode_preset(&w2);
    ensure!(back.as_ref() == Some(p), "preset-independent-decode", "independent decode of the written preset: {:?} vs {:?}", back, p);
    ensure_eq!(u32::from_le_bytes(w2[8..12].try_into().unwrap()), checksum(&w2[0x10..0xD4]), "preset-checksum", "stored checksum vs documented checksum over bytes 0x10..0xD4");
    ctx.classf(format!("race:{}", p.customize[0]));
    ctx.classf(format!("tribe:{}", p.customize[4]));
    ctx.classf(format!("gender:{}", p.customize[1]));
    ctx.classf(format!("comment-len:{}", match p.comment.len() { 0 => "0", 1..=23 => "1-23", 24..=162 => "24-162", _ => "163" }));
    let defaults = customize_bytes(&CustomizeData::default());
    if (0..27).filter(|i| p.customize[*i] != defaults[*i]).count() >= 10 {
        ctx.nontrivial(&mine);
        if ctx.want_sample() {
            ctx.sample(json!({"kind": "preset", "version": p.version, "customize": util::hex(&p.customize), "timestamp": p.timestamp, "comment": p.comment, "file_prefix": util::hex_trunc(&mine, 0x34)}));
        }
    }
    Ok(())
}

// ------------------------------------------------------------------------------------------------
// gear sets
// ------------------------------------------------------------------------------------------------

/// 1_000_000 used as a bit mask by the library (bits 6, 9, 14, 16..19)
pub const MARKER: u32 = 1_000_000;

#[derive(Clone, Debug, Serialize, Deserialize, PartialEq)]
pub struct SlotM {
    pub slot: u8,
    pub id: u32,
    pub glamour: Option<u32>,
    pub unknown: [u32; 5],
}

#[derive(Clone, Debug, Serialize, Deserialize, PartialEq)]
pub struct SetM {
    pub position: u8,
    pub index: u8,
    pub name: String,
    pub unknown: u64,
    pub slots: Vec<SlotM>,
    pub facewear: Option<u32>,
}

#[derive(Clone, Debug, Serialize, Deserialize, PartialEq)]
pub struct TableM {
    pub unknown1: u8,
    pub current: u8,
    pub unknown3: u16,
    pub sets: Vec<SetM>,
}

pub fn encode_table(t: &TableM) -> Vec<u8> {
    let mut body = vec![0u8; 4 + 100 * 452];
    body[0] = t.unknown1;
    body[1] = t.current;
    body[2..4].copy_from_slice(&t.unknown3.to_le_bytes());
    // every record starts as the empty record: slots carry the bare marker
    for s in 0..100 {
        let r = 4 + 452 * s;
        for k in 0..14 {
            body[r + 56 + 28 * k..r + 60 + 28 * k].copy_from_slice(&MARKER.to_le_bytes());
        }
    }
    for set in &t.sets {
        let r = 4 + 452 * set.position as usize;
        body[r] = set.index;
        body[r + 1..r + 1 + set.name.len()].copy_from_slice(set.name.as_bytes());
        body[r + 48..r + 56].copy_from_slice(&set.unknown.to_le_bytes());
        for sl in &set.slots {
            let o = r + 56 + 28 * sl.slot as usize;
            body[o..o + 4].copy_from_slice(&(sl.id | MARKER).to_le_bytes());
            body[o + 4..o + 8].copy_from_slice(&sl.glamour.unwrap_or(0).to_le_bytes());
            for (k, u) in sl.unknown.iter().enumerate() {
                body[o + 8 + 4 * k..o + 12 + 4 * k].copy_from_slice(&u.to_le_bytes());
            }
        }
        body[r + 448..r + 452].copy_from_slice(&set.facewear.unwrap_or(0).to_le_bytes());
    }
    let mut f = vec![];
    f.extend_from_slice(&0x006d0005u32.to_le_bytes());
    f.extend_from_slice(&45205u32.to_le_bytes());
    f.extend_from_slice(&45205u32.to_le_bytes());
    f.extend_from_slice(&[0, 0, 0, 0, 0xFF]);
    f.extend(body.iter().map(|b| b ^ 0x73));
    f
}

pub fn decode_table(f: &[u8]) -> Option<TableM> {
    if f.len() != 17 + 45204 || f[0..4] != 0x006d0005u32.to_le_bytes() || f[16] != 0xFF {
        return None;
    }
    let body: Vec<u8> = f[17..].iter().map(|b| b ^ 0x73).collect();
    let rd32 = |at: usize| u32::from_le_bytes(body[at..at + 4].try_into().unwrap());
    let mut sets = vec![];
    for s in 0..100 {
        let r = 4 + 452 * s;
        let end = body[r + 1..r + 48].iter().position(|b| *b == 0)?;
        if end == 0 {
            continue;
        }
        let name = String::from_utf8(body[r + 1..r + 1 + end].to_vec()).ok()?;
        let mut slots = vec![];
        for k in 0..14 {
            let o = r + 56 + 28 * k;
            let id = rd32(o) & !MARKER;
            if id == 0 {
                continue;
            }
            let g = rd32(o + 4);
            slots.push(SlotM { slot: k as u8, id, glamour: if g == 0 { None } else { Some(g) }, unknown: [rd32(o + 8), rd32(o + 12), rd32(o + 16), rd32(o + 20), rd32(o + 24)] });
        }
        let fw = rd32(r + 448);
        sets.push(SetM { position: s as u8, index: body[r], name, unknown: u64::from_le_bytes(body[r + 48..r + 56].try_into().unwrap()), slots, facewear: if fw == 0 { None } else { Some(fw) } });
    }
    Some(TableM { unknown1: body[0], current: body[1], unknown3: u16::from_le_bytes([body[2], body[3]]), sets })
}

fn slot_type(i: u8) -> GearSlotType {
    GearSlotType::try_from(i as usize).unwrap()
}

fn set_name() -> BoxedStrategy<String> {
    let ch = prop_oneof![8 => (0x20u8..0x7f).prop_map(|b| b as char), 1 => prop::sample::select("éß日本Ω".chars().collect::<Vec<_>>())];
    prop_oneof![4 => vec(ch.clone(), 1..=20), 1 => vec(ch, 40..=46)]
        .prop_map(|v| {
            let mut s: String = v.into_iter().collect();
            while s.len() > 46 {
                s.pop();
            }
            if s.is_empty() {
                s.push('x');
            }
            s
        })
        .boxed()
}

/// item ids as generated (before the known-finding exclusion)
fn raw_item_id() -> BoxedStrategy<u32> {
    prop_oneof![3 => 1u32..50_000, 2 => any::<u32>(), 1 => prop::sample::select(vec![1u32, 5269, 8_395_913, 0x8000_0000, u32::MAX, 0x0010_0000])].boxed()
}

fn table_strategy(_: &Ctx) -> BoxedStrategy<TableM> {
    let slot = (0u8..14, raw_item_id(), prop::option::of(prop_oneof![1 => prop::sample::select(vec![1u32, 2, u32::MAX, 0x8000_0000, 1_000_000]), 2 => 1u32..50_000, 1 => 1u32..=u32::MAX]), prop_oneof![2 => Just([0u32; 5]), 1 => any::<[u32; 5]>()]).prop_map(|(slot, id, glamour, unknown)| SlotM { slot, id, glamour, unknown });
    let set = (0u8..100, any::<u8>(), set_name(), prop_oneof![2 => Just(0u64), 1 => any::<u64>()], vec(slot, 0..=14), prop::option::of(prop_oneof![1 => prop::sample::select(vec![1u32, 2, u32::MAX]), 2 => 1u32..=u32::MAX])).prop_map(|(position, index, name, unknown, mut slots, facewear)| {
        let mut seen = std::collections::HashSet::new();
        slots.retain(|s| seen.insert(s.slot));
        slots.sort_by_key(|s| s.slot);
        SetM { position, index, name, unknown, slots, facewear }
    });
    (any::<u8>(), any::<u8>(), any::<u16>(), prop_oneof![3 => vec(set.clone(), 0..=4), 1 => vec(set, 0..=100)])
        .prop_map(|(unknown1, current, unknown3, mut sets)| {
            let mut seen = std::collections::HashSet::new();
            sets.retain(|s| seen.insert(s.position));
            sets.sort_by_key(|s| s.position);
            TableM { unknown1, current, unknown3, sets }
        })
        .boxed()
}

fn table_from_physis(g: &GearSets) -> Vec<(usize, u8, String, Vec<(u8, u32, Option<u32>)>, Option<u32>)> {
    let mut out = vec![];
    for (i, s) in g.gearsets.iter().enumerate() {
        if let Some(s) = s {
            let mut slots: Vec<(u8, u32, Option<u32>)> = s.slots.iter().map(|(k, v)| (k.clone() as u8, v.id, v.glamour_id)).collect();
            slots.sort();
            out.push((i, s.index, s.name.clone(), slots, s.facewear));
        }
    }
    out
}

fn table_view(t: &TableM) -> Vec<(usize, u8, String, Vec<(u8, u32, Option<u32>)>, Option<u32>)> {
    t.sets.iter().map(|s| (s.position as usize, s.index, s.name.clone(), s.slots.iter().map(|x| (x.slot, x.id, x.glamour)).collect(), s.facewear)).collect()
}

fn prop_table(t0: &TableM, ctx: &Ctx) -> PResult {
    // known finding C09:gear-id-marker-overlap — ids overlapping the marker bits cannot survive; draw asserted ids
    // from the complement (construction) and count what was excluded
    let listed = ctx.findings.is_listed("C09", "gear-id-marker-overlap");
    let mut t = t0.clone();
    let mut excluded = 0u64;
    let mut overlapping = false;
    for s in t.sets.iter_mut() {
        for sl in s.slots.iter_mut() {
            if sl.id & MARKER != 0 {
                if listed {
                    sl.id &= !MARKER;
                    excluded += 1;
                } else {
                    overlapping = true;
                }
            }
        }
        // an id that is zero after the strip means "no item": not a present slot
        s.slots.retain(|sl| sl.id != 0);
    }
    ctx.excluded(excluded);
    let mine = encode_table(&t);
    let parsed = match guard("GearSets::from_existing", || GearSets::from_existing(&mine))? {
        Some(g) => g,
        None => return fail("gearsets-rejected", "from_existing returned None for a well-formed table"),
    };
    ensure_eq!(parsed.current_gearset, t.current, "gearsets-current", "current gear set");
    ensure_eq!(parsed.gearsets.len(), 100, "gearsets-count", "number of table rows");
    if !overlapping {
        let got = table_from_physis(&parsed);
        let want = table_view(&t);
        if got != want {
            return fail("gearsets-parse-differs", format!("parsed table differs: physis={:?} stored={:?}", got, want));
        }
    }
    // write(parse(x)) = x byte for byte (unknown fields must be preserved too)
    let w = match guard("GearSets::write_to_buffer", || parsed.write_to_buffer())? {
        Some(w) => w,
        None => return fail("gearsets-write-none", "write_to_buffer returned None"),
    };
    if w != mine {
        let pos = w.iter().zip(mine.iter()).position(|(a, b)| a != b).unwrap_or(w.len().min(mine.len()));
        let rec = if pos >= 21 { (pos - 21) / 452 } else { 0 };
        let off = if pos >= 21 { (pos - 21) % 452 } else { pos };
        return fail("gearsets-bytes", format!("write(parse(x)) differs from x at byte {} (record {}, offset {} in record; lengths {} vs {})", pos, rec, off, w.len(), mine.len()));
    }
    // directly assembled value -> Physis write -> independent decode
    let mut direct = parsed.clone();
    direct.current_gearset = t.current;
    direct.gearsets = vec![None; 100];
    for s in &t0.sets {
        let mut gs = GearSet::default();
        gs.index = s.index;
        gs.name = s.name.clone();
        gs.facewear = s.facewear;
        let mut slots = HashMap::new();
        for sl in &s.slots {
            let id = if listed { sl.id & !MARKER } else { sl.id };
            if id == 0 {
                continue;
            }
            let mut g = GearSlot::default();
            g.id = id;
            g.glamour_id = sl.glamour;
            slots.insert(slot_type(sl.slot), g);
        }
        gs.slots = slots;
        direct.gearsets[s.position as usize] = Some(gs);
    }
    // every other value is handed over as a list that ends with its last named set (the trailing blank rows dropped): the
    // file is a table of 100 rows however long the list is
    if t0.sets.iter().map(|s| s.position as u64 * 7 + s.index as u64).sum::<u64>() % 2 == 1 {
        let keep = direct.gearsets.iter().rposition(|g| g.is_some()).map(|i| i + 1).unwrap_or(0);
        direct.gearsets.truncate(keep);
        ctx.class("gearsets:list-shorter-than-100-written");
    }
    let w2 = match guard("GearSets::write_to_buffer", || direct.write_to_buffer())? {
        Some(w) => w,
        None => return fail("gearsets-write-none", "write_to_buffer returned None"),
    };
    let back = match decode_table(&w2) {
        Some(b) => b,
        None => return fail("gearsets-layout", format!("the written file ({} bytes) is not the 17-byte header + 0x73-obfuscated 100 x 452-byte table", w2.len())),
    };
    let got = table_view(&back);
    let want = table_view(&t);
    if got != want {
        // diagnose: is every difference confined to item ids that overlap the marker mask (the id loses the
        // mask bits; a slot whose id consists of mask bits only disappears)?
        let stripped: Vec<_> = want
            .iter()
            .map(|w| (w.0, w.1, w.2.clone(), w.3.iter().filter(|s| s.1 & !MARKER != 0).map(|s| (s.0, s.1 & !MARKER, s.2)).collect::<Vec<_>>(), w.4))
            .collect();
        let only_marker = got == stripped;
        return fail(if only_marker { "gear-id-marker-overlap" } else { "gearsets-independent-decode" }, format!("independent decode of the written table: decoded={:?} supplied={:?}", got, want));
    }
    ctx.classf(format!("sets:{}", match t.sets.len() { 0 => "0", 1 => "1", 2..=4 => "2-4", _ => ">4" }));
    for s in &t.sets {
        for sl in &s.slots {
            ctx.classf(format!("slot:{}", sl.slot));
        }
        ctx.classf(format!("name-len:{}", if s.name.len() >= 40 { ">=40" } else { "<40" }));
        if s.facewear.is_some() {
            ctx.class("facewear");
        }
    }
    if t.sets.iter().filter(|s| s.slots.len() >= 3).count() >= 2 {
        ctx.nontrivial(&mine);
        if ctx.want_sample() {
            ctx.sample(json!({"kind": "gearsets", "current": t.current, "sets": t.sets.iter().take(3).map(|s| json!({"position": s.position, "name": s.name, "slots": s.slots.iter().map(|x| (x.slot, x.id, x.glamour)).collect::<Vec<_>>(), "facewear": s.facewear})).collect::<Vec<_>>()}));
        }
    }
    Ok(())
}

/// Probe that keeps exercising the listed finding (one id overlapping the marker mask) and the fixtures.
fn pre(ctx: &Ctx) {
    let root = util::repo_root().join("resources/tests");
    // fixtures anchor the codecs to data not produced by this harness
    for (name, face, comment) in [("arr.dat", 5u8, "Custom Comment Text"), ("heavensward.dat", 3, ""), ("stormblood.dat", 0, ""), ("shadowbringers.dat", 0, "")] {
        if let Ok(b) = std::fs::read(root.join("chardat").join(name)) {
            ctx.eval();
            let ok = decode_preset(&b).map(|p| u32::from_le_bytes(b[8..12].try_into().unwrap()) == checksum(&b[0x10..0xD4]) && (name != "arr.dat" || (p.customize[5] == face && p.comment == comment && p.customize[10] == 53)) && encode_preset(&p) == b).unwrap_or(false);
            if !ok {
                ctx.infra(&format!("own chardat codec disagrees with the checked-in fixture {}", name));
            } else {
                ctx.class("fixture:chardat-codec-validated");
            }
        }
    }
    if let Ok(b) = std::fs::read(root.join("gearsets/simple.dat")) {
        ctx.eval();
        let ok = decode_table(&b).map(|t| t.sets.len() == 1 && t.sets[0].name == "White Mage" && t.sets[0].slots.iter().map(|s| (s.slot, s.id, s.glamour)).collect::<Vec<_>>() == vec![(0, 5269, Some(2453)), (3, 8395913, None)] && encode_table(&t) == b).unwrap_or(false);
        if !ok {
            ctx.infra("own gear-set codec disagrees with the checked-in fixture simple.dat");
        } else {
            ctx.class("fixture:gearset-codec-validated");
        }
    }
    // the listed finding: an item id with a marker bit set does not survive write -> read
    let probe = TableM { unknown1: 0, current: 0, unknown3: 0, sets: vec![SetM { position: 0, index: 0, name: "probe".into(), unknown: 0, slots: vec![SlotM { slot: 0, id: 64, glamour: None, unknown: [0; 5] }], facewear: None }] };
    let empty = encode_table(&TableM { unknown1: 0, current: 0, unknown3: 0, sets: vec![] });
    let r = std::panic::catch_unwind(|| {
        let mut g = GearSets::from_existing(&empty)?;
        let mut gs = GearSet::default();
        gs.name = "probe".into();
        let mut slot = GearSlot::default();
        slot.id = 64;
        gs.slots.insert(GearSlotType::MainHand, slot);
        g.gearsets[0] = Some(gs);
        let w = g.write_to_buffer()?;
        let back = GearSets::from_existing(&w)?;
        Some(back.gearsets[0].as_ref().and_then(|s| s.slots.get(&GearSlotType::MainHand).map(|s| s.id)))
    });
    ctx.eval();
    match r {
        Ok(Some(Some(64))) => {
            // the finding no longer reproduces: nothing to report (a fixed entry suppresses nothing)
            ctx.class("probe:marker-overlap-id-survives");
        }
        _ => {
            let f = Failure { slug: "gear-id-marker-overlap".into(), msg: format!("item id 64 (bit 6 is part of the 1_000_000 'flag' mask) written by the library reads back as {:?}", r.ok().flatten().flatten()) };
            ctx.report("marker-probe", serde_json::to_value(&probe).unwrap(), &f);
        }
    }
}

pub fn property() -> Property {
    Property {
        id: "C09",
        rule: "[round 9: every other directly assembled gear-set value is a list shorter than 100, cut behind its last named set] presets: every (race 1..8, tribe 1..16, gender 0..1) code, all 0..255 for each of the other 23 appearance bytes, highlight flag 0/1, version, timestamp (incl. 0 and MAX), comment of 0..163 bytes (ASCII + UTF-8, no NUL); own codec pinned to absolute byte positions (magic @0, version @4, checksum @8, appearance @0x10.., voice @0x2A, timestamp @0x2C, comment @0x30..0xD4, XOR of byte << (i mod 24) over 0x10..0xD4), validated against the four checked-in presets; checks: own encode -> Physis parse = value; Physis write(parse(x)) = x byte for byte; Physis write(directly constructed value) -> own decode = value with the documented checksum. gear sets: any subset of the 100 rows, names 1..46 bytes, any subset of the 14 slots, 32-bit item / glamour ids, facewear, unknown fields random (must be preserved), validated against simple.dat; same three checks through the 0x73-obfuscated fixed table. Non-trivial: preset with >= 10 non-default appearance bytes; table with >= 2 sets of >= 3 slots; distinct by hash of the file.",
        assumptions: &["bool stored as 0/1; comments <= 163 bytes; names <= 46 bytes (canonical inputs)", "item ids with a bit of the 1_000_000 marker mask set are excluded from the asserted domain while the known finding C09:gear-id-marker-overlap is listed (counted in excluded_known); a dedicated probe keeps exercising one such id", "an absent slot is the bare marker with zero glamour/unknown words; an empty row is the default record (anchored by simple.dat)"],
        pre: Some(pre),
        post: None,
        parts: vec![
            Box::new(Part { name: "presets", driver: Driver::Gen(preset_strategy, 480_000, 7_680_000), prop: prop_preset, exhaustive: false }),
            Box::new(Part { name: "gearsets", driver: Driver::Gen(table_strategy, 24_000, 384_000), prop: prop_table, exhaustive: false }),
        ],
    }
}

pub fn seed_files(ctx: &Ctx, n: usize) -> (Vec<(String, Vec<u8>)>, Vec<(String, Vec<u8>)>) {
    let mut presets = vec![];
    let mut tables = vec![];
    for f in ["arr", "heavensward", "shadowbringers", "stormblood"] {
        if let Ok(b) = std::fs::read(util::repo_root().join(format!("resources/tests/chardat/{}.dat", f))) {
            presets.push((format!("fixture-{}", f), b));
        }
    }
    if let Ok(b) = std::fs::read(util::repo_root().join("resources/tests/gearsets/simple.dat")) {
        tables.push(("fixture".to_string(), b));
    }
    let ps = preset_strategy(ctx);
    let ts = table_strategy(ctx);
    for k in 0..n as u64 {
        presets.push((format!("gen{}", k), encode_preset(&draw_fixed(&ps, 0xC09_5EED + k))));
        tables.push((format!("gen{}", k), encode_table(&draw_fixed(&ts, 0xC09_7AB1 + k))));
    }
    (presets, tables)
}

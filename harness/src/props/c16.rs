//! C16 — auxiliary asset decoders return the stored records.
use crate::build::havok::*;
use crate::build::W;
use crate::engine::panics::guard;
use crate::engine::*;
use crate::props::c06::feq;
use crate::{ensure, ensure_eq, gen};
use proptest::collection::vec;
use proptest::prelude::*;
use serde::{Deserialize, Serialize};
use serde_json::json;

// ------------------------------------------------------------------------------------------------
// skeletons
// ------------------------------------------------------------------------------------------------

#[derive(Clone, Debug, Serialize, Deserialize)]
pub struct BoneM {
    pub name: String,
    pub parent: i16,
    /// 12 float bit patterns: translation[4], rotation[4], scale[4]
    pub pose: Vec<u32>,
}

#[derive(Clone, Debug, Serialize, Deserialize)]
pub struct ExtraMember {
    pub name: String,
    /// kind selector, see `extra_kind`
    pub kind: u8,
    pub present: bool,
    pub len: u8,
    pub seed: u32,
}

#[derive(Clone, Debug, Serialize, Deserialize)]
pub struct SkelCase {
    pub container_version: u8,
    pub gap: u8,
    pub bones: Vec<BoneM>,
    pub second_skeleton: bool,
    pub backrefs: bool,
    pub pad_ints: u8,
    /// extra members sprinkled over the used types: (type selector, position key, member)
    pub extras: Vec<(u8, u8, ExtraMember)>,
    /// unused extra types: (name, members)
    pub extra_types: Vec<(String, Vec<ExtraMember>)>,
    pub bone_parent_type: bool,
    pub lock_translation: u8,
    pub other_variants: u8,
    pub container_position: u8,
    pub skeleton_name: String,
    pub ids: [u32; 4],
}

fn ident() -> BoxedStrategy<String> {
    gen::from_alphabet("abcdefghijklmnopqrstuvwxyzABCDEFGHIJKLMNOPQRSTUVWXYZ0123456789_", 1, 16)
}

fn extra_member() -> BoxedStrategy<ExtraMember> {
    (ident(), 0u8..16, any::<bool>(), 0u8..5, any::<u32>()).prop_map(|(name, kind, present, len, seed)| ExtraMember { name: format!("x_{}", name), kind, present, len, seed }).boxed()
}

/// twelve floats (position, rotation, scale: four each) as bit patterns: arbitrary ones, with zeros, negative zeros and ones
/// common, and one group in eight zero as a whole (+0.0 or -0.0) or the identity rotation - values a reader might be tempted
/// to "repair"
fn pose_strategy() -> BoxedStrategy<Vec<u32>> {
    let fl = prop_oneof![6 => any::<u32>(), 1 => Just(0u32), 1 => Just(0x8000_0000u32), 1 => Just(0x3f80_0000u32), 1 => Just(0xbf80_0000u32)];
    (vec(fl, 12), any::<u16>())
        .prop_map(|(mut v, k)| {
            for g in 0..3 {
                let sel = (k >> (4 * g)) & 15;
                let fill: Option<[u32; 4]> = match sel {
                    0 => Some([0; 4]),
                    1 => Some([0x8000_0000; 4]),
                    2 => Some([0, 0, 0, 0x3f80_0000]),
                    _ => None,
                };
                if let Some(f) = fill {
                    v[4 * g..4 * g + 4].copy_from_slice(&f);
                }
            }
            v
        })
        .boxed()
}

fn skel_strategy(_: &Ctx) -> BoxedStrategy<SkelCase> {
    let bone = (prop_oneof![6 => ident(), 2 => Just("j_kosi".to_string()), 1 => Just(String::new()), 2 => gen::from_alphabet("n_hara_abcdefghijklmnopqrstuvwxyz", 100, 130)], any::<u16>(), pose_strategy());
    (
        (0u8..3, 0u8..40, vec(bone, 1..=40), any::<bool>(), any::<bool>(), 0u8..4),
        (vec((0u8..5, any::<u8>(), extra_member()), 0..8), vec((ident(), vec(extra_member(), 0..5)), 0..4), any::<bool>(), 0u8..3, 0u8..3, any::<u8>(), ident(), any::<[u32; 4]>()),
    )
        .prop_map(|((container_version, gap, bones, second_skeleton, backrefs, pad_ints), (extras, extra_types, bone_parent_type, lock_translation, other_variants, container_position, skeleton_name, ids))| {
            // two skeletons in three list every parent before its children; the third lists bones in any order
            // (a parent may sit in a later slot of the table than its child)
            let n = bones.len();
            let anywhere = ids[3] % 3 == 0;
            let bones = bones
                .into_iter()
                .enumerate()
                .map(|(i, (name, p, pose))| {
                    let parent = if p % 5 == 0 {
                        -1
                    } else if anywhere {
                        let q = p as usize % n;
                        if q == i {
                            -1
                        } else {
                            q as i16
                        }
                    } else if i == 0 {
                        -1
                    } else {
                        (p as usize % i) as i16
                    };
                    BoneM { name, parent, pose }
                })
                .collect();
            SkelCase { container_version, gap, bones, second_skeleton, backrefs, pad_ints, extras, extra_types, bone_parent_type, lock_translation, other_variants, container_position, skeleton_name, ids }
        })
        .boxed()
}

/// (type bits, tuple size, class name) of an extra member kind
fn extra_kind(kind: u8) -> (u32, u32, Option<&'static str>) {
    match kind % 16 {
        0 => (T_BYTE, 0, None),
        1 => (T_INT, 0, None),
        2 => (T_REAL, 0, None),
        3 => (T_STRING, 0, None),
        4 => (T_OBJECT, 0, Some("hkReferencedObject")),
        5 => (ARRAY | T_BYTE, 0, None),
        6 => (ARRAY | T_INT, 0, None),
        7 => (ARRAY | T_REAL, 0, None),
        8 => (ARRAY | T_STRING, 0, None),
        9 => (ARRAY | T_OBJECT, 0, Some("hkReferencedObject")),
        10 => (ARRAY | T_VEC4, 0, None),
        11 => (ARRAY | T_VEC12, 0, None),
        12 => (ARRAY | T_STRUCT, 0, Some("hkaBone")),
        13 => (TUPLE | T_INT, 3, None),
        14 => (TUPLE | T_REAL, 4, None),
        _ => (ARRAY | 7, 0, None), // ARRAYVEC16
    }
}

/// must the member be present in an object (the reader has no default for it)?
fn must_be_present(ty: u32) -> bool {
    let base = ty & 0xf;
    if ty & TUPLE != 0 {
        return false;
    }
    (4..=7).contains(&base) || (ty & ARRAY == 0 && (base == T_REAL || base == T_STRING))
}

fn can_be_present(ty: u32) -> bool {
    ty & TUPLE == 0
}

fn to_def(m: &ExtraMember) -> MemberDef {
    let (ty, tuple_size, class) = extra_kind(m.kind);
    MemberDef { name: m.name.clone(), ty, tuple_size, class: class.map(|s| s.to_string()) }
}

fn extra_present(m: &ExtraMember) -> bool {
    let (ty, _, _) = extra_kind(m.kind);
    if must_be_present(ty) {
        true
    } else if !can_be_present(ty) {
        false
    } else {
        m.present
    }
}

/// write the value of a present extra member
fn write_extra_value(w: &mut TagWriter, m: &ExtraMember, bone_member_count: usize) {
    let (ty, _, _) = extra_kind(m.kind);
    let base = ty & 0xf;
    let n = m.len as usize;
    if ty & ARRAY != 0 {
        w.packed(n as i32);
        match base {
            T_BYTE => (0..n).for_each(|i| w.out.push((m.seed >> (i % 4 * 8)) as u8)),
            T_INT => {
                w.packed(4);
                (0..n).for_each(|i| w.packed((m.seed.rotate_left(i as u32 * 5)) as i32 >> (i % 3 * 9)));
            }
            T_REAL => (0..n).for_each(|i| w.f32(m.seed ^ i as u32)),
            T_STRING => (0..n).for_each(|i| w.string(&format!("s{}_{}", m.seed % 7, i))),
            T_OBJECT => (0..n).for_each(|_| w.packed(0)),
            T_STRUCT => {
                // struct array of hkaBone with no member present
                w.bitfield(&vec![false; bone_member_count]);
            }
            _ => {
                let sz = [4usize, 8, 12, 16][(base - 4) as usize];
                (0..n * sz).for_each(|i| w.f32(m.seed.wrapping_add(i as u32)));
            }
        }
    } else {
        match base {
            T_BYTE => w.out.push(m.seed as u8),
            T_INT => w.packed(m.seed as i32),
            T_REAL => w.f32(m.seed),
            T_STRING => w.string(&format!("v{}", m.seed % 11)),
            _ => w.packed(0),
        }
    }
}

struct TypeBuild {
    def: TypeDef,
    /// for each member: Some(index into extras) or None for a required member
    extra_of: Vec<Option<usize>>,
}

fn build_type(name: &str, parent: usize, required: Vec<MemberDef>, c: &SkelCase, selector: u8) -> TypeBuild {
    // required members first, then extras inserted at positions given by their key
    let mut members: Vec<(MemberDef, Option<usize>)> = required.into_iter().map(|m| (m, None)).collect();
    for (i, (sel, key, m)) in c.extras.iter().enumerate() {
        if *sel == selector {
            let mut d = to_def(m);
            // names must not shadow required members
            d.name = format!("{}{}", d.name, i);
            let at = *key as usize % (members.len() + 1);
            members.insert(at, (d, Some(i)));
        }
    }
    TypeBuild { def: TypeDef { name: name.to_string(), version: selector as i32, parent, members: members.iter().map(|m| m.0.clone()).collect() }, extra_of: members.iter().map(|m| m.1).collect() }
}

pub fn build_skeleton_file(c: &SkelCase) -> Vec<u8> {
    let md = |name: &str, ty: u32, class: Option<&str>| MemberDef { name: name.to_string(), ty, tuple_size: 0, class: class.map(|s| s.to_string()) };
    let mut w = TagWriter::new(c.backrefs, c.pad_ints);
    w.explicit_empty = c.ids[0] % 2 == 0;
    w.packed(1);
    w.packed(3);
    // ---- type table
    let mut types: Vec<TypeBuild> = vec![];
    let add = |t: TypeBuild, types: &mut Vec<TypeBuild>| -> usize {
        types.push(t);
        types.len() // index in the reader's table (0 is the built-in "object")
    };
    // some unused extra types first
    for (i, (name, members)) in c.extra_types.iter().enumerate() {
        if i % 2 == 0 {
            add(TypeBuild { def: TypeDef { name: format!("hkx{}{}", name, i), version: i as i32, parent: 0, members: members.iter().map(to_def).collect() }, extra_of: vec![] }, &mut types);
        }
    }
    let base_obj = add(build_type("hkBaseObject", 0, vec![], c, 250), &mut types);
    let referenced = add(build_type("hkReferencedObject", base_obj, vec![md("memSizeAndFlags", T_INT, None)], c, 0), &mut types);
    let bone_parent = if c.bone_parent_type { add(build_type("hkaBoneBase", 0, vec![md("flags", T_INT, None)], c, 251), &mut types) } else { 0 };
    let mut bone_members = vec![md("name", T_STRING, None)];
    if c.lock_translation > 0 {
        bone_members.push(md("lockTranslation", if c.lock_translation == 1 { T_BYTE } else { T_INT }, None));
    }
    let bone_t = build_type("hkaBone", bone_parent, bone_members, c, 252);
    let bone_member_count = bone_t.def.members.len() + if c.bone_parent_type { 1 } else { 0 };
    add(bone_t, &mut types);
    let variant_t = add(build_type("hkRootLevelContainerNamedVariant", 0, vec![md("name", T_STRING, None), md("className", T_STRING, None), md("variant", T_OBJECT, Some("hkReferencedObject"))], c, 253), &mut types);
    let _ = variant_t;
    let root_t = add(build_type("hkRootLevelContainer", 0, vec![md("namedVariants", ARRAY | T_STRUCT, Some("hkRootLevelContainerNamedVariant"))], c, 1), &mut types);
    // every third skeleton class sits two levels below hkReferencedObject: an intermediate class with a member of its
    // own, so that members are inherited from an ancestor that is not the direct parent
    let skeleton_parent = if c.ids[2] % 3 == 0 { add(build_type("hkaSkeletonBase", referenced, vec![md("baseFlags", T_INT, None)], c, 254), &mut types) } else { referenced };
    let skeleton_t = add(
        build_type("hkaSkeleton", skeleton_parent, vec![md("name", T_STRING, None), md("parentIndices", ARRAY | T_INT, None), md("bones", ARRAY | T_STRUCT, Some("hkaBone")), md("referencePose", ARRAY | T_VEC12, None), md("referenceFloats", ARRAY | T_REAL, None), md("floatSlots", ARRAY | T_STRING, None)], c, 2),
        &mut types,
    );
    let container_t = add(build_type("hkaAnimationContainer", referenced, vec![md("skeletons", ARRAY | T_OBJECT, Some("hkaSkeleton")), md("animations", ARRAY | T_OBJECT, Some("hkaAnimation")), md("bindings", ARRAY | T_OBJECT, Some("hkaAnimationBinding")), md("attachments", ARRAY | T_OBJECT, Some("hkaBoneAttachment")), md("skins", ARRAY | T_OBJECT, Some("hkaMeshBinding"))], c, 3), &mut types);
    let other_t = add(build_type("hkxEnvironment", referenced, vec![md("count", T_INT, None)], c, 4), &mut types);
    for (i, (name, members)) in c.extra_types.iter().enumerate() {
        if i % 2 == 1 {
            let parent = 1 + (i % types.len());
            add(TypeBuild { def: TypeDef { name: format!("hky{}{}", name, i), version: 0, parent, members: members.iter().map(to_def).collect() }, extra_of: vec![] }, &mut types);
        }
    }
    for t in &types {
        write_type(&mut w, &t.def);
    }
    // ---- members() of a type in reader order: parents first
    fn chain(types: &[TypeBuild], idx: usize) -> Vec<(usize, usize)> {
        if idx == 0 {
            return vec![];
        }
        let t = &types[idx - 1];
        let mut v = chain(types, t.def.parent);
        for m in 0..t.def.members.len() {
            v.push((idx, m));
        }
        v
    }
    // ---- object layout: 1 root, then variant targets, then skeletons
    let n_other = c.other_variants as usize;
    let container_pos = c.container_position as usize % (n_other + 1);
    let mut variant_objs: Vec<(String, String, usize)> = vec![]; // (name, className, object index)
    let mut next_obj = 2usize;
    let mut container_obj = 0usize;
    for v in 0..=n_other {
        if v == container_pos {
            container_obj = next_obj;
            variant_objs.push(("Merged Animation Container".into(), "hkaAnimationContainer".into(), next_obj));
        } else {
            variant_objs.push((format!("Scene Data {}", v), "hkxEnvironment".into(), next_obj));
        }
        next_obj += 1;
    }
    let n_skel = if c.second_skeleton { 2 } else { 1 };
    let skel_objs: Vec<usize> = (0..n_skel).map(|i| next_obj + i).collect();

    // generic object writer
    let mut write_object = |w: &mut TagWriter, type_idx: usize, required: &mut dyn FnMut(&mut TagWriter, &str)| {
        w.packed(4);
        w.packed(type_idx as i32);
        let members = chain(&types, type_idx);
        let present: Vec<bool> = members
            .iter()
            .map(|(ti, mi)| match types[ti - 1].extra_of.get(*mi).copied().flatten() {
                Some(e) => extra_present(&c.extras[e].2),
                None => true,
            })
            .collect();
        w.bitfield(&present);
        for ((ti, mi), p) in members.iter().zip(&present) {
            if !p {
                continue;
            }
            match types[ti - 1].extra_of.get(*mi).copied().flatten() {
                Some(e) => write_extra_value(w, &c.extras[e].2, bone_member_count),
                None => required(w, &types[ti - 1].def.members[*mi].name.clone()),
            }
        }
    };

    // root container
    write_object(&mut w, root_t, &mut |w, name| {
        assert_eq!(name, "namedVariants");
        w.packed(variant_objs.len() as i32);
        let vt_members = &types[variant_t - 1];
        let present: Vec<bool> = vt_members.extra_of.iter().map(|e| e.map(|e| extra_present(&c.extras[e].2) && extra_soa_ok(&c.extras[e].2)).unwrap_or(true)).collect();
        w.bitfield(&present);
        for (mi, m) in vt_members.def.members.iter().enumerate() {
            if !present[mi] {
                continue;
            }
            match vt_members.extra_of[mi] {
                Some(e) => write_soa_extra(w, &c.extras[e].2, variant_objs.len()),
                None => match m.name.as_str() {
                    "name" => variant_objs.iter().for_each(|v| w.string(&v.0)),
                    "className" => variant_objs.iter().for_each(|v| w.string(&v.1)),
                    _ => variant_objs.iter().for_each(|v| w.packed(v.2 as i32)),
                },
            }
        }
    });
    // variant targets
    for v in &variant_objs {
        if v.2 == container_obj {
            write_object(&mut w, container_t, &mut |w, name| match name {
                "memSizeAndFlags" => w.packed(0),
                "skeletons" => {
                    w.packed(skel_objs.len() as i32);
                    skel_objs.iter().for_each(|o| w.packed(*o as i32));
                }
                _ => w.packed(0),
            });
        } else {
            write_object(&mut w, other_t, &mut |w, name| match name {
                "memSizeAndFlags" => w.packed(-3),
                _ => w.packed(77),
            });
        }
    }
    // skeletons: the first one carries the case's bones, a second one is a decoy with other data
    for (si, _) in skel_objs.iter().enumerate() {
        let bones: Vec<BoneM> = if si == 0 { c.bones.clone() } else { vec![BoneM { name: "decoy".into(), parent: -1, pose: vec![0x3f80_0000; 12] }] };
        let bt = types.iter().find(|t| t.def.name == "hkaBone").unwrap();
        let bone_parent_members = if c.bone_parent_type { 1 } else { 0 };
        write_object(&mut w, skeleton_t, &mut |w, name| match name {
            "memSizeAndFlags" => w.packed(1 << 20),
            "baseFlags" => w.packed(-70000),
            "name" => w.string(&c.skeleton_name),
            "parentIndices" => {
                w.packed(bones.len() as i32);
                w.packed(2);
                bones.iter().for_each(|b| w.packed(b.parent as i32));
            }
            "bones" => {
                w.packed(bones.len() as i32);
                // existence over parent members then own members
                let mut present: Vec<bool> = vec![false; bone_parent_members];
                present.extend(bt.extra_of.iter().map(|e| e.map(|e| extra_present(&c.extras[e].2) && extra_soa_ok(&c.extras[e].2)).unwrap_or(true)));
                w.bitfield(&present);
                for (mi, m) in bt.def.members.iter().enumerate() {
                    if !present[bone_parent_members + mi] {
                        continue;
                    }
                    match bt.extra_of[mi] {
                        Some(e) => write_soa_extra(w, &c.extras[e].2, bones.len()),
                        None => match m.name.as_str() {
                            "name" => bones.iter().for_each(|b| w.string(&b.name)),
                            _ => {
                                if m.ty == T_INT {
                                    w.packed(1);
                                    bones.iter().for_each(|_| w.packed(0));
                                } else {
                                    bones.iter().for_each(|_| w.out.push(0));
                                }
                            }
                        },
                    }
                }
            }
            "referencePose" => {
                w.packed(bones.len() as i32);
                bones.iter().for_each(|b| b.pose.iter().for_each(|f| w.f32(*f)));
            }
            "referenceFloats" => {
                w.packed(2);
                w.f32(0x3f00_0000);
                w.f32(0xbf00_0000);
            }
            _ => {
                w.packed(1);
                w.string("slot");
            }
        });
    }
    w.packed(7);
    let mut gap: Vec<u8> = (0..c.gap).map(|i| i ^ 0x5a).collect();
    // the newer containers carry a 32-bit payload offset: every 16th of them has its payload beyond 64 KiB
    if far_payload(c) {
        gap = crate::build::mdl::random_bytes(c.ids[1] as u64, 65536 + c.gap as usize);
    }
    sklb(c.container_version, &gap, &w.out, c.ids)
}

fn far_payload(c: &SkelCase) -> bool {
    c.container_version != 0 && c.ids[0] % 16 == 0
}

/// inside a struct array only scalar-typed columns are written (the reader ignores the array flag there)
fn extra_soa_ok(m: &ExtraMember) -> bool {
    let (ty, _, _) = extra_kind(m.kind);
    ty & (ARRAY | TUPLE) == 0 && ty & 0xf != T_OBJECT
}

fn write_soa_extra(w: &mut TagWriter, m: &ExtraMember, len: usize) {
    let (ty, _, _) = extra_kind(m.kind);
    match ty & 0xf {
        T_BYTE => (0..len).for_each(|i| w.out.push(i as u8)),
        T_INT => {
            w.packed(0);
            (0..len).for_each(|i| w.packed(i as i32 - 3));
        }
        T_REAL => (0..len).for_each(|i| w.f32(i as u32)),
        _ => (0..len).for_each(|i| w.string(&format!("e{}", i % 3))),
    }
}

fn prop_skeleton(c: &SkelCase, ctx: &Ctx) -> PResult {
    let file = build_skeleton_file(c);
    let sk = match guard("Skeleton::from_existing", || physis::skeleton::Skeleton::from_existing(&file))? {
        Some(s) => s,
        None => return fail("skeleton-rejected", "from_existing returned None for a well-formed skeleton"),
    };
    ensure_eq!(sk.bones.len(), c.bones.len(), "bone-count", "number of bones");
    for (i, (g, w)) in sk.bones.iter().zip(&c.bones).enumerate() {
        ensure_eq!(&g.name, &w.name, "bone-name", "bone {} name", i);
        ensure_eq!(g.parent_index, w.parent as i32, "bone-parent", "bone {} parent index", i);
        let f = |k: usize| f32::from_bits(w.pose[k]);
        let ok = (0..3).all(|k| feq(g.position[k], f(k))) && (0..4).all(|k| feq(g.rotation[k], f(4 + k))) && (0..3).all(|k| feq(g.scale[k], f(8 + k)));
        if !ok {
            return fail("bone-pose", format!("bone {} pose: physis position {:?} rotation {:?} scale {:?}; stored {:?}", i, g.position, g.rotation, g.scale, w.pose.iter().map(|b| f32::from_bits(*b)).collect::<Vec<_>>()));
        }
    }
    ctx.classf(format!("sklb:container-version:{}", c.container_version));
    if c.ids[2] % 3 == 0 {
        ctx.class("sklb:members-inherited-over-two-levels");
    }
    if far_payload(c) {
        ctx.class("sklb:payload-beyond-64KiB");
    }
    ctx.class(if c.backrefs { "havok:string-backrefs" } else { "havok:literal-strings" });
    if c.ids[0] % 2 == 0 && c.backrefs && c.bones.iter().any(|b| b.name.is_empty()) {
        ctx.class("havok:empty-string-as-explicit-literal-with-backrefs");
    }
    if c.pad_ints > 0 {
        ctx.class("havok:non-minimal-packed-ints");
    }
    if c.bone_parent_type {
        ctx.class("havok:struct-with-parent-type");
    }
    if c.second_skeleton {
        ctx.class("havok:second-skeleton");
    }
    let n_extra = c.extras.len() + c.extra_types.len();
    if c.bones.len() >= 3 && n_extra >= 1 {
        ctx.nontrivial(&file);
        if ctx.want_sample() {
            ctx.sample(json!({"kind": "skeleton", "container_version": c.container_version, "bones": c.bones.iter().take(4).map(|b| (b.name.clone(), b.parent)).collect::<Vec<_>>(), "bone_count": c.bones.len(), "extra_members": c.extras.len(), "extra_types": c.extra_types.len(), "file_len": file.len(), "file_prefix": util::hex_trunc(&file, 48)}));
        }
    }
    Ok(())
}

// ------------------------------------------------------------------------------------------------
// pre-bone deformer
// ------------------------------------------------------------------------------------------------

#[derive(Clone, Debug, Serialize, Deserialize)]
pub struct PbdNode {
    pub body_id: u16,
    /// parent as an index < own index (or none)
    pub parent: Option<u8>,
    pub bones: Vec<(String, Vec<u32>)>,
    pub has_sibling: bool,
}

#[derive(Clone, Debug, Serialize, Deserialize)]
pub struct PbdCase {
    pub nodes: Vec<PbdNode>,
    pub item_order: Vec<u16>,
    pub link_order: Vec<u16>,
}

fn pbd_strategy(_: &Ctx) -> BoxedStrategy<PbdCase> {
    // one bone name in ten is long (60..300 characters: around and beyond 64, 128 and 256)
    let bone = (prop_oneof![6 => ident(), 2 => Just("j_sebo_a".to_string()), 1 => gen::from_alphabet("j_abcdefghijklmnopqrstuvwxyz0123456789", 60, 300)], vec(any::<u32>(), 12));
    vec((any::<u16>(), prop::option::weighted(0.8, any::<u8>()), vec(bone, 0..=6), prop::bool::weighted(0.7)), 1..=12)
        .prop_flat_map(|nodes| {
            let n = nodes.len();
            (Just(nodes), vec(any::<u16>(), n), vec(any::<u16>(), n))
        })
        .prop_map(|(nodes, item_order, link_order)| {
            let mut seen = std::collections::HashSet::new();
            let nodes: Vec<PbdNode> = nodes
                .into_iter()
                .enumerate()
                .map(|(i, (mut body_id, parent, bones, has_sibling))| {
                    while !seen.insert(body_id) {
                        body_id = body_id.wrapping_add(101);
                    }
                    PbdNode { body_id, parent: if i == 0 { None } else { parent.map(|p| p % i as u8) }, bones, has_sibling }
                })
                .collect();
            PbdCase { nodes, item_order, link_order }
        })
        .boxed()
}

fn perm(keys: &[u16]) -> Vec<usize> {
    let mut o: Vec<usize> = (0..keys.len()).collect();
    o.sort_by_key(|&i| (keys[i], i));
    o
}

pub fn build_pbd(c: &PbdCase) -> Vec<u8> {
    let n = c.nodes.len();
    // item_pos[node] = index in the item table, link_pos[node] = index in the link table
    let item_at = perm(&c.item_order);
    let link_at = perm(&c.link_order);
    let mut item_pos = vec![0usize; n];
    let mut link_pos = vec![0usize; n];
    for (pos, node) in item_at.iter().enumerate() {
        item_pos[*node] = pos;
    }
    for (pos, node) in link_at.iter().enumerate() {
        link_pos[*node] = pos;
    }
    // deformer blobs
    let table_end = 4 + 12 * n + 8 * n;
    let mut blobs = W::new();
    let mut data_offsets = vec![0usize; n];
    for node in 0..n {
        data_offsets[node] = table_end + blobs.len();
        let b = &c.nodes[node].bones;
        let count = b.len();
        let header = 4 + 2 * count + if count % 2 == 1 { 2 } else { 0 } + 48 * count;
        // names after the matrices
        // every name is found through its own offset: where the strings lie is free. Half of the deformers store
        // them in another order than the bones, with identical names stored once and unrelated bytes in between.
        let mut names = vec![];
        let mut offs = vec![0u16; count];
        let sel = b.first().map(|x| x.1[0]).unwrap_or(0);
        let mut order: Vec<usize> = (0..count).collect();
        if sel & 1 == 1 {
            order.sort_by_key(|&i| (b[i].1[1], i));
        }
        let mut stored: Vec<(&str, u16)> = vec![];
        for &i in &order {
            let name = b[i].0.as_str();
            if sel & 1 == 1 {
                if let Some((_, o)) = stored.iter().find(|(n, _)| *n == name) {
                    offs[i] = *o;
                    continue;
                }
                if sel & 2 == 2 {
                    names.extend_from_slice(b"gap\0");
                }
            }
            offs[i] = (header + names.len()) as u16;
            stored.push((name, offs[i]));
            names.extend_from_slice(name.as_bytes());
            names.push(0);
        }
        blobs.i32(count as i32);
        for o in &offs {
            blobs.u16(*o);
        }
        if count % 2 == 1 {
            blobs.u16(0);
        }
        for (_, m) in b {
            for f in m {
                blobs.u32(*f);
            }
        }
        blobs.bytes(&names);
    }
    let mut w = W::new();
    w.i32(n as i32);
    for pos in 0..n {
        let node = item_at[pos];
        w.u16(c.nodes[node].body_id).i16(link_pos[node] as i16).i32(data_offsets[node] as i32).zeros(4);
    }
    for pos in 0..n {
        let node = link_at[pos];
        let parent = c.nodes[node].parent.map(|p| link_pos[p as usize] as i16).unwrap_or(-1);
        let first_child = (0..n).find(|k| c.nodes[*k].parent == Some(node as u8)).map(|k| link_pos[k] as i16).unwrap_or(-1);
        // next sibling: some other node index or -1
        let sibling = if c.nodes[node].has_sibling { link_pos[(node + 1) % n] as i16 } else { -1 };
        w.i16(parent).i16(first_child).i16(sibling).u16(item_pos[node] as u16);
    }
    w.bytes(&blobs.b);
    w.b
}

fn prop_pbd(c: &PbdCase, ctx: &Ctx) -> PResult {
    let file = build_pbd(c);
    let pbd = match guard("PreBoneDeformer::from_existing", || physis::pbd::PreBoneDeformer::from_existing(&file))? {
        Some(p) => p,
        None => return fail("pbd-rejected", "from_existing returned None for a well-formed deformer file"),
    };
    let n = c.nodes.len();
    let mut asserted = 0;
    for from in 0..n {
        for to in 0..n {
            let (a, b) = (c.nodes[from].body_id, c.nodes[to].body_id);
            let got = guard("get_deform_matrices", || pbd.get_deform_matrices(a, b))?;
            ctx.eval();
            if from == to {
                ensure!(got.is_none(), "pbd-same-id", "get_deform_matrices({0}, {0}) returned matrices", a);
                continue;
            }
            // asserted when the start node has a sibling link and the target is a proper ancestor
            if !c.nodes[from].has_sibling {
                continue;
            }
            let mut chain = vec![from];
            let mut cur = from;
            let mut found = false;
            while let Some(p) = c.nodes[cur].parent {
                if p as usize == to {
                    found = true;
                    break;
                }
                cur = p as usize;
                chain.push(cur);
            }
            if !found {
                continue;
            }
            asserted += 1;
            let want: Vec<(&String, &Vec<u32>)> = chain.iter().flat_map(|k| c.nodes[*k].bones.iter().map(|b| (&b.0, &b.1))).collect();
            let got = match got {
                Some(g) => g,
                None => return fail("pbd-chain-none", format!("get_deform_matrices({}, {}) = None although {} is an ancestor of {}", a, b, b, a)),
            };
            ensure_eq!(got.bones.len(), want.len(), "pbd-chain-length", "matrices between body {} and ancestor {} (chain of {} nodes)", a, b, chain.len());
            for (i, (g, w)) in got.bones.iter().zip(&want).enumerate() {
                ensure_eq!(&g.name, w.0, "pbd-bone-name", "matrix {} bone name ({} -> {})", i, a, b);
                ensure!((0..12).all(|k| feq(g.deform[k], f32::from_bits(w.1[k]))), "pbd-matrix", "matrix {} of {} -> {}: physis={:?}", i, a, b, g.deform);
            }
            if chain.len() >= 2 {
                ctx.class("pbd:chain>=2");
            }
        }
    }
    ctx.classf(format!("pbd:nodes:{}", match n { 1 => "1", 2..=4 => "2-4", _ => ">4" }));
    if asserted > 0 && c.nodes.iter().any(|x| x.parent.is_some() && c.nodes[x.parent.unwrap() as usize].parent.is_some()) {
        ctx.nontrivial(&file);
        if ctx.want_sample() {
            ctx.sample(json!({"kind": "pbd", "nodes": c.nodes.iter().map(|x| json!({"body_id": x.body_id, "parent": x.parent, "bones": x.bones.len(), "sibling": x.has_sibling})).collect::<Vec<_>>(), "file_len": file.len()}));
        }
    }
    Ok(())
}

// ------------------------------------------------------------------------------------------------
// cmp / tera / lgb
// ------------------------------------------------------------------------------------------------

#[derive(Clone, Debug, Serialize, Deserialize)]
pub enum SmallCase {
    Cmp { rows: Vec<Vec<u32>>, prefix_seed: u64, tail: u8 },
    TeraRead { version: u32, plate_size: u32, clip: u32, unknown: u32, plates: Vec<(i16, i16)>, trailing: u8 },
    TeraWrite { plates: Vec<(i16, i16)> },
    Lgb { file_id: u32, chunk_id: u32, group_id: i32, name: String },
}

fn small_strategy(_: &Ctx) -> BoxedStrategy<SmallCase> {
    let plate = || (prop_oneof![3 => -64i16..64, 1 => any::<i16>()], prop_oneof![3 => -64i16..64, 1 => any::<i16>()]);
    prop_oneof![
        // scaling rows: arbitrary bit patterns, with zeros (+0.0 / -0.0) and ones common, and whole rows of zeros
        2 => (
            vec(prop_oneof![8 => vec(prop_oneof![6 => any::<u32>(), 1 => Just(0u32), 1 => Just(0x8000_0000u32), 1 => Just(0x3F80_0000u32)], 14), 1 => Just(vec![0u32; 14]), 1 => Just(vec![0x8000_0000u32; 14])], 0..=40),
            any::<u64>(),
            0u8..56,
        )
            .prop_map(|(rows, prefix_seed, tail)| SmallCase::Cmp { rows, prefix_seed, tail }),
        2 => (any::<u32>(), prop_oneof![2 => Just(128u32), 1 => 0u32..4096, 1 => any::<u32>()], any::<u32>(), any::<u32>(), vec(plate(), 0..=60), 0u8..9).prop_map(|(version, plate_size, clip, unknown, plates, trailing)| SmallCase::TeraRead { version, plate_size, clip, unknown, plates, trailing }),
        2 => vec(plate(), 0..=60).prop_map(|plates| SmallCase::TeraWrite { plates }),
        2 => (prop_oneof![1 => Just(u32::from_le_bytes(*b"LGB1")), 1 => any::<u32>()], prop_oneof![1 => Just(u32::from_le_bytes(*b"LGP1")), 1 => any::<u32>()], any::<i32>(), prop_oneof![3 => gen::from_alphabet("abcdefghijklmnopqrstuvwxyzABCDEFGHIJKLMNOPQRSTUVWXYZ0123456789_ -", 0, 32), 1 => (1u8..0x7f).prop_map(|b| (b as char).to_string())]).prop_map(|(file_id, chunk_id, group_id, name)| SmallCase::Lgb { file_id, chunk_id, group_id, name }),
    ]
    .boxed()
}

fn tera_bytes(version: u32, plate_size: u32, clip: u32, unknown: u32, plates: &[(i16, i16)]) -> Vec<u8> {
    let mut w = W::new();
    w.u32(version).u32(plates.len() as u32).u32(plate_size).u32(clip).u32(unknown).zeros(32);
    for (x, y) in plates {
        w.i16(*x).i16(*y);
    }
    w.b
}

fn close(a: f32, b: f64) -> bool {
    let a = a as f64;
    (a - b).abs() <= 1e-6 * b.abs().max(1.0) || (a.is_infinite() && b.abs() > 3.0e38)
}

fn lgb_bytes(file_id: u32, chunk_id: u32, group_id: i32, name: &str) -> Vec<u8> {
    let mut w = W::new();
    let total = 36 + name.len() + 1;
    w.u32(file_id).i32(total as i32).i32(1);
    w.u32(chunk_id).i32(24).i32(group_id).u32(16).i32(16).i32(0);
    w.bytes(name.as_bytes()).u8(0);
    w.b
}

fn prop_small(c: &SmallCase, ctx: &Ctx) -> PResult {
    match c {
        SmallCase::Cmp { rows, prefix_seed, tail } => {
            let mut file = crate::build::mdl::random_bytes(*prefix_seed, 0x2a800);
            for r in rows {
                for f in r {
                    file.extend_from_slice(&f.to_le_bytes());
                }
            }
            // a partial trailing row is not a row
            file.extend((0..*tail).map(|i| i ^ 0x33));
            let cmp = match guard("CMP::from_existing", || physis::cmp::CMP::from_existing(&file))? {
                Some(c) => c,
                None => return fail("cmp-rejected", "from_existing returned None"),
            };
            ensure_eq!(cmp.parameters.len(), rows.len(), "cmp-row-count", "number of scaling rows");
            for (i, (g, w)) in cmp.parameters.iter().zip(rows).enumerate() {
                let got = [g.male_min_size, g.male_max_size, g.male_min_tail, g.male_max_tail, g.female_min_size, g.female_max_size, g.female_min_tail, g.female_max_tail, g.bust_min_x, g.bust_min_y, g.bust_min_z, g.bust_max_x, g.bust_max_y, g.bust_max_z];
                ensure!((0..14).all(|k| feq(got[k], f32::from_bits(w[k]))), "cmp-row", "row {}: physis={:?} stored={:?}", i, got, w.iter().map(|b| f32::from_bits(*b)).collect::<Vec<_>>());
            }
            ctx.class("small:cmp");
            if rows.len() >= 2 {
                ctx.nontrivial(&file[0x2a800..]);
            }
        }
        SmallCase::TeraRead { version, plate_size, clip, unknown, plates, trailing } => {
            let mut file = tera_bytes(*version, *plate_size, *clip, *unknown, plates);
            file.extend((0..*trailing).map(|i| i ^ 0x77));
            let t = match guard("Terrain::from_existing", || physis::tera::Terrain::from_existing(&file))? {
                Some(t) => t,
                None => return fail("tera-rejected", "from_existing returned None"),
            };
            ensure_eq!(t.plates.len(), plates.len(), "tera-plate-count", "plate count");
            for (i, (g, (x, y))) in t.plates.iter().zip(plates).enumerate() {
                let want = (*plate_size as f64 * (*x as f64 + 0.5), *plate_size as f64 * (*y as f64 + 0.5));
                ensure!(close(g.position.0, want.0) && close(g.position.1, want.1), "tera-position", "plate {} ({}, {}) size {}: physis={:?} expected={:?}", i, x, y, plate_size, g.position, want);
                ensure_eq!(&g.filename, &format!("{:04}.mdl", i), "tera-filename", "plate {} file name", i);
            }
            ctx.class("small:tera-read");
            if plates.len() >= 2 {
                ctx.nontrivial(&file);
                if ctx.want_sample() {
                    ctx.sample(json!({"kind": "tera", "plate_size": plate_size, "plates": plates.iter().take(5).collect::<Vec<_>>(), "file": util::hex_trunc(&file, 64)}));
                }
            }
        }
        SmallCase::TeraWrite { plates } => {
            let t = physis::tera::Terrain { plates: plates.iter().enumerate().map(|(i, (x, y))| physis::tera::PlateModel { position: (128.0 * (*x as f32 + 0.5), 128.0 * (*y as f32 + 0.5)), filename: format!("{:04}.mdl", i) }).collect() };
            let w = match guard("Terrain::write_to_buffer", || t.write_to_buffer())? {
                Some(w) => w,
                None => return fail("tera-write-none", "write_to_buffer returned None"),
            };
            // own decode of the written file
            ensure_eq!(w.len(), 52 + 4 * plates.len(), "tera-written-length", "written terrain length");
            ensure_eq!(u32::from_le_bytes(w[4..8].try_into().unwrap()) as usize, plates.len(), "tera-written-count", "plate count @4");
            ensure_eq!(u32::from_le_bytes(w[8..12].try_into().unwrap()), 128, "tera-written-plate-size", "plate size @8");
            for (i, (x, y)) in plates.iter().enumerate() {
                let gx = i16::from_le_bytes(w[52 + 4 * i..54 + 4 * i].try_into().unwrap());
                let gy = i16::from_le_bytes(w[54 + 4 * i..56 + 4 * i].try_into().unwrap());
                ensure_eq!((gx, gy), (*x, *y), "tera-written-position", "plate {} grid position in the written file", i);
            }
            let back = match guard("Terrain::from_existing", || physis::tera::Terrain::from_existing(&w))? {
                Some(t) => t,
                None => return fail("tera-rejected", "written terrain does not parse"),
            };
            ensure_eq!(back.plates.len(), t.plates.len(), "tera-roundtrip-count", "plates after write -> read");
            for (i, (a, b)) in back.plates.iter().zip(&t.plates).enumerate() {
                ensure!(close(a.position.0, b.position.0 as f64) && close(a.position.1, b.position.1 as f64) && a.filename == b.filename, "tera-roundtrip", "plate {} after write -> read: {:?} vs {:?}", i, a, b);
            }
            ctx.class("small:tera-write");
            if plates.len() >= 2 {
                ctx.nontrivial(&w);
            }
        }
        SmallCase::Lgb { file_id, chunk_id, group_id, name } => {
            let mine = lgb_bytes(*file_id, *chunk_id, *group_id, name);
            let lg = match guard("LayerGroup::from_existing", || physis::layer::LayerGroup::from_existing(&mine))? {
                Some(l) => l,
                None => return fail("lgb-rejected", "from_existing returned None for a well-formed empty layer group"),
            };
            ensure_eq!(lg.file_id, *file_id, "lgb-file-id", "file id");
            ensure_eq!(lg.chunks.len(), 1, "lgb-chunk-count", "chunk count");
            ensure_eq!((lg.chunks[0].chunk_id, lg.chunks[0].layer_group_id, lg.chunks[0].name.as_str(), lg.chunks[0].layers.len()), (*chunk_id, *group_id, name.as_str(), 0), "lgb-chunk", "chunk id / group id / name / layers");
            // library writes a directly constructed value; compared with own encoding and parsed back
            let direct = physis::layer::LayerGroup { file_id: *file_id, chunks: vec![physis::layer::LayerChunk { chunk_id: *chunk_id, layer_group_id: *group_id, name: name.clone(), layers: vec![] }] };
            let w = match guard("LayerGroup::write_to_buffer", || direct.write_to_buffer())? {
                Some(w) => w,
                None => return fail("lgb-write-none", "write_to_buffer returned None"),
            };
            ensure!(w == mine, "lgb-written-bytes", "written layer group {} differs from the documented layout {}", util::hex(&w), util::hex(&mine));
            let back = match guard("LayerGroup::from_existing", || physis::layer::LayerGroup::from_existing(&w))? {
                Some(l) => l,
                None => return fail("lgb-rejected", "written layer group does not parse"),
            };
            ensure_eq!((back.file_id, back.chunks[0].chunk_id, back.chunks[0].layer_group_id, back.chunks[0].name.as_str()), (*file_id, *chunk_id, *group_id, name.as_str()), "lgb-roundtrip", "write -> read");
            ctx.class("small:lgb");
            if !name.is_empty() {
                ctx.nontrivial(&mine);
            }
        }
    }
    Ok(())
}

fn pre(ctx: &Ctx) {
    // own LGB encoder must reproduce the checked-in empty_planlive.lgb
    if let Ok(b) = std::fs::read(util::repo_root().join("resources/tests/empty_planlive.lgb")) {
        ctx.eval();
        if lgb_bytes(u32::from_le_bytes(*b"LGB1"), u32::from_le_bytes(*b"LGP1"), 261, "PlanLive") != b {
            ctx.infra("own LGB encoder disagrees with the checked-in empty_planlive.lgb");
        } else {
            ctx.class("fixture:empty_planlive.lgb-reproduced");
        }
    }
}

pub fn property() -> Property {
    Property {
        id: "C16",
        rule: "[round 9: pose components zero / -0 / 1 as common as arbitrary patterns, one group of four in five zero as a whole or the identity rotation] skeletons: three container versions with the Havok payload at a random offset (every 16th 32-bit-offset container: beyond 64 KiB); tag file written by the harness: file info, generated type table (the needed classes with their members in random positions among extra members of every scalar / array / tuple kind, parent types, unused extra types), root container with several named variants (the animation container at a random position), animation container, 1..2 skeletons (the first is asserted), 1..40 bones with forest hierarchy (-1 roots), names up to 130 bytes, 12-float poses with arbitrary bit patterns, string back-references on / off, non-minimal packed integers. pbd: 1..12 body ids, parent links forming a forest, child / sibling links, item and link tables independently permuted, 0..6 bones each with out-of-line names and 4x3 matrices; queries over all ordered pairs (asserted when the start node has a sibling link and the target is a proper ancestor; same id -> None). cmp: 0x2a800 prefix + 0..40 rows of 14 floats (arbitrary bit patterns, zeros and ones common, whole rows of +0.0 / -0.0) (+ partial trailing row). tera: arbitrary plate size on read (position = plate_size * (x + 0.5), relative tolerance 1e-6; file names NNNN.mdl), 128-grid positions on write decoded by an own reader and parsed back. lgb: empty layer groups with any ids and ASCII name: own encoding -> parse, library write = own encoding byte for byte (incl. the checked-in empty_planlive.lgb), write -> read. Non-trivial: skeleton with >= 3 bones and >= 1 extra member or type; pbd with an asserted query and a chain of length >= 2; >= 2 rows / plates; non-empty name. Distinct by hash of the file.",
        assumptions: &["tag-file members the reader has no default for (REAL / STRING scalars, vector arrays) are always present; tuple members always absent; struct element types have at most one parent level with members (object classes: up to two)", "pbd queries whose start node has no sibling link, or whose target is not an ancestor, are not asserted"],
        pre: Some(pre),
        post: None,
        parts: vec![
            Box::new(Part { name: "skeletons", driver: Driver::Gen(skel_strategy, 80_000, 1_280_000), prop: prop_skeleton, exhaustive: false }),
            Box::new(Part { name: "pbd", driver: Driver::Gen(pbd_strategy, 80_000, 1_280_000), prop: prop_pbd, exhaustive: false }),
            Box::new(Part { name: "cmp-tera-lgb", driver: Driver::Gen(small_strategy, 160_000, 2_560_000), prop: prop_small, exhaustive: false }),
        ],
    }
}

/// (skeletons, deformers) for the robustness checks (C18)
pub fn seed_files(ctx: &Ctx, n: usize) -> (Vec<(String, Vec<u8>)>, Vec<(String, Vec<u8>)>) {
    let ss = skel_strategy(ctx);
    let ps = pbd_strategy(ctx);
    let mut skels = vec![];
    let mut pbds = vec![];
    let mut k = 0u64;
    while (skels.len() < n || pbds.len() < n) && k < 300 {
        let s = draw_fixed(&ss, 0xC16_5EED + k);
        let p = draw_fixed(&ps, 0xC16_E5ED + k);
        k += 1;
        if skels.len() < n && s.bones.len() >= 3 {
            let b = build_skeleton_file(&s);
            if b.len() < 6000 {
                skels.push((format!("gen{}", skels.len()), b));
            }
        }
        if pbds.len() < n && p.nodes.len() >= 3 {
            let b = build_pbd(&p);
            if b.len() < 6000 {
                pbds.push((format!("gen{}", pbds.len()), b));
            }
        }
    }
    (skels, pbds)
}

pub fn seed_tera(plates: &[(i16, i16)]) -> Vec<u8> {
    tera_bytes(1, 128, 0, 0, plates)
}

pub fn seed_lgb(name: &str) -> Vec<u8> {
    lgb_bytes(u32::from_le_bytes(*b"LGB1"), u32::from_le_bytes(*b"LGP1"), 7, name)
}

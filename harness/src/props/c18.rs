//! C18 -- damaged game data is rejected without crashing (fault enumeration in isolated workers).
use crate::build::deflate::Mode;
use crate::build::sqpack::{self, BlockSpec, IndexRecord, ModelEntrySpec};
use crate::build::W;
use crate::engine::util::pack_files;
use crate::engine::*;
use crate::props::mutate::{self, Mut, Pos};
use crate::props::robust::*;
use proptest::collection::vec;
use proptest::prelude::*;
use std::sync::OnceLock;

fn text(n: usize) -> Vec<u8> {
    (0..n).map(|i| b"Final Fantasy XIV game data block content; 0123456789 abcdef\n"[(i * 5 + i / 17) % 61]).collect()
}

// ------------------------------------------------------------------------------------------------
// hand-built seeds for formats that have no generator elsewhere in the harness
// ------------------------------------------------------------------------------------------------

fn stm_seed() -> Vec<u8> {
    // 4 unknown bytes, entry count, keys, offsets (in u16 units from the end of the tables), entries = 5 end offsets + data
    let n = 3u16;
    let mut w = W::new();
    w.u32(0x0101_534D).i32(n as i32);
    for k in 0..n {
        w.u16(100 + k);
    }
    for k in 0..n {
        w.u16(k * 13);
    }
    for k in 0..n {
        for e in 1..=5u16 {
            w.u16(e * 2 + k);
        }
        w.fill(16, 0x3C);
    }
    w.b
}

fn dic_seed() -> Vec<u8> {
    // header at 0x8124; blocks are addressed relative to 0x8950
    let mut w = W::new();
    w.fill(0x8124, 0);
    for t in 0..3u16 {
        for i in 0..256u16 {
            w.u16(i ^ (t << 8));
        }
    }
    let base = 0x8950u32;
    let hdr_end = 0x8124 + 1536 + 20 + 20 + 4 + 1024; // 0x8B50
    let begin_len = 0x200u32 * 2;
    let inner_len = 16u32 * 2;
    let chara_len = 8u32 * 2;
    let word_len = 8u32 * 2;
    let entries_len = 4u32 * 16;
    let begin_off = hdr_end as u32 - base;
    let inner_off = begin_off + begin_len;
    let chara_off = inner_off + inner_len;
    let word_off = chara_off + chara_len;
    let entries_off = word_off + word_len;
    for o in [begin_off, inner_off, chara_off, word_off, entries_off] {
        w.u32(o);
    }
    for l in [begin_len, inner_len, chara_len, word_len, entries_len] {
        w.u32(l);
    }
    w.u32(0);
    for i in 0..256u32 {
        w.u32(if i == 0x30 { 1 } else { 0x100 + i });
    }
    assert_eq!(w.len(), hdr_end);
    // begin nodes: index 0x141 -> entry 1, 0x142 -> entry 2
    for i in 0..0x200u16 {
        w.u16(match i {
            0x141 => 1,
            0x142 => 2,
            _ => 0,
        });
    }
    // inner nodes: [4] -> entry 3
    for i in 0..16u16 {
        w.u16(if i == 4 { 3 } else { 0 });
    }
    // characters
    for c in [b'b' as u16, b'c' as u16, b'z' as u16, 0, 0, 0, 0, 0] {
        w.u16(c);
    }
    // words
    for c in [b'x' as u16, b'y' as u16, 0, b'w' as u16, 0, 0, 0, 0] {
        w.u16(c);
    }
    // entries: flag, sibling, child, offset
    for e in [[0u32, 0, 0, 0], [0, 2, 0, 0], [1, 1, 4, 0], [0, 1, 0, 4]] {
        for x in e {
            w.u32(x);
        }
    }
    w.b
}

/// a dictionary whose entries form one long chain (entry i leads to entry i + 1 through inner node i): no cycle,
/// but as deep as a file of this size can describe
fn dic_chain(n: usize) -> Vec<u8> {
    let mut w = W::new();
    w.fill(0x8124, 0);
    for t in 0..3u16 {
        for i in 0..256u16 {
            w.u16(i ^ (t << 8));
        }
    }
    let base = 0x8950u32;
    let hdr_end = 0x8124 + 1536 + 20 + 20 + 4 + 1024;
    let lens = [0x200u32 * 2, (n as u32 + 2) * 2, 8 * 2, 8 * 2, (n as u32 + 1) * 16];
    let mut off = hdr_end as u32 - base;
    for l in lens {
        w.u32(off);
        off += l;
    }
    for l in lens {
        w.u32(l);
    }
    w.u32(0);
    for i in 0..256u32 {
        w.u32(if i == 0x30 { 1 } else { 0x100 + i });
    }
    for i in 0..0x200u16 {
        w.u16(if i == 0x141 { 1 } else { 0 });
    }
    // inner node i -> entry i + 1 (the last one ends the chain)
    for i in 0..n as u32 + 2 {
        w.u16(if (i as usize) < n && i >= 1 { (i + 1).min(0xFFFF) as u16 } else { 0 });
    }
    for c in [b'a' as u16, 0, 0, 0, 0, 0, 0, 0] {
        w.u16(c);
    }
    for _ in 0..8 {
        w.u16(0);
    }
    // entry i: one character sibling, child slot i
    w.u32(0).u32(0).u32(0).u32(0);
    for i in 1..=n as u32 {
        w.u32(0).u32(1).u32(i).u32(0);
    }
    w.b
}

fn avfx_seed() -> Vec<u8> {
    let mut w = W::new();
    w.bytes(b"XFVA").u32(0);
    let blk = |w: &mut W, magic: &[u8; 4], payload: &[u8]| {
        w.bytes(magic).u32(4).bytes(payload);
        w.zeros(4 - payload.len());
    };
    blk(&mut w, b"reV\0", &0x2011_0913u32.to_le_bytes());
    blk(&mut w, b"PFDb", &[1]);
    blk(&mut w, b"GFb\0", &[0]);
    blk(&mut w, b"xPBC", &1.5f32.to_le_bytes());
    blk(&mut w, b"yPBC", &(-2.0f32).to_le_bytes());
    blk(&mut w, b"zSBC", &3.25f32.to_le_bytes());
    blk(&mut w, b"yLwD", &2u32.to_le_bytes());
    blk(&mut w, b"RvR\0", &0.5f32.to_le_bytes());
    blk(&mut w, b"EFGb", &[1]);
    // block kinds the reader does not parse (counts and sections): skipped as a whole
    blk(&mut w, b"nCcS", &1u32.to_le_bytes());
    blk(&mut w, b"nCxT", &0u32.to_le_bytes());
    w.bytes(b"dhcS").u32(16).fill(16, 0x11);
    w.bytes(b"xeT\0").u32(8).fill(8, 0x22);
    let n = w.len() as u32;
    w.set_u32(4, n);
    w.b
}

fn header_only(kind: &str) -> Vec<u8> {
    let mut w = W::new();
    match kind {
        "uld" => {
            w.bytes(b"uldh").bytes(b"0100").u32(16).u32(64).fill(64, 7);
        }
        "sgb" => {
            w.bytes(b"SGB1").i32(80).i32(1).fill(68, 1);
        }
        "scd" => {
            w.bytes(b"SEDB").bytes(b"SSCF").u32(3).u32(0).u8(4).u16(0x30).u64(0x1122_3344).zeros(4).u16(1).u16(1).u16(1).u16(7).u32(0x40).u32(0x50).u32(0x60).u32(0x70).u32(0x80).u16(0).zeros(2).fill(64, 9);
        }
        "hwc" => {
            w.fill(64 * 64 * 4, 0x7F);
        }
        "iwc" => {
            w.u16(2).u16(0xFF).fill(16, 3);
        }
        "tmb" => {
            w.bytes(b"TMLB").i32(48).i32(2).fill(36, 5);
        }
        "skp" => {
            w.bytes(b"plks").bytes(b"0031").fill(24, 2);
        }
        "schd" => {
            w.bytes(b"ShCd").bytes(b"0.1").u8(1).bytes(b"DX11").i32(64).u32(32).u32(48).fill(40, 6);
        }
        "phyb" => {
            w.bytes(&[1, 0, 0, 0]).u32(0).u32(12).u32(12).fill(16, 0);
        }
        "pap" => {
            w.bytes(b"pap ").i32(0x0002_0001).i16(1).u16(101).u8(0).i32(0).i32(0x24).i32(0x40).i32(0x60).fill(64, 1);
        }
        _ => unreachable!(),
    }
    w.b
}

fn sqdb_seed() -> Vec<u8> {
    let mut w = W::new();
    w.bytes(&sqpack::sqpack_header(0, 0, -1));
    w.u32(1024).u32(1).zeros(1016);
    for i in 0..3u32 {
        w.zeros(4).u32(128 * i).u32(100 + i).zeros(4).u32(0xAABB_0000 + i).u32(0xCCDD_0000 + i);
        let mut p = format!("exd/sheet{}.exh", i).into_bytes();
        p.resize(240, 0);
        w.bytes(&p);
    }
    w.b
}

/// A layer group with one layer that holds instance objects of several kinds (written from the reader's layout).
fn lgb_with_objects() -> Vec<u8> {
    let mut w = W::new();
    w.bytes(b"LGB1").i32(0).i32(1); // file size patched below
    // chunk header at 12; strings are relative to 20
    w.bytes(b"LGP1").i32(0).i32(42).u32(0).i32(24).i32(1); // chunk size + name offset patched below
    let after_chunk_header = w.len(); // 36
    w.i32(4); // layer_offsets[0]: relative to the position after the chunk header
    let l = w.len(); // layer start (40)
    assert_eq!(l, after_chunk_header + 4);
    let objects: Vec<(i32, Vec<u8>)> = vec![
        (0x0E, {
            let mut o = W::new();
            o.u32(1234).u32(0);
            o.b
        }),
        (0x10, {
            let mut o = W::new();
            o.u8(1).zeros(3).u32(0).u32(0);
            o.b
        }),
        (0x04, {
            let mut o = W::new();
            o.u32(0).f32(1.0).u32(0).bytes(&[255, 128, 0, 255]).u8(1).u8(0).u16(0).f32(0.0).f32(1.0).f32(10.0).f32(20.0).f32(0.5);
            o.b
        }),
        (0x28, {
            let mut o = W::new();
            o.i32(2).i32(0).i32(0).f32(0.25).u8(3).zeros(3).u32(0);
            o.b
        }),
        (0x41, vec![]),
        (90, vec![]),
    ];
    let n = objects.len() as i32;
    // layer header (52 bytes); offsets relative to the layer start
    let header_len = 52usize;
    let table_len = 4 * objects.len();
    let obj_base = header_len + table_len; // instance_object_offset
    let mut obj_bytes = W::new();
    let mut obj_offsets = vec![];
    for (i, (ty, data)) in objects.iter().enumerate() {
        obj_offsets.push(obj_bytes.len() as i32);
        obj_bytes.i32(*ty).u32(100 + i as u32).u32(48 + data.len() as u32);
        for f in [1.0f32, 2.0, 3.0, 0.0, 0.5, 0.0, 1.0, 1.0, 1.0] {
            obj_bytes.f32(f);
        }
        obj_bytes.bytes(data);
        obj_bytes.bytes(format!("obj{}\0", i).as_bytes());
    }
    let after_objects = obj_base + obj_bytes.len();
    let lsr_off = after_objects; // LayerSetReferencedList: type, offset, count, then the sets
    let lsr_len = 12 + 8;
    let obset_off = lsr_off + lsr_len;
    let obset_n = 2;
    let obena_off = obset_off + 12 * obset_n;
    let obena_n = 1;
    let name_off = obena_off + 12 * obena_n;
    w.u32(7).u32(name_off as u32).i32(obj_base as i32).i32(n);
    w.u8(1).u8(0).u8(0).u8(1);
    w.i32(lsr_off as i32);
    w.u16(0).u16(0).u8(0).u8(0).u16(0xFFFF);
    w.zeros(4);
    w.i32(obset_off as i32).i32(obset_n as i32).i32(obena_off as i32).i32(obena_n as i32);
    assert_eq!(w.len(), l + header_len);
    for o in &obj_offsets {
        w.i32(*o);
    }
    w.bytes(&obj_bytes.b);
    assert_eq!(w.len(), l + lsr_off);
    w.i32(1).i32(12).i32(2).u32(11).u32(12);
    for i in 0..obset_n {
        w.i32(1).u32(500 + i as u32).u32(0);
    }
    w.i32(6).u32(600).u8(1).u8(0).zeros(2);
    assert_eq!(w.len(), l + name_off);
    w.bytes(b"LayerOne\0");
    let chunk_name_at = w.len();
    w.bytes(b"PlanLive\0");
    let total = w.len();
    w.set_i32(4, total as i32);
    w.set_i32(16, (total - 12) as i32);
    w.set_u32(24, (chunk_name_at - 20) as u32);
    w.b
}

// ------------------------------------------------------------------------------------------------
// archive seeds
// ------------------------------------------------------------------------------------------------

pub struct Archive {
    pub tree: Vec<(String, Vec<u8>)>,
    pub queries: Vec<String>,
    pub index: Vec<u8>,
    pub index2: Vec<u8>,
    pub dat: Vec<u8>,
    pub entry_offsets: Vec<u64>,
}

fn build_archive() -> Archive {
    let blocks = |parts: &[(usize, Mode)]| -> Vec<BlockSpec> { parts.iter().map(|(n, m)| BlockSpec { data: text(*n), mode: *m }).collect() };
    let std_entry = sqpack::standard_entry(&blocks(&[(300, Mode::Dynamic), (100, Mode::Raw), (700, Mode::Fixed)]), 0, &[]);
    let tex_header = {
        let mut w = W::new();
        w.u32(0x0080_0000).u32(0x1450).u16(4).u16(4).u16(1).u16(2).u32(0).u32(1).u32(2);
        w.pad_to(80);
        w.b
    };
    let tex_entry = sqpack::texture_entry(&tex_header, &[blocks(&[(64, Mode::Dynamic)]), blocks(&[(16, Mode::Raw)])], 0);
    let mut m = ModelEntrySpec { version: 0x0100_0005, decl_num: 1, material_num: 1, num_lods: 2, ..Default::default() };
    m.stack = blocks(&[(136, Mode::Dynamic)]);
    m.runtime = blocks(&[(400, Mode::Fixed), (60, Mode::Raw)]);
    m.vertex[0] = blocks(&[(240, Mode::Dynamic)]);
    m.index[0] = blocks(&[(96, Mode::Raw)]);
    m.vertex[1] = blocks(&[(120, Mode::Stored)]);
    m.index[1] = blocks(&[(48, Mode::Dynamic)]);
    let model_entry = sqpack::model_entry(&m, 0);
    let exl = b"EXLT,2\nachievement,209\nquest/a,-1".to_vec();
    let exl_entry = sqpack::standard_entry(&[BlockSpec { data: exl, mode: Mode::Dynamic }], 0, &[]);
    let align = |n: usize| (n + 127) / 128 * 128;
    let mut off = 2048u64;
    let mut entries = vec![];
    let mut offs = vec![];
    for e in [&std_entry, &tex_entry, &model_entry, &exl_entry] {
        entries.push((off, e.clone()));
        offs.push(off);
        off += align(e.len()) as u64 + 128;
    }
    let dat = sqpack::dat_file(0, -1, &entries, 0);
    let paths = ["exd/data/file.bin", "exd/tex/icon.tex", "exd/chara/body.mdl", "exd/root.exl"];
    let recs: Vec<IndexRecord> = paths.iter().zip(&offs).map(|(p, o)| IndexRecord { path: p.to_string(), dat_id: 0, offset: *o, synonym: false }).collect();
    let index = sqpack::index_file(0, -1, false, &recs, 1, true);
    let index2 = sqpack::index_file(0, -1, true, &recs, 1, true);
    // an expansion with one more file
    let ex_entry = sqpack::standard_entry(&blocks(&[(200, Mode::Dynamic)]), 0, &[]);
    let ex_dat = sqpack::dat_file(0, -1, &[(2048, ex_entry)], 0);
    let ex_recs = vec![IndexRecord { path: "bg/ex1/01_zone/level/planlive.lgb".into(), dat_id: 0, offset: 2048, synonym: false }];
    let ex_index = sqpack::index_file(0, -1, false, &ex_recs, 1, true);
    let tree = vec![
        ("game/ffxivgame.ver".to_string(), b"2023.09.15.0000.0000".to_vec()),
        ("game/sqpack/ffxiv/0a0000.win32.index".to_string(), index.clone()),
        ("game/sqpack/ffxiv/0a0000.win32.index2".to_string(), index2.clone()),
        ("game/sqpack/ffxiv/0a0000.win32.dat0".to_string(), dat.clone()),
        ("game/sqpack/ex1/ex1.ver".to_string(), b"2023.09.15.0000.0000".to_vec()),
        ("game/sqpack/ex1/020100.win32.index".to_string(), ex_index),
        ("game/sqpack/ex1/020100.win32.dat0".to_string(), ex_dat),
    ];
    let mut queries: Vec<String> = paths.iter().map(|s| s.to_string()).collect();
    queries.push("bg/ex1/01_zone/level/planlive.lgb".into());
    queries.push("exd/absent.exh".into());
    queries.push("chara/absent/file.mdl".into());
    queries.push("nocategory/x".into());
    queries.push("nofolder.dat".into());
    queries.push("exd".into());
    queries.push("".into());
    queries.push("/".into());
    queries.push("exd/".into());
    Archive { tree, queries, index, index2, dat, entry_offsets: offs }
}

pub fn archive() -> &'static Archive {
    static A: OnceLock<Archive> = OnceLock::new();
    A.get_or_init(build_archive)
}

// ------------------------------------------------------------------------------------------------
// registry
// ------------------------------------------------------------------------------------------------

fn build_registry() -> Registry {
    let ctx = Ctx::new("C18", Tier::Quick, 0, true);
    // the thorough tier sweeps three times as many generated seed files per format
    let k = global_tier().pick(1usize, 3usize);
    let mut seeds: Vec<SeedFile> = vec![];
    for (n, b) in crate::props::c06::seed_files(4 * k) {
        let marks = vec![0x44u32, 0x40, 0x10, 0x28];
        seeds.push(SeedFile::new("mdl", n, b).magic(4).marks(marks));
    }
    if let Ok(b) = std::fs::read(util::repo_root().join("resources/tests/c0201e0038_top_zeroed.mdl")) {
        seeds.push(SeedFile::new("mdl", "zz-fixture", b).magic(4));
    }
    let (mtrls, shpks) = crate::props::c14::seed_files(&ctx, 3 * k);
    for (n, b) in mtrls {
        seeds.push(SeedFile::new("mtrl", n, b).magic(4));
    }
    let _ = shpks;
    for (n, b, selectors, marks) in crate::props::c14::seed_shpks(&ctx, 3 * k) {
        // second argument: the selectors a caller of the intact package would look up (nodes and aliases)
        let mut s = SeedFile::new("shpk", n, b.clone()).magic(4).marks(marks);
        s.args = vec![b, selectors.iter().flat_map(|x| x.to_le_bytes()).collect()];
        seeds.push(s);
    }
    {
        // the 16-bit format the texture generator of C13 does not cover (2 bytes per pixel)
        let mut w = W::new();
        w.u32(0x0080_0000).u32(0x1440).u16(8).u16(4).u16(1).u16(1).u32(0).u32(1).u32(2).u32(80);
        w.pad_to(80);
        w.bytes(&crate::build::mdl::random_bytes(11, 8 * 4 * 2));
        seeds.push(SeedFile::new("tex", "hand-B4G4R4A4", w.b).marks(vec![4, 8, 10, 12, 14, 80]));
    }
    for (n, b) in crate::props::c13::seed_files(&ctx, 5 * k) {
        seeds.push(SeedFile::new("tex", n, b).marks(vec![4, 8, 10, 12, 14, 80]));
    }
    for (n, exh, exd) in crate::props::c05::seed_files(&ctx, 3 * k) {
        seeds.push(SeedFile::new("exh", n.clone(), exh.clone()).magic(4));
        let mut s = SeedFile::new("exd", n.clone(), exd.clone()).magic(4);
        s.args = vec![exh.clone(), exd.clone()];
        s.target = 1;
        seeds.push(s);
        let mut s = SeedFile::new("exd", format!("{}-header", n), exh.clone()).magic(4);
        s.args = vec![exh, exd];
        s.target = 0;
        seeds.push(s);
    }
    let (skels, pbds) = crate::props::c16::seed_files(&ctx, 3 * k);
    for (n, b) in skels {
        seeds.push(SeedFile::new("sklb", n, b).magic(4));
    }
    for (n, b) in pbds {
        seeds.push(SeedFile::new("pbd", n, b));
    }
    {
        let mut file = crate::build::mdl::random_bytes(3, 0x2a800);
        for r in 0..6u32 {
            for k in 0..14u32 {
                file.extend_from_slice(&((r * 14 + k) as f32 * 0.25).to_le_bytes());
            }
        }
        seeds.push(SeedFile::new("cmp", "rows6", file).marks(vec![0x2a800 - 2, 0x2a800 + 56, 0x2a800 + 5 * 56]));
    }
    seeds.push(SeedFile::new("tera", "plates5", crate::props::c16::seed_tera(&[(0, 0), (1, -1), (-3, 7), (64, 64), (-64, 63)])));
    // the richest seed first: the quick tier sweeps the first two seeds of an entry point field by field
    seeds.push(SeedFile::new("lgb", "objects", lgb_with_objects()).magic(4));
    seeds.push(SeedFile::new("lgb", "empty", crate::props::c16::seed_lgb("planlive")).magic(4));
    if let Ok(b) = std::fs::read(util::repo_root().join("resources/tests/empty_planlive.lgb")) {
        seeds.push(SeedFile::new("lgb", "fixture", b).magic(4));
    }
    seeds.push(SeedFile::new("stm", "three", stm_seed()));
    seeds.push(SeedFile::new("dic", "words", dic_seed()).marks((0..12).map(|k| 0x8124 + 1536 + 4 * k).chain([0x8B50, 0x8F50, 0x8F70, 0x8F80, 0x8F90, 0x8FA0, 0x8FB0, 0x8FC0]).collect()));
    seeds.push(SeedFile::new("avfx", "values", avfx_seed()).magic(4));
    for k in ["uld", "sgb", "scd", "hwc", "iwc", "tmb", "skp", "schd", "phyb", "pap"] {
        let entry: &'static str = k;
        seeds.push(SeedFile::new(entry, "minimal", header_only(k)));
    }
    seeds.push(SeedFile::new("sqdb", "three", sqdb_seed()).magic(8).marks(vec![1024, 2048, 2048 + 264]));
    // archives
    let a = archive();
    let q = a.queries.join("\n").into_bytes();
    for (name, bytes) in [("index1", &a.index), ("index2", &a.index2)] {
        let mut s = SeedFile::new("index", name, bytes.clone()).magic(8);
        s.args = vec![bytes.clone(), q.clone(), vec![0]];
        s.marks = vec![1024, 1024 + 4, 1024 + 8, 1024 + 12, 1024 + 80, 1024 + 84, 1024 + 152, 1024 + 224, 1024 + 296, 2048, 2048 + 16, 2048 + 64];
        seeds.push(s);
    }
    {
        let mut offs: Vec<u8> = vec![];
        for o in a.entry_offsets.iter().copied().chain([0u64, 128, 1024, 2048 + 128, 1 << 20, u64::MAX - 7, 1 << 40]) {
            offs.extend_from_slice(&o.to_le_bytes());
        }
        let mut s = SeedFile::new("dat", "four-entries", a.dat.clone()).magic(8);
        s.args = vec![a.dat.clone(), offs, vec![0]];
        s.marks = a.entry_offsets.iter().flat_map(|o| [*o as u32, *o as u32 + 4, *o as u32 + 8, *o as u32 + 20, *o as u32 + 24, *o as u32 + 128]).collect();
        seeds.push(s);
    }
    {
        // a dat file whose stored (uncompressed) blocks have tens of kilobytes of file behind them: a damaged
        // length field is then not stopped by the end of the file within the first reads
        let raw = |n: usize, k: u64| BlockSpec { data: crate::build::mdl::random_bytes(k, n), mode: Mode::Raw };
        let std_entry = sqpack::standard_entry(&[raw(100, 1), raw(16000, 2), raw(16000, 3), raw(16000, 4)], 0, &[]);
        let tex_header = {
            let mut w = W::new();
            w.u32(0x0080_0000).u32(0x1450).u16(64).u16(64).u16(1).u16(1).u32(0).u32(1).u32(2);
            w.pad_to(80);
            w.b
        };
        let tex_entry = sqpack::texture_entry(&tex_header, &[vec![raw(8192, 5), raw(8192, 6)]], 0);
        let tail = sqpack::standard_entry(&[raw(16000, 7), raw(16000, 8), raw(16000, 9)], 0, &[]);
        let align = |n: usize| (n + 127) / 128 * 128;
        let o1 = 2048u64;
        let o2 = o1 + align(std_entry.len()) as u64;
        let o3 = o2 + align(tex_entry.len()) as u64;
        let dat = sqpack::dat_file(0, -1, &[(o1, std_entry), (o2, tex_entry), (o3, tail)], 0);
        let mut offs: Vec<u8> = vec![];
        for o in [o1, o2, o3] {
            offs.extend_from_slice(&o.to_le_bytes());
        }
        // block headers: standard entry header is 128 bytes, blocks of 128 / 16128 bytes; texture entry header 128 bytes + 80-byte texture header
        let mut marks = vec![];
        for b in [o1 + 128, o1 + 256, o1 + 256 + 16128, o2 + 128 + 80, o3 + 128] {
            marks.extend_from_slice(&[b as u32, b as u32 + 8, b as u32 + 12]);
        }
        let mut s = SeedFile::new("dat", "long-raw-blocks", dat.clone()).magic(8);
        s.args = vec![dat, offs, vec![0]];
        s.marks = marks;
        seeds.push(s);
    }
    {
        // entries whose tables are physically there and promise far more than the file holds: a standard entry with
        // 4 000 block descriptors of 65 535 bytes each and a texture entry with 13 mips of 256 MiB each, without the data
        let mut std_entry = W::new();
        let n = 4000u32;
        let hsize = ((24 + 8 * n as usize + 127) / 128 * 128) as u32;
        std_entry.u32(hsize).i32(2).u32(n * 65535).u32(n * 512).u32(n * 512).u32(n);
        for i in 0..n {
            std_entry.u32(i * 65664).u16(0xFFFF).u16(0xFFFF);
        }
        std_entry.pad_to(hsize as usize);
        let mut tex_entry = W::new();
        let mips = 13u32;
        let nblocks = 13u32 * 16;
        let thsize = ((24 + 20 * mips as usize + 2 * nblocks as usize + 127) / 128 * 128) as u32;
        tex_entry.u32(thsize).i32(4).u32(mips << 28).u32(0).u32(0).u32(mips);
        for i in 0..mips {
            tex_entry.u32(80 + i * (1 << 20)).u32(1 << 20).u32(1 << 28).u32(i * 16).u32(16);
        }
        for _ in 0..nblocks {
            tex_entry.i16(0x7F80);
        }
        tex_entry.pad_to(thsize as usize);
        tex_entry.fill(80, 0x11);
        let o1 = 2048u64;
        let o2 = o1 + std_entry.len() as u64;
        let dat = sqpack::dat_file(0, -1, &[(o1, std_entry.b), (o2, tex_entry.b)], 0);
        let mut offs: Vec<u8> = vec![];
        for o in [o1, o2] {
            offs.extend_from_slice(&o.to_le_bytes());
        }
        let mut s = SeedFile::new("dat", "tables-without-data", dat.clone()).magic(8);
        s.args = vec![dat, offs, vec![0]];
        s.marks = vec![o1 as u32, o1 as u32 + 8, o1 as u32 + 20, o1 as u32 + 24, o2 as u32, o2 as u32 + 8, o2 as u32 + 20, o2 as u32 + 24];
        seeds.push(s);
    }
    Registry::new(seeds)
}

pub fn registry() -> &'static Registry {
    static R: OnceLock<Registry> = OnceLock::new();
    R.get_or_init(build_registry)
}

fn prop(c: &RCase, ctx: &Ctx) -> PResult {
    run(registry(), c, ctx)
}

fn truncations(ctx: &Ctx) -> Vec<RCase> {
    truncation_cases(registry(), ctx.tier.pick(3072, 40_000))
}

fn fields(ctx: &Ctx) -> Vec<RCase> {
    field_cases(registry(), ctx.tier.pick(640, 6000), ctx.tier.pick(2, 99))
}

fn seeds_as_they_are(_: &Ctx) -> Vec<RCase> {
    seed_cases(registry())
}

fn mutants(_: &Ctx) -> BoxedStrategy<RCase> {
    mutant_strategy(registry())
}

/// Texture headers generated from the grammar rather than by corrupting a valid file: every format (and unknown
/// ones), each dimension independently from a set of boundary values or free, any attribute, and a payload that is
/// absent, short, or as long as a small image needs. Sizes are products of three header fields; only a header in
/// which several of them are off at once reaches the arithmetic behind the "is the data there" checks.
fn tex_headers(_: &Ctx) -> BoxedStrategy<RCase> {
    let dim = || prop_oneof![4 => prop::sample::select(vec![0u16, 1, 2, 3, 4, 5, 7, 8, 16, 255, 256, 1024, 2048, 4096, 32767, 32768, 65535]), 1 => any::<u16>()];
    let format = prop_oneof![6 => prop::sample::select(vec![0x1440u32, 0x1450, 0x3420, 0x3431, 0x6230]), 1 => any::<u32>()];
    let attribute = prop_oneof![2 => Just(0x0080_0000u32), 2 => Just(0x0100_0000u32), 1 => any::<u32>()];
    let payload = prop_oneof![2 => Just(0usize), 2 => 1usize..64, 2 => 64usize..4096, 1 => 4096usize..70000];
    (format, dim(), dim(), dim(), attribute, 0u16..16, payload, any::<u64>())
        .prop_map(|(format, width, height, depth, attribute, mips, payload, seed)| {
            let c = crate::props::c13::Case { format, width, height, depth, attribute, mips, seed, trailing: 0, tie_bias: 0 };
            let mut file = crate::props::c13::header(&c);
            file.extend_from_slice(&crate::build::mdl::random_bytes(seed, payload));
            let mut r = RCase::explicit("tex", "tex-header", vec![file]);
            r.note = format!("tex-header: format {:#x}, {}x{}x{}, attribute {:#x}, {} payload bytes", format, width, height, depth, attribute, payload);
            r
        })
        .boxed()
}

/// Well-formed assets at the upper end of the quantifier's size (about 1 MiB) made of as many small records as fit:
/// work that grows faster than the input crosses the CPU or memory budget here.
fn scale(_: &Ctx) -> Vec<RCase> {
    scale_at(1)
}

fn growth(_: &Ctx) -> Vec<GrowthCase> {
    growth_cases(scale_at(1), scale_at(2))
}

fn prop_growth(c: &GrowthCase, ctx: &Ctx) -> PResult {
    run_growth(registry(), c, ctx)
}

/// `div` = 1: full size, 2: every count halved
fn scale_at(div: usize) -> Vec<RCase> {
    use crate::build::excel::{encode_exd, encode_exh, Cell, Column, Row, Schema, SubRow};
    let mut v = vec![];
    let mut push = |entry: &str, what: &str, args: Vec<Vec<u8>>| {
        let mut c = RCase::explicit(entry, "scale", args);
        c.note = format!("scale: {}", what);
        v.push(c);
    };
    // index and index2 with 60 000 entries, queried with stored and absent paths
    {
        let recs: Vec<IndexRecord> = (0..(60_000 / div) as u64).map(|i| IndexRecord { path: format!("exd/d{}/f{}.bin", i % 97, i), dat_id: (i % 8) as u8, offset: 2048 + 128 * i, synonym: false }).collect();
        let q: Vec<u8> = (0..200u64).map(|i| if i % 2 == 0 { format!("exd/d{}/f{}.bin", (i * 293) % 97, i * 293) } else { format!("exd/none/g{}.bin", i) }).collect::<Vec<_>>().join("\n").into_bytes();
        push("index", "index with 60 000 entries", vec![sqpack::index_file(0, -1, false, &recs, 8, true), q.clone(), vec![0]]);
        push("index", "unsorted index2 with 60 000 entries", vec![sqpack::index_file(0, -1, true, &recs, 8, false), q, vec![0]]);
    }
    // sheet page with 50 000 rows; header with 60 000 columns
    {
        let s = Schema { version: 3, data_offset: 4, columns: vec![Column { ty: 7, offset: 0 }], pages: vec![(0, (50_000 / div) as u32)], languages: vec![0], row_count: (50_000 / div) as u32 };
        let rows: Vec<Row> = (0..(50_000 / div) as u32).map(|i| Row { id: i * 3, subrows: vec![SubRow { id: 0, cells: vec![Cell::U32(i)] }], junk: i as u64 }).collect();
        let order: Vec<usize> = (0..rows.len()).collect();
        push("exd", "page with 50 000 rows", vec![encode_exh(&s), encode_exd(&s, &rows, &order, 2)]);
        let wide = Schema { version: 3, data_offset: 8, columns: (0..60_000 / div).map(|i| Column { ty: 11 + (i % 8) as u8, offset: (i % 8) as u16 }).collect(), pages: vec![(0, 3)], languages: vec![0], row_count: 3 };
        let rows: Vec<Row> = (0..3u32).map(|i| Row { id: i, subrows: vec![SubRow { id: 0, cells: (0..60_000 / div).map(|k| Cell::Bool((k + i as usize) % 3 == 0)).collect() }], junk: 5 }).collect();
        push("exd", "header with 60 000 packed-bool columns", vec![encode_exh(&wide), encode_exd(&wide, &rows, &[0, 1, 2], 2)]);
        push("exh", "header with 60 000 columns", vec![encode_exh(&wide)]);
    }
    // SqPack database whose path fields carry no terminator (240 bytes of text each), and one with terminated paths
    {
        let n = 4000 / div;
        for variant in 0..3 {
            let mut w = W::new();
            w.bytes(&sqpack::sqpack_header(0, 0, -1));
            w.u32(1024).u32(n as u32).zeros(1016);
            for i in 0..n as u32 {
                if variant == 2 {
                    // damaged as a whole: not a single zero byte in the entry region
                    w.fill(24, 0x11);
                } else {
                    w.zeros(4).u32(128 * i).u32(100 + i).zeros(4).u32(0xAABB_0000 + i).u32(0xCCDD_0000 + i);
                }
                let mut p = format!("exd/sheet{}.exh", i).into_bytes();
                p.resize(240, if variant == 0 { 0 } else { b'a' });
                w.bytes(&p);
            }
            w.zeros(64);
            push("sqdb", ["4 000 entries", "4 000 entries whose path fields are full (no terminator inside the field)", "4 000 entries without a single zero byte in the entry region"][variant], vec![w.b]);
        }
    }
    // deformer with one bone whose name is a megabyte long, and one whose name has lost its terminator
    {
        let len = (1usize << 20) / div;
        for terminated in [true, false] {
            let mut w = W::new();
            // one item, one link, then the deformer: bone count, name offset, padding, 12 floats, the name
            w.i32(1);
            w.u16(101).i16(0).i32(4 + 12 + 8).zeros(4);
            w.i16(-1).i16(-1).i16(-1).u16(0);
            w.i32(1).u16(4 + 2 + 2 + 48).u16(0);
            for k in 0..12 {
                w.f32(k as f32);
            }
            w.fill(len, b'n');
            if terminated {
                w.u8(0);
            }
            push("pbd", if terminated { "one bone name of 1 MiB" } else { "one bone name of 1 MiB without terminator" }, vec![w.b]);
        }
    }
    // terrain with 200 000 plates
    push("tera", "200 000 plates", vec![crate::props::c16::seed_tera(&(0..(200_000 / div) as i32).map(|i| ((i % 400 - 200) as i16, (i / 400 - 250) as i16)).collect::<Vec<_>>())]);
    // effect file of 80 000 minimal blocks
    {
        let mut w = W::new();
        w.bytes(b"XFVA").u32(0);
        for i in 0..(80_000 / div) as u32 {
            w.bytes([&b"xPBC"[..], &b"yPBC"[..], &b"zSBC"[..], &b"RvR\0"[..]][i as usize % 4]).u32(4).f32(i as f32 * 0.5);
        }
        let n = w.len() as u32;
        w.set_u32(4, n);
        push("avfx", "80 000 value blocks", vec![w.b]);
    }
    // model with 1 500 meshes and 120 shapes; shader package with 12 000 nodes
    {
        let ctx = Ctx::new("C18", Tier::Quick, 0, true);
        let mut spec = None;
        for k in 0..50u64 {
            let c = draw_fixed(&crate::props::c06::case_strategy(4), 0x5CA1E + k);
            if !c.v6 && c.lods.len() == 1 {
                spec = Some(crate::props::c06::realise(&c, &crate::build::mdl::READ_PAIRS, false));
                break;
            }
        }
        if let Some(mut m) = spec {
            let proto = m.lods[0][0].clone();
            m.lods[0] = vec![proto; 1500 / div];
            m.shapes = (0..120).map(|i| crate::build::mdl::ShapeSpec { name: format!("shp{}", i), lods: [vec![((i * 7 % (1500 / div)) as u16, vec![(0, 0)])], vec![], vec![]] }).collect();
            m.section_order = vec![];
            push("mdl", "1 500 meshes and 120 shapes", vec![crate::build::mdl::encode(&m).bytes]);
        }
        for k in 0..50u64 {
            let mut s = draw_fixed(&crate::props::c14::shpk_strategy_pub(&ctx), 0x5CA1E + k);
            if s.nodes.is_empty() {
                continue;
            }
            let proto = s.nodes[0].clone();
            s.nodes = (0..(12_000 / div) as u32).map(|i| crate::build::material::NodeSpec { selector: 0x1000_0000 + i, ..proto.clone() }).collect();
            s.aliases = (0..(2_000 / div) as u32).map(|i| (0x2000_0000 + i, (i * 5) % (12_000 / div) as u32)).collect();
            let sels: Vec<u8> = (0..256u32).flat_map(|i| (0x1000_0000 + i * 46).to_le_bytes()).chain((0..64u32).flat_map(|i| (0x2000_0000 + i * 31).to_le_bytes())).collect();
            push("shpk", "12 000 nodes and 2 000 aliases", vec![crate::build::material::encode_shpk(&s), sels]);
            break;
        }
    }
    v
}

fn blobs(ctx: &Ctx) -> BoxedStrategy<RCase> {
    blob_strategy(registry(), ctx.tier.pick(64 << 10, 1 << 20))
}

// ------------------------------------------------------------------------------------------------
// archive fault sequences
// ------------------------------------------------------------------------------------------------

fn gd_case(note: &str, before: String, after: String) -> RCase {
    let a = archive();
    RCase::explicit("gamedata", note, vec![pack_files(&a.tree), a.queries.join("\n").into_bytes(), before.into_bytes(), after.into_bytes(), vec![0]])
}

const IDX: &str = "game/sqpack/ffxiv/0a0000.win32.index";
const IDX2: &str = "game/sqpack/ffxiv/0a0000.win32.index2";
const DAT: &str = "game/sqpack/ffxiv/0a0000.win32.dat0";

/// structure boundaries of the archive's files
fn index_marks() -> Vec<u64> {
    vec![0, 8, 12, 16, 24, 32, 960, 1023, 1024, 1028, 1032, 1036, 1040, 1100, 1104, 1108, 1176, 1248, 1320, 1321, 2047, 2048, 2052, 2056, 2060, 2064, 2080, 2096, 2111, 2112, 2368]
}

fn dat_marks() -> Vec<u64> {
    let a = archive();
    let mut v = vec![0u64, 1024, 2047];
    for o in &a.entry_offsets {
        for d in [0u64, 4, 8, 12, 16, 20, 24, 28, 32, 36, 40, 64, 127, 128, 132, 136, 140, 144, 160, 200, 256, 300] {
            v.push(o + d);
        }
    }
    v
}

fn archive_faults(ctx: &Ctx) -> Vec<RCase> {
    let a = archive();
    let mut v = vec![];
    v.push(gd_case("archive:intact", String::new(), String::new()));
    // missing / wrong-kind installation directories
    v.push(RCase::explicit("gamedata", "archive:game-directory-missing", vec![vec![], a.queries.join("\n").into_bytes(), vec![], vec![], vec![1]]));
    v.push(RCase::explicit("gamedata", "archive:game-directory-is-a-file", vec![vec![], a.queries.join("\n").into_bytes(), vec![], vec![], vec![2]]));
    for (file, marks, name) in [(IDX, index_marks(), "index"), (IDX2, index_marks(), "index2"), (DAT, dat_marks(), "dat")] {
        let len = a.tree.iter().find(|(p, _)| p == file).map(|(_, b)| b.len() as u64).unwrap_or(0);
        // truncation at every structure boundary (+-1), before opening and between open and read
        let mut cuts: Vec<u64> = marks.iter().flat_map(|m| [m.saturating_sub(1), *m, m + 1]).filter(|c| *c < len).collect();
        cuts.sort();
        cuts.dedup();
        for c in &cuts {
            v.push(gd_case(&format!("archive:{}-truncated-before-open", name), format!("T {} {}", file, c), String::new()));
            v.push(gd_case(&format!("archive:{}-truncated-between-open-and-read", name), String::new(), format!("T {} {}", file, c)));
        }
        // every header field corrupted with the quantifier's values
        let step = if ctx.quick() { 1 } else { 1 };
        let _ = step;
        for m in &marks {
            if *m + 4 > len {
                continue;
            }
            for val in ["00000000", "01000000", "ffffff7f", "00000080", "ffffffff", "00010000", "ff", "80"] {
                v.push(gd_case(&format!("archive:{}-field-corrupted-before-open", name), format!("S {} {} {}", file, m, val), String::new()));
                if name == "dat" {
                    v.push(gd_case(&format!("archive:{}-field-corrupted-between-open-and-read", name), String::new(), format!("S {} {} {}", file, m, val)));
                }
            }
        }
        v.push(gd_case(&format!("archive:{}-removed-before-open", name), format!("R {}", file), String::new()));
        v.push(gd_case(&format!("archive:{}-removed-between-open-and-read", name), String::new(), format!("R {}", file)));
        v.push(gd_case(&format!("archive:{}-is-a-directory", name), format!("R {}\nD {}", file, file), String::new()));
        v.push(gd_case(&format!("archive:{}-empty", name), format!("T {} 0", file), String::new()));
    }
    // stray files and oddly named directories under sqpack/
    for (note, recipe) in [
        ("one-character-directory", "D game/sqpack/e".to_string()),
        ("two-character-directory", "D game/sqpack/ex".to_string()),
        ("non-numeric-expansion", "D game/sqpack/exabc\nD game/sqpack/ex-1\nD game/sqpack/ex99999999999999999999".to_string()),
        ("unrelated-directories", "D game/sqpack/backup\nD game/sqpack/.hidden\nD game/sqpack/ffxiv2".to_string()),
        ("non-utf8-directory", format!("d {}", util::hex(b"game/sqpack/ex\xff\xfe"))),
        ("non-utf8-file", format!("d {}", util::hex(b"game/sqpack/ffxiv/\xc3\x28.win32.index"))),
        ("stray-files", "W game/sqpack/readme.txt 00\nW game/sqpack/ffxiv/x 00\nW game/sqpack/ffxiv/0a0000.win32.index3 00\nW game/sqpack/ffxiv/zz0000.win32.index 00".to_string()),
        ("expansion-without-version-file", "R game/sqpack/ex1/ex1.ver".to_string()),
        ("expansion-version-not-utf8", "W game/sqpack/ex1/ex1.ver fffe00c3".to_string()),
        ("base-version-file-missing", "R game/ffxivgame.ver".to_string()),
        ("base-version-file-is-directory", "R game/ffxivgame.ver\nD game/ffxivgame.ver".to_string()),
        ("sqpack-directory-missing", "X game/sqpack".to_string()),
        ("sqpack-is-a-file", "X game/sqpack\nW game/sqpack 00".to_string()),
        ("base-repository-missing", "X game/sqpack/ffxiv".to_string()),
        ("expansion-removed-between-open-and-read", String::new()),
    ] {
        if note == "expansion-removed-between-open-and-read" {
            v.push(gd_case(&format!("archive:{}", note), String::new(), "X game/sqpack/ex1".into()));
        } else {
            v.push(gd_case(&format!("archive:{}", note), recipe, String::new()));
        }
    }
    // directory names in valid UTF-8 whose characters are longer than one byte, so that a fixed byte position (the
    // digit behind "ex") falls inside a character
    for name in ["ex\u{e9}", "\u{65e5}\u{672c}\u{8a9e}", "ex\u{663}", "a\u{e9}1", "\u{e9}", "\u{e9}\u{e9}\u{e9}", "ex1\u{e9}", "e\u{1F600}", "\u{1F600}1"] {
        v.push(gd_case("archive:multi-byte-directory-name", format!("d {}", util::hex(format!("game/sqpack/{}", name).as_bytes())), String::new()));
    }
    // direct index / dat entry points: missing path, directory
    let q = a.queries.join("\n").into_bytes();
    v.push(RCase::explicit("index", "archive:index-path-missing", vec![vec![], q.clone(), vec![1]]));
    v.push(RCase::explicit("index", "archive:index-path-is-directory", vec![vec![], q.clone(), vec![2]]));
    v.push(RCase::explicit("dat", "archive:dat-path-missing", vec![vec![], 2048u64.to_le_bytes().to_vec(), vec![1]]));
    v.push(RCase::explicit("dat", "archive:dat-path-is-directory", vec![vec![], 2048u64.to_le_bytes().to_vec(), vec![2]]));
    v
}

/// random corruptions of the installation's files, before opening or between open and read
fn archive_random(_: &Ctx) -> BoxedStrategy<RCase> {
    let a = archive();
    let files: Vec<(String, usize)> = a.tree.iter().filter(|(p, _)| p.contains("win32")).map(|(p, b)| (p.clone(), b.len())).collect();
    let one = (any::<u16>(), any::<u16>(), prop_oneof![3 => vec(any::<u8>(), 1..=8), 1 => prop::sample::select(vec![vec![0u8; 4], vec![0xFF; 4], vec![0xFF, 0xFF, 0xFF, 0x7F], vec![0, 0, 0, 0x80], vec![1, 0, 0, 0]])], any::<bool>(), any::<bool>());
    vec(one, 1..=3)
        .prop_map(move |ops| {
            let mut before = vec![];
            let mut after = vec![];
            for (fi, frac, bytes, truncate, late) in ops {
                let (p, len) = &files[util::pick_idx(fi, files.len())];
                // concentrate on the structured part of each file (headers, tables, entry headers)
                let span = (*len).min(4096 + 2048);
                let at = util::pick_idx(frac, span);
                let line = if truncate { format!("T {} {}", p, at) } else { format!("S {} {} {}", p, at, util::hex(&bytes)) };
                if late {
                    after.push(line);
                } else {
                    before.push(line);
                }
            }
            gd_case("archive:random-corruption", before.join("\n"), after.join("\n"))
        })
        .boxed()
}

// ------------------------------------------------------------------------------------------------
// cyclic links, leak probes
// ------------------------------------------------------------------------------------------------

fn cyclic_links(_: &Ctx) -> Vec<RCase> {
    let reg = registry();
    let mut v = vec![];
    // deformer: every link field (parent, first child, next sibling, item index) of every link set to every node index
    for s in reg.seeds.iter().filter(|s| s.entry == "pbd") {
        let b = s.bytes();
        let n = i32::from_le_bytes([b[0], b[1], b[2], b[3]]).max(0) as usize;
        let links_at = 4 + 12 * n;
        for link in 0..n {
            for field in 0..4usize {
                for target in 0..n.min(12) {
                    let mut m = b.to_vec();
                    let at = links_at + 8 * link + 2 * field;
                    if at + 2 > m.len() {
                        continue;
                    }
                    m[at..at + 2].copy_from_slice(&(target as u16).to_le_bytes());
                    let mut c = RCase::explicit("pbd", "cycle:deformer-link", vec![m]);
                    c.seed = s.name.clone();
                    v.push(c);
                }
            }
        }
        // link index of every item pointing at every link
        for item in 0..n {
            for target in 0..n.min(12) {
                let mut m = b.to_vec();
                let at = 4 + 12 * item + 2;
                m[at..at + 2].copy_from_slice(&(target as u16).to_le_bytes());
                let mut c = RCase::explicit("pbd", "cycle:deformer-item-link", vec![m]);
                c.seed = s.name.clone();
                v.push(c);
            }
        }
    }
    // dictionary: inner nodes and entry child/sibling fields pointing back at earlier entries
    if let Some(s) = reg.get("dic", "words") {
        let b = s.bytes();
        let inner_at = 0x8B50 + 0x400;
        let entries_at = inner_at + 32 + 16 + 16;
        for slot in 0..16usize {
            for target in 0..4u16 {
                let mut m = b.to_vec();
                m[inner_at + 2 * slot..inner_at + 2 * slot + 2].copy_from_slice(&target.to_le_bytes());
                v.push(RCase::explicit("dic", "cycle:dictionary-inner-node", vec![m]));
            }
        }
        for e in 0..4usize {
            for field in 0..4usize {
                for val in [0u32, 1, 2, 3, 4, 5, 16, 0xFFFF, 0x7FFF_FFFF, 0xFFFF_FFFF] {
                    let mut m = b.to_vec();
                    let at = entries_at + 16 * e + 4 * field;
                    m[at..at + 4].copy_from_slice(&val.to_le_bytes());
                    v.push(RCase::explicit("dic", "cycle:dictionary-entry-field", vec![m]));
                }
            }
        }
        // a self-referential chain: entry 2's child slot leads back to entry 2
        let mut m = b.to_vec();
        m[inner_at + 8..inner_at + 10].copy_from_slice(&2u16.to_le_bytes());
        v.push(RCase::explicit("dic", "cycle:dictionary-self-loop", vec![m]));
    }
    // no cycle at all, but a chain as long as a file below 1 MiB (and the 16-bit node numbers) can describe
    for n in [1_000usize, 20_000, 52_000] {
        v.push(RCase::explicit("dic", "cycle:dictionary-deep-chain", vec![dic_chain(n)]));
    }
    // skeleton: parent indices are data only, but object references inside the tag file can be cyclic: covered by
    // the field sweeps over the packed integers of the object section
    v
}

/// failed decompression must not leak: damaged deflate streams and wrong declared sizes, repeated
fn leak_probes(_: &Ctx) -> Vec<RCase> {
    let a = archive();
    let mut v = vec![];
    let o = a.entry_offsets[0];
    // the standard entry's first block: entry header (128) then block header (16) then the stream
    let mut offs: Vec<u8> = vec![];
    offs.extend_from_slice(&o.to_le_bytes());
    for i in 0..64u64 {
        let mut d = a.dat.clone();
        let at = (o + 128 + 16 + i) as usize;
        d[at] ^= 0xA5;
        let mut c = RCase::explicit("dat", "leak:damaged-deflate-stream", vec![d, offs.clone(), vec![0]]);
        c.reps = 120;
        v.push(c);
    }
    for (field, delta) in [(12u64, 1i32), (12, -1), (12, 4000), (8, 1), (8, -1), (8, -20)] {
        let mut d = a.dat.clone();
        let at = (o + 128 + field) as usize;
        let x = i32::from_le_bytes([d[at], d[at + 1], d[at + 2], d[at + 3]]) + delta;
        d[at..at + 4].copy_from_slice(&x.to_le_bytes());
        let mut c = RCase::explicit("dat", "leak:wrong-declared-size", vec![d, offs.clone(), vec![0]]);
        c.reps = 120;
        v.push(c);
    }
    // every single-field corruption of the first block's 16-byte header of each entry kind, repeated
    for (k, name) in [(0usize, "standard"), (1, "texture"), (2, "model")] {
        let o = a.entry_offsets[k] as usize;
        let hdr = u32::from_le_bytes([a.dat[o], a.dat[o + 1], a.dat[o + 2], a.dat[o + 3]]) as usize;
        let first_block = if k == 1 { o + hdr + 80 } else { o + hdr };
        let mut offs: Vec<u8> = vec![];
        offs.extend_from_slice(&(o as u64).to_le_bytes());
        v.extend(header_leak_cases("dat", &format!("leak:block-header-field-in-{}-entry", name), &[a.dat.clone(), offs, vec![0]], 0, first_block, 16, 120));
    }
    // texture and model entries with a damaged block
    for (k, name) in [(1usize, "texture"), (2usize, "model")] {
        let o = a.entry_offsets[k];
        let mut offs: Vec<u8> = vec![];
        offs.extend_from_slice(&o.to_le_bytes());
        for i in [0u64, 3, 9, 17] {
            let mut d = a.dat.clone();
            let hdr = u32::from_le_bytes([d[o as usize], d[o as usize + 1], d[o as usize + 2], d[o as usize + 3]]) as u64;
            let first_block = if k == 1 { o + hdr + 80 } else { o + hdr };
            let at = (first_block + 16 + i) as usize;
            d[at] ^= 0xA5;
            let mut c = RCase::explicit("dat", &format!("leak:damaged-deflate-stream-in-{}-entry", name), vec![d, offs.clone(), vec![0]]);
            c.reps = 120;
            v.push(c);
        }
    }
    let mut c = RCase::explicit("dat", "leak:control-valid-entry", vec![a.dat.clone(), offs, vec![0]]);
    c.reps = 120;
    v.push(c);
    // through the whole installation: extract with a damaged stream
    let mut c = gd_case("leak:extract-damaged-stream", format!("S {} {} {}", DAT, o + 128 + 16 + 5, "a5a5"), String::new());
    c.reps = 120;
    v.push(c);
    let mut c = gd_case("leak:control-intact-installation", String::new(), String::new());
    c.reps = 120;
    v.push(c);
    v
}

fn post(_: &Ctx) {
    dump_harvest("C18");
}

pub fn property() -> Property {
    Property {
        id: "C18",
        rule: "cases = (entry point, valid seed asset or archive, corruption) executed in an isolated worker process. Entry points: from_existing of model, material, shader package (+find_node for every listed and some absent selectors), texture, EXH, EXD (+read_row for every indexed id, page ids and absent ids; header and page corrupted separately), skeleton, deformer (+get_deform_matrices for all ordered pairs of body ids), scaling table, terrain, staining template, dictionary, layer group (empty, fixture, and one with instance objects), effect, uld/sgb/scd/hwc/iwc/tmb/skp/schd/phyb/pap headers, SqPack database; SqPackIndex::from_existing+exists/find_entry, SqPackData::read_from_offset at entry and stray offsets, GameData::from_existing/exists/find_offset/extract on a synthetic installation. Seeds: output of the C05/C06/C13/C14/C16 generators for fixed internal seeds, the repository's sample model and layer group, hand-built files for the remaining formats, an installation with standard/texture/model entries, index and index2, and an expansion, a dat file whose stored blocks have tens of kilobytes of file behind them, a dat file whose entries' tables promise gigabytes without the data. Corruptions: every truncation point; every offset x width {1,2,4,8} x value {0, 1, 0x7F.., 0x80.., 0xFF.., +1, -1} x byte order; random mutation compositions; random blobs behind intact magic; well-formed assets of about 1 MiB made of as many small records as fit (index / index2 with 60 000 entries, a sheet page with 50 000 rows, a header with 60 000 columns, a terrain with 200 000 plates, an effect file of 80 000 blocks, a model with 1 500 meshes and 120 shapes, a shader package with 12 000 nodes, a SqPack database of 4 000 entries with and without terminators in the path fields, a deformer with one bone name of 1 MiB) against the CPU and memory budgets, and each against itself at half size (at least 1 s of CPU and more than 3.2 times the half-size time = work growing faster than the input); texture headers generated from the grammar (every format, each dimension from boundary values or free, any attribute, payload absent / short / present); shader packages queried with the selectors of the intact package's nodes and aliases (every package has an alias of its last node); cyclic links (every deformer link / item link to every node, dictionary inner nodes and entry fields); archive fault sequences before opening and between open and read (truncation at every structure boundary +-1, every header field corrupted, files removed / replaced by directories / emptied, stray and oddly named files and directories incl. non-UTF-8 names and names made of multi-byte characters, missing version files, expansion removed while open); leak probes (damaged deflate streams and wrong declared sizes in standard, texture and model entries, 120 repetitions each, growth measured over the last 90). Oracle: worker outcome must be value or ordinary failure -- no panic, abort, stack overflow, more than 10 s CPU, live heap above max(64 MiB, 256 x input), or per-call heap growth. Non-trivial: input differs from the seed, is non-empty and keeps the seed's magic; distinct by hash of (entry, arguments).",
        assumptions: &["files a case writes are capped at 16 MiB by RLIMIT_FSIZE", "wall-clock time is not judged; the CPU budget is 10 s per case", "stack overflow is observed on the worker's 8 MiB main-thread stack"],
        pre: None,
        parts: vec![
            Box::new(Part { name: "seeds", driver: Driver::Enum(seeds_as_they_are), prop, exhaustive: true }),
            Box::new(Part { name: "archive-faults", driver: Driver::Enum(archive_faults), prop, exhaustive: true }),
            Box::new(Part { name: "cyclic-links", driver: Driver::Enum(cyclic_links), prop, exhaustive: true }),
            Box::new(Part { name: "leak-probes", driver: Driver::Enum(leak_probes), prop, exhaustive: false }),
            Box::new(Part { name: "truncations", driver: Driver::Enum(truncations), prop, exhaustive: true }),
            Box::new(Part { name: "fields", driver: Driver::Enum(fields), prop, exhaustive: true }),
            Box::new(Part { name: "scale", driver: Driver::Enum(scale), prop, exhaustive: true }),
            Box::new(Part { name: "scale-growth", driver: Driver::Enum(growth), prop: prop_growth, exhaustive: true }),
            Box::new(Part { name: "tex-headers", driver: Driver::Gen(tex_headers, 20_000, 600_000), prop, exhaustive: false }),
            Box::new(Part { name: "archive-random", driver: Driver::Gen(archive_random, 3_000, 150_000), prop, exhaustive: false }),
            Box::new(Part { name: "random-mutants", driver: Driver::Gen(mutants, 60_000, 4_000_000), prop, exhaustive: false }),
            Box::new(Part { name: "random-blobs", driver: Driver::Gen(blobs, 4_000, 200_000), prop, exhaustive: false }),
        ],
        post: Some(post),
    }
}

#[allow(dead_code)]
fn unused(_: Mut, _: Pos) {
    let _ = mutate::KINDS;
}

//! C15 — game paths, race codes and repository file names are well-formed and unambiguous (exhaustive).
use crate::build::sqpack::{self, CATEGORIES, PLATFORMS};
use crate::build::zipatch as zp;
use crate::engine::panics::guard;
use crate::engine::tmp::TmpDir;
use crate::engine::*;
use crate::{ensure, ensure_eq};
use physis::equipment::{self, CharacterCategory, Slot};
use physis::race::{self, Gender, Race, Tribe};
use physis::repository::{Category, Repository, RepositoryType};
use serde::{Deserialize, Serialize};
use serde_json::json;
use std::collections::{BTreeSet, HashMap};

#[derive(Clone, Debug, Serialize, Deserialize)]
pub enum Job {
    RaceCodes,
    /// equipment paths for one slot index, ids lo..hi
    Equipment { slot: u8, lo: u32, hi: u32 },
    Character { category: u8 },
    Skeleton,
    /// permutations of all subsets (size <= max_size) of the universe, restricted to subsets whose smallest
    /// member index is `first` (to split the work)
    RepoOrder { universe: Vec<u8>, max_size: u8, first: u8 },
    RepoDiscovery { exps: Vec<u8>, order: Vec<u8> },
    /// file names for one (platform, expansion)
    FileNames { platform: u8, exp: u8 },
}

const RACES: [Race; 8] = [Race::Hyur, Race::Elezen, Race::Lalafell, Race::Miqote, Race::Roegadyn, Race::AuRa, Race::Hrothgar, Race::Viera];
const TRIBES: [Tribe; 16] = [
    Tribe::Midlander,
    Tribe::Highlander,
    Tribe::Wildwood,
    Tribe::Duskwight,
    Tribe::Plainsfolk,
    Tribe::Dunesfolk,
    Tribe::Seeker,
    Tribe::Keeper,
    Tribe::SeaWolf,
    Tribe::Hellsguard,
    Tribe::Raen,
    Tribe::Xaela,
    Tribe::Hellion,
    Tribe::Lost,
    Tribe::Rava,
    Tribe::Veena,
];
const GENDERS: [Gender; 2] = [Gender::Male, Gender::Female];
const SLOTS: [(Slot, &str); 10] = [
    (Slot::Head, "met"),
    (Slot::Hands, "glv"),
    (Slot::Legs, "dwn"),
    (Slot::Feet, "sho"),
    (Slot::Body, "top"),
    (Slot::Earring, "ear"),
    (Slot::Neck, "nek"),
    (Slot::Wrists, "wrs"),
    (Slot::RingLeft, "ril"),
    (Slot::RingRight, "rir"),
];
const CHAR_CATS: [CharacterCategory; 5] = [CharacterCategory::Body, CharacterCategory::Hair, CharacterCategory::Face, CharacterCategory::Tail, CharacterCategory::Ear];

/// The structural oracle: tribe codes are allocated in race order, two per race.
fn tribe_belongs(r: Race, t: Tribe) -> bool {
    let (rc, tc) = (r as u8, t as u8);
    tc == 2 * rc - 1 || tc == 2 * rc
}

/// body type = race x gender, except that Hyur splits by tribe
fn body_type(r: Race, t: Tribe, g: &Gender) -> (u8, u8, u8) {
    (r as u8, if r == Race::Hyur { t as u8 } else { 0 }, g.clone() as u8)
}

fn valid_triples() -> Vec<(Race, Tribe, Gender)> {
    let mut v = vec![];
    for r in RACES {
        for t in TRIBES {
            for g in GENDERS {
                if tribe_belongs(r, t) {
                    v.push((r, t, g));
                }
            }
        }
    }
    v
}

fn race_codes(ctx: &Ctx) -> PResult {
    // partition of the 16 tribes into 8 disjoint pairs
    let mut owner: HashMap<u8, u8> = HashMap::new();
    for r in RACES {
        let ts = guard("get_supported_tribes", || race::get_supported_tribes(r))?;
        let want: BTreeSet<u8> = [2 * (r as u8) - 1, 2 * (r as u8)].into_iter().collect();
        let got: BTreeSet<u8> = ts.iter().map(|t| *t as u8).collect();
        ensure_eq!(got, want, "tribes-of-race", "tribes of {:?} (tribe codes)", r);
        for t in ts {
            if let Some(prev) = owner.insert(t as u8, r as u8) {
                return fail("tribe-shared", format!("tribe {:?} belongs to race codes {} and {}", t, prev, r as u8));
            }
        }
        ctx.eval();
    }
    ensure_eq!(owner.len(), 16, "tribe-unowned", "number of tribes that belong to some race");
    // get_race_id is Some exactly for the race's own tribes; codes are injective over body types
    let mut code_of: HashMap<(u8, u8, u8), i32> = HashMap::new();
    let mut body_of: HashMap<i32, (u8, u8, u8)> = HashMap::new();
    for r in RACES {
        for t in TRIBES {
            for g in GENDERS {
                let id = guard("get_race_id", || race::get_race_id(r, t, g.clone()))?;
                ctx.eval();
                if tribe_belongs(r, t) {
                    let id = match id {
                        Some(i) => i,
                        None => return fail("valid-triple-without-code", format!("get_race_id({:?}, {:?}, {:?}) = None for a tribe of that race", r, t, g)),
                    };
                    let bt = body_type(r, t, &g);
                    if let Some(prev) = code_of.get(&bt) {
                        ensure_eq!(*prev, id, "code-not-a-function-of-body-type", "{:?}/{:?}/{:?}", r, t, g);
                    }
                    code_of.insert(bt, id);
                    if let Some(other) = body_of.get(&id) {
                        if *other != bt {
                            return fail("race-code-shared", format!("race code {} is shared by body types {:?} and {:?} (race, hyur tribe, gender)", id, other, bt));
                        }
                    }
                    body_of.insert(id, bt);
                    ensure!((1..=9999).contains(&id) , "race-code-range", "race code {} does not fit the 4-digit path field", id);
                    ctx.class("triple:valid");
                    if ctx.want_sample() && id % 400 == 101 {
                        ctx.sample(json!({"job": "race-codes", "race": format!("{:?}", r), "tribe": format!("{:?}", t), "gender": format!("{:?}", g), "code": id, "skeleton": guard("build_skeleton_path", || race::build_skeleton_path(r, t, g.clone())).ok()}));
                    }
                    ctx.nontrivial(format!("triple{:?}{:?}{:?}", r, t, g).as_bytes());
                } else {
                    ensure!(id.is_none(), "invalid-triple-has-code", "get_race_id({:?}, {:?}, {:?}) = {:?} although the tribe belongs to another race", r, t, g, id);
                    ctx.class("triple:invalid");
                }
            }
        }
    }
    Ok(())
}

fn equipment_paths(slot: u8, lo: u32, hi: u32, ctx: &Ctx) -> PResult {
    let (slot_v, abbr) = &SLOTS[slot as usize];
    let triples = valid_triples();
    let mut seen: HashMap<String, (i32, u32)> = HashMap::new();
    for id in lo..hi {
        for (r, t, g) in &triples {
            let code = match race::get_race_id(*r, *t, g.clone()) {
                Some(c) => c,
                None => continue, // reported by race_codes
            };
            let p = guard("build_equipment_path", || equipment::build_equipment_path(id as i32, *r, *t, g.clone(), slot_v.clone()))?;
            let want = format!("chara/equipment/e{:04}/model/c{:04}e{:04}_{}.mdl", id, code, id, abbr);
            ensure_eq!(p, want, "equipment-path-form", "equipment path");
            if let Some(prev) = seen.insert(p.clone(), (code, id)) {
                ensure_eq!(prev, (code, id), "equipment-path-collision", "path {} built from different inputs", p);
            }
            // the file name of every body type reads back as (id, slot)
            let fname = &p[p.rfind('/').map(|i| i + 1).unwrap_or(0)..];
            let back = guard("deconstruct_equipment_path", || equipment::deconstruct_equipment_path(fname))?;
            ensure!(matches!(&back, Some((bid, bslot)) if *bid == id as i32 && bslot == slot_v), "deconstruct-differs", "deconstruct_equipment_path({}) = {:?}, built from ({}, {:?}) for {:?}/{:?}/{:?}", fname, back, id, slot_v, r, t, g);
            ctx.eval();
        }
        // read back id and slot from the file name
        let name = format!("c0101e{:04}_{}.mdl", id, abbr);
        let back = guard("deconstruct_equipment_path", || equipment::deconstruct_equipment_path(&name))?;
        match back {
            Some((bid, bslot)) => {
                ensure!(bid == id as i32 && bslot == *slot_v, "deconstruct-differs", "deconstruct_equipment_path({}) = ({}, {:?}), built from ({}, {:?})", name, bid, bslot, id, slot_v);
            }
            None => return fail("deconstruct-none", format!("deconstruct_equipment_path({}) = None", name)),
        }
        // also through the file name of a built path with a 4-digit race code
        let built = guard("build_equipment_path", || equipment::build_equipment_path(id as i32, Race::Viera, Tribe::Veena, Gender::Female, slot_v.clone()))?;
        let fname = built.rsplit('/').next().unwrap().to_string();
        let back = guard("deconstruct_equipment_path", || equipment::deconstruct_equipment_path(&fname))?;
        ensure!(matches!(&back, Some((bid, bslot)) if *bid == id as i32 && bslot == slot_v), "deconstruct-differs", "deconstruct_equipment_path({}) = {:?}", fname, back);
        ctx.eval();
        ctx.nontrivial(name.as_bytes());
    }
    ctx.classf(format!("slot:{}", abbr));
    Ok(())
}

fn character_paths(category: u8, ctx: &Ctx) -> PResult {
    let cat = CHAR_CATS[category as usize];
    let triples = valid_triples();
    let mut seen: HashMap<String, (i32, i32)> = HashMap::new();
    let mut all_paths: BTreeSet<String> = BTreeSet::new();
    for ver in (0..400).chain([999, 1000, 5000, 9999]) {
        for (r, t, g) in &triples {
            let code = match race::get_race_id(*r, *t, g.clone()) {
                Some(c) => c,
                None => continue,
            };
            let p = guard("build_character_path", || equipment::build_character_path(cat, ver, *r, *t, g.clone()))?;
            ensure!(p.starts_with(&format!("chara/human/c{:04}/obj/", code)) && p.ends_with(".mdl") && p.contains(&format!("{:04}", ver)), "character-path-form", "character path {:?} for code {} version {}", p, code, ver);
            if let Some(prev) = seen.insert(p.clone(), (code, ver)) {
                ensure_eq!(prev, (code, ver), "character-path-collision", "path {} built from different inputs", p);
            }
            all_paths.insert(p);
            ctx.eval();
        }
    }
    ctx.classf(format!("character-category:{}", category));
    ctx.nontrivial(format!("charcat{}", category).as_bytes());
    // different categories never collide: checked by the caller through the category-specific folder
    let folder = equipment::get_character_category_path(cat);
    ensure!(all_paths.iter().all(|p| p.contains(&format!("/obj/{}/", folder))), "character-path-form", "category folder");
    Ok(())
}

fn skeleton_paths(ctx: &Ctx) -> PResult {
    let mut seen: HashMap<String, (u8, u8, u8)> = HashMap::new();
    for (r, t, g) in valid_triples() {
        let code = match race::get_race_id(r, t, g.clone()) {
            Some(c) => c,
            None => continue,
        };
        let p = guard("build_skeleton_path", || race::build_skeleton_path(r, t, g.clone()))?;
        ensure_eq!(p, format!("chara/human/c{0:04}/skeleton/base/b0001/skl_c{0:04}b0001.sklb", code), "skeleton-path-form", "skeleton path");
        let bt = body_type(r, t, &g);
        if let Some(prev) = seen.insert(p.clone(), bt) {
            ensure_eq!(prev, bt, "skeleton-path-collision", "skeleton path {} shared by two body types", p);
        }
        ctx.eval();
        ctx.nontrivial(p.as_bytes());
    }
    // five category folders are pairwise distinct
    let folders: BTreeSet<&str> = CHAR_CATS.iter().map(|c| equipment::get_character_category_path(*c)).collect();
    ensure_eq!(folders.len(), 5, "character-category-collision", "distinct category folders");
    let abbrs: BTreeSet<&str> = SLOTS.iter().map(|s| equipment::get_slot_abbreviation(s.0.clone())).collect();
    ensure_eq!(abbrs.len(), 10, "slot-abbreviation-collision", "distinct slot abbreviations");
    Ok(())
}

fn mk_repo(member: u8) -> Repository {
    Repository {
        name: sqpack::repo_name(member),
        platform: physis::common::Platform::Win32,
        repo_type: if member == 0 { RepositoryType::Base } else { RepositoryType::Expansion { number: member as i32 } },
        version: None,
    }
}

fn permutations(items: &[u8], f: &mut dyn FnMut(&[u8]) -> PResult) -> PResult {
    fn rec(cur: &mut Vec<u8>, rest: &mut Vec<u8>, f: &mut dyn FnMut(&[u8]) -> PResult) -> PResult {
        if rest.is_empty() {
            return f(cur);
        }
        for i in 0..rest.len() {
            let x = rest.remove(i);
            cur.push(x);
            rec(cur, rest, f)?;
            cur.pop();
            rest.insert(i, x);
        }
        Ok(())
    }
    rec(&mut vec![], &mut items.to_vec(), f)
}

fn repo_order(universe: &[u8], max_size: u8, first: u8, ctx: &Ctx) -> PResult {
    // subsets whose smallest index is `first`
    let n = universe.len();
    let rest: Vec<usize> = ((first as usize + 1)..n).collect();
    for mask in 0u32..(1 << rest.len()) {
        if mask.count_ones() as u8 + 1 > max_size {
            continue;
        }
        let mut members = vec![universe[first as usize]];
        for (b, idx) in rest.iter().enumerate() {
            if mask & (1 << b) != 0 {
                members.push(universe[*idx]);
            }
        }
        let mut want = members.clone();
        want.sort();
        permutations(&members, &mut |perm| {
            let mut repos: Vec<Repository> = perm.iter().map(|m| mk_repo(*m)).collect();
            guard("sort", || repos.sort())?;
            let got: Vec<u8> = repos.iter().map(|r| if r.name == "ffxiv" { 0 } else { r.name[2..].parse().unwrap() }).collect();
            ensure_eq!(got, want, "repository-order", "sorting {:?}", perm);
            ctx.eval();
            if perm.len() >= 2 {
                ctx.nontrivial(format!("perm{:?}", perm).as_bytes());
            }
            Ok(())
        })?;
    }
    ctx.class("repo-order-batch");
    Ok(())
}

fn repo_discovery(exps: &[u8], order: &[u8], ctx: &Ctx) -> PResult {
    let tmp = TmpDir::new("c15d");
    std::fs::create_dir_all(tmp.join("game/sqpack")).unwrap();
    std::fs::write(tmp.join("game/ffxivgame.ver"), "2012.01.01.0000.0000").unwrap();
    let mut dirs: Vec<u8> = exps.to_vec();
    dirs.push(0);
    // creation order given by `order` keys
    let mut keyed: Vec<(u8, u8)> = dirs.iter().enumerate().map(|(i, d)| (order.get(i).copied().unwrap_or(0), *d)).collect();
    keyed.sort();
    for (_, d) in keyed {
        let p = tmp.join("game/sqpack").join(sqpack::repo_name(d));
        std::fs::create_dir_all(&p).unwrap();
        if d > 0 {
            std::fs::write(p.join(format!("ex{}.ver", d)), "2012.01.01.0000.0000").unwrap();
        }
    }
    let dir = tmp.join("game");
    let g = guard("GameData::from_existing", || physis::gamedata::GameData::from_existing(physis::common::Platform::Win32, dir.to_str().unwrap()))?;
    let g = match g {
        Some(g) => g,
        None => return fail("open-failed", "GameData::from_existing returned None"),
    };
    let got: Vec<String> = g.repositories.iter().map(|r| r.name.clone()).collect();
    let mut want_n: Vec<u8> = exps.to_vec();
    want_n.sort();
    let mut want = vec!["ffxiv".to_string()];
    want.extend(want_n.iter().map(|e| format!("ex{}", e)));
    ensure_eq!(got, want, "discovered-repository-order", "repositories discovered on disk (created in order {:?})", order);
    ctx.class("repo-discovery");
    ctx.nontrivial(format!("disc{:?}{:?}", exps, order).as_bytes());
    Ok(())
}

fn category_enum(id: u8) -> Category {
    use Category::*;
    match id {
        0x00 => Common,
        0x01 => BackgroundCommon,
        0x02 => Background,
        0x03 => Cutscene,
        0x04 => Character,
        0x05 => Shader,
        0x06 => UI,
        0x07 => Sound,
        0x08 => VFX,
        0x09 => UIScript,
        0x0a => EXD,
        0x0b => GameScript,
        0x0c => Music,
        0x12 => SqPackTest,
        _ => Debug,
    }
}

fn file_names(platform: u8, exp: u8, ctx: &Ctx) -> PResult {
    let mut repo = mk_repo(exp);
    repo.platform = sqpack::platform_enum(platform as usize);
    let tag = PLATFORMS[platform as usize];
    // one patch creating, for every (category, chunk): dat0..dat7 via AddData, and the index / index2 via HeaderUpdate
    let mut patch = zp::file_header();
    patch.extend_from_slice(&zp::target_info(platform as u16, -1, false, 0));
    let mut want_files: BTreeSet<String> = BTreeSet::new();
    let block = vec![0x42u8; 128];
    let hdr = vec![0x24u8; 1024];
    // a patch may announce its target more than once: what was written under an earlier announcement keeps that
    // platform's tag, everything after the next one carries the new tag
    {
        let other = (platform as usize + 1 + exp as usize % 4) % 5;
        let mut lead = zp::file_header();
        lead.extend_from_slice(&zp::target_info(other as u16, -1, false, 0));
        lead.extend_from_slice(&zp::add_data(0x13, ((exp as u16) << 8) | 9, 7, 0, &block, 0));
        lead.extend_from_slice(&zp::header_update(true, b'I', 0x13, ((exp as u16) << 8) | 9, 0, &hdr));
        lead.extend_from_slice(&patch[12..]);
        patch = lead;
        want_files.insert(format!("13{:02}09.{}.dat7", exp, PLATFORMS[other]));
        want_files.insert(format!("13{:02}09.{}.index", exp, PLATFORMS[other]));
    }
    for (_, cat) in CATEGORIES {
        for chunk in 0..10u8 {
            let sub = ((exp as u16) << 8) | chunk as u16;
            let idx = guard("index_filename", || repo.index_filename(chunk, category_enum(cat)))?;
            let idx2 = guard("index2_filename", || repo.index2_filename(chunk, category_enum(cat)))?;
            ensure_eq!(idx, format!("{:02x}{:02}{:02}.{}.index", cat, exp, chunk, tag), "index-filename-form", "index file name");
            ensure_eq!(idx2, format!("{:02x}{:02}{:02}.{}.index2", cat, exp, chunk, tag), "index2-filename-form", "index2 file name");
            // which file a header update goes to is decided by its file kind and file id alone; every header
            // kind (version, index, data) of an index file lands in that index file
            for kind in [b'V', b'I', b'D'] {
                patch.extend_from_slice(&zp::header_update(true, kind, cat as u16, sub, 0, &hdr));
                patch.extend_from_slice(&zp::header_update(true, kind, cat as u16, sub, 2, &hdr));
            }
            want_files.insert(idx);
            want_files.insert(idx2);
            for dat in 0..8u32 {
                let name = guard("dat_filename", || repo.dat_filename(chunk, category_enum(cat), dat))?;
                ensure_eq!(name, format!("{:02x}{:02}{:02}.{}.dat{}", cat, exp, chunk, tag, dat), "dat-filename-form", "dat file name");
                patch.extend_from_slice(&zp::add_data(cat as u16, sub, dat, 0, &block, 0));
                patch.extend_from_slice(&zp::header_update(false, [b'V', b'I', b'D'][(dat as usize + chunk as usize) % 3], cat as u16, sub, dat, &hdr));
                want_files.insert(name);
                ctx.eval();
                if exp >= 1 || chunk >= 1 || platform != 0 {
                    ctx.nontrivial(format!("{}-{}-{}-{}-{}", cat, exp, chunk, platform, dat).as_bytes());
                }
            }
        }
    }
    patch.extend_from_slice(&zp::eof());
    let tmp = TmpDir::new("c15f");
    let data = tmp.join("game");
    std::fs::create_dir_all(data.join("sqpack").join(sqpack::repo_name(exp))).unwrap();
    let pp = tmp.join("names.patch");
    std::fs::write(&pp, &patch).unwrap();
    let r = guard("ZiPatch::apply", || physis::patch::ZiPatch::apply(data.to_str().unwrap(), pp.to_str().unwrap()))?;
    if let Err(e) = r {
        return fail("apply-error", format!("patch for platform {} expansion {} returned Err({:?})", tag, exp, e));
    }
    let mut got: BTreeSet<String> = BTreeSet::new();
    let repo_dir = data.join("sqpack").join(sqpack::repo_name(exp));
    for e in std::fs::read_dir(&repo_dir).map_err(|e| Failure { slug: "patch-wrote-elsewhere".into(), msg: format!("{}: {}", repo_dir.display(), e) })? {
        got.insert(e.unwrap().file_name().to_str().unwrap().to_string());
    }
    // nothing may be written outside sqpack/<repo>
    let (all_files, _) = crate::props::c03::walk(&data);
    let prefix = format!("sqpack/{}/", sqpack::repo_name(exp));
    if let Some(stray) = all_files.keys().find(|k| !k.starts_with(&prefix)) {
        return fail("patch-wrote-elsewhere", format!("patching (platform {}, expansion {}) wrote {}", tag, exp, stray));
    }
    if got != want_files {
        let missing: Vec<&String> = want_files.difference(&got).take(3).collect();
        let extra: Vec<&String> = got.difference(&want_files).take(3).collect();
        let slug = if platform != 0 && extra.iter().any(|e| e.contains(".win32.")) { "patch-names-differ/platform-tag" } else { "patch-names-differ" };
        return fail(slug, format!("files that patching writes differ from Repository file names (platform {}, expansion {}): repository-only {:?}, patch-only {:?}", tag, exp, missing, extra));
    }
    ctx.classf(format!("platform:{}", tag));
    ctx.classf(format!("expansion:{}", exp));
    if ctx.want_sample() && (platform + exp) % 7 == 3 {
        ctx.sample(json!({"job": "file-names", "platform": tag, "expansion": exp, "files_created_by_patch": got.len(), "examples": got.iter().step_by(397).take(4).collect::<Vec<_>>()}));
    }
    Ok(())
}

fn prop(j: &Job, ctx: &Ctx) -> PResult {
    match j {
        Job::RaceCodes => race_codes(ctx),
        Job::Equipment { slot, lo, hi } => equipment_paths(*slot, *lo, *hi, ctx),
        Job::Character { category } => character_paths(*category, ctx),
        Job::Skeleton => skeleton_paths(ctx),
        Job::RepoOrder { universe, max_size, first } => repo_order(universe, *max_size, *first, ctx),
        Job::RepoDiscovery { exps, order } => repo_discovery(exps, order, ctx),
        Job::FileNames { platform, exp } => file_names(*platform, *exp, ctx),
    }
}

fn jobs(ctx: &Ctx) -> Vec<Job> {
    let mut v = vec![Job::RaceCodes, Job::Skeleton];
    for c in 0..5 {
        v.push(Job::Character { category: c });
    }
    for slot in 0..10u8 {
        for lo in (0..10_000).step_by(1000) {
            v.push(Job::Equipment { slot, lo, hi: lo + 1000 });
        }
    }
    let universe: Vec<u8> = ctx.tier.pick(vec![0, 1, 2, 3, 4, 5, 9], (0..=9).collect());
    for first in 0..universe.len() as u8 {
        v.push(Job::RepoOrder { universe: universe.clone(), max_size: 7, first });
    }
    // on-disk discovery, directories created in several orders
    let sets: [&[u8]; 6] = [&[], &[1], &[1, 2], &[3, 1, 2], &[9, 5, 1, 7], &[1, 2, 3, 4, 5, 6, 7, 8, 9]];
    for (i, s) in sets.iter().enumerate() {
        for k in 0..4u64 {
            let order: Vec<u8> = (0..=s.len()).map(|j| (util::splitmix64(ctx.seed ^ (i as u64 * 31 + k * 7 + j as u64)) & 0xff) as u8).collect();
            v.push(Job::RepoDiscovery { exps: s.to_vec(), order });
        }
    }
    for platform in 0..5 {
        for exp in 0..10 {
            v.push(Job::FileNames { platform, exp });
        }
    }
    v
}

pub fn property() -> Property {
    Property {
        id: "C15",
        rule: "Exhaustive enumeration. (i) all 8x16x2 (race, tribe, gender): get_supported_tribes partitions the 16 tribes into 8 disjoint pairs with race r owning tribe codes {2r-1, 2r} (structural oracle, no name table); get_race_id is Some exactly for own tribes; race codes injective over body types (race x gender, Hyur split by tribe). (ii) skeleton, equipment (10 slots x ids 0..9999 x 32 valid triples) and character (5 categories x 404 body versions) paths built without panic, of the documented form, pairwise distinct whenever inputs differ; deconstruct_equipment_path(file name) = (id, slot) for all 100 000 (id, slot). (iii) every permutation of every repository set of <= 7 members drawn from {base, ex1..ex5, ex9} (13 700 orderings; thorough: from all ten, 792 k) sorts to base then expansions by number; on-disk discovery with directories created in shuffled orders. (iv) for all 15x10x10x5x8 (category, expansion, chunk, platform, dat) the index/index2/dat names equal the documented pattern AND the set of files ZiPatch::apply creates for AddData/HeaderUpdate (index files: every header kind V/I/D; dat files: header kinds in rotation) with main=category, sub=exp<<8|chunk, that file id and target platform. evaluations counts individual elements; non-trivial = valid triple / each (id, slot) / permutation of >= 2 members / file name with expansion >= 1, chunk >= 1 or platform != win32.",
        assumptions: &["tribe and race enums carry their game codes; tribe codes are allocated in race order"],
        pre: None,
        post: None,
        parts: vec![Box::new(Part { name: "exhaustive", driver: Driver::Enum(jobs), prop, exhaustive: true })],
    }
}

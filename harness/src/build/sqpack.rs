//! SqPack encoder: headers, index / index2 files, dat entries (standard, texture, model), blocks.
use super::deflate::{deflate, Mode};
use super::W;
use crate::oracle::crc::jamcrc_lower;

pub const PLATFORMS: [&str; 5] = ["win32", "ps3", "ps4", "ps5", "lys"];
pub const CATEGORIES: [(&str, u8); 15] = [
    ("common", 0x00),
    ("bgcommon", 0x01),
    ("bg", 0x02),
    ("cut", 0x03),
    ("chara", 0x04),
    ("shader", 0x05),
    ("ui", 0x06),
    ("sound", 0x07),
    ("vfx", 0x08),
    ("ui_script", 0x09),
    ("exd", 0x0a),
    ("game_script", 0x0b),
    ("music", 0x0c),
    ("sqpack_test", 0x12),
    ("debug", 0x13),
];

pub fn platform_enum(i: usize) -> physis::common::Platform {
    use physis::common::Platform::*;
    [Win32, PS3, PS4, PS5, Xbox][i].clone()
}

pub fn repo_name(exp: u8) -> String {
    if exp == 0 {
        "ffxiv".to_string()
    } else {
        format!("ex{}", exp)
    }
}

/// `{cat:02x}{exp:02}{chunk:02}.{platform}` — the documented stem of index / dat files
pub fn file_stem(cat_id: u8, exp: u8, chunk: u8, platform: usize) -> String {
    format!("{:02x}{:02}{:02}.{}", cat_id, exp, chunk, PLATFORMS[platform])
}

/// 1024-byte SqPack header. file_type: 1 dat, 2 index.
pub fn sqpack_header(platform_id: u8, file_type: u8, region: i16) -> Vec<u8> {
    let mut w = W::new();
    w.bytes(b"SqPack\0\0");
    w.u8(platform_id).zeros(3);
    w.u32(1024);
    w.u32(1);
    w.u8(file_type).zeros(3);
    w.u32(0).u32(0);
    w.i16(region).zeros(2);
    w.zeros(924);
    w.fill(20, 0xAB); // sha1 (not verified by the reader)
    w.zeros(44);
    assert_eq!(w.len(), 1024);
    w.b
}

#[derive(Clone, Debug)]
pub struct IndexRecord {
    pub path: String,
    pub dat_id: u8,
    pub offset: u64,
    pub synonym: bool,
}

pub fn entry_word(dat_id: u8, offset: u64, synonym: bool) -> u32 {
    assert!(offset % 128 == 0 && dat_id < 8);
    (((offset / 8) as u32) & !0xF) | ((dat_id as u32) << 1) | synonym as u32
}

pub fn split_hashes(path: &str) -> (u32, u32) {
    let p = path.rfind('/').expect("path without folder");
    (jamcrc_lower(path[..p].as_bytes()), jamcrc_lower(path[p + 1..].as_bytes()))
}

/// Build an index (index2 = false) or index2 (true) file listing `records`.
pub fn index_file(platform_id: u8, region: i16, index2: bool, records: &[IndexRecord], n_dats: u32, sorted: bool) -> Vec<u8> {
    let mut entries: Vec<(u64, Vec<u8>)> = records
        .iter()
        .map(|r| {
            let word = entry_word(r.dat_id, r.offset, r.synonym);
            let mut w = W::new();
            if index2 {
                let h = jamcrc_lower(r.path.as_bytes());
                w.u32(h).u32(word);
                (h as u64, w.b)
            } else {
                let (folder, name) = split_hashes(&r.path);
                w.u32(name).u32(folder).u32(word).u32(0);
                (((folder as u64) << 32) | name as u64, w.b)
            }
        })
        .collect();
    if sorted {
        entries.sort_by_key(|e| e.0);
    }
    let esize = if index2 { 8 } else { 16 };
    let file_off = 2048u32;
    let file_size = (entries.len() * esize) as u32;
    let data_off = file_off + file_size;
    let data_size = 256u32;
    // folder table (index1 only): one record per distinct folder hash
    let mut folders: Vec<(u32, u32, u32)> = vec![];
    if !index2 && sorted {
        let mut i = 0;
        while i < entries.len() {
            let f = (entries[i].0 >> 32) as u32;
            let mut j = i;
            while j < entries.len() && (entries[j].0 >> 32) as u32 == f {
                j += 1;
            }
            folders.push((f, file_off + (i * 16) as u32, ((j - i) * 16) as u32));
            i = j;
        }
    }
    let folder_off = data_off + data_size;
    let folder_size = (folders.len() * 16) as u32;

    let mut w = W::new();
    w.bytes(&sqpack_header(platform_id, 2, region));
    // index header
    w.u32(1024);
    let desc = |w: &mut W, count: u32, off: u32, size: u32| {
        w.u32(count).u32(off).u32(size).fill(20, 0xCD).zeros(40);
    };
    desc(&mut w, 1, file_off, file_size);
    w.zeros(4);
    desc(&mut w, n_dats, data_off, data_size);
    desc(&mut w, 0, 0, 0);
    desc(&mut w, 0, folder_off, folder_size);
    w.u8(index2 as u8).zeros(3);
    w.zeros(656);
    w.fill(20, 0xEF);
    w.zeros(44);
    w.pad_to(2048);
    for e in &entries {
        w.bytes(&e.1);
    }
    w.fill(256, 0xFF);
    for (h, off, size) in folders {
        w.u32(h).u32(off).u32(size).u32(0);
    }
    w.b
}

/// One block: 16-byte header + payload, zero padded to 128 bytes.
pub fn encode_block(data: &[u8], mode: Mode) -> Vec<u8> {
    let mut w = W::new();
    let (x, payload): (i32, Vec<u8>) = match mode {
        Mode::Raw => (32000, data.to_vec()),
        m => {
            let d = deflate(data, m);
            if d.len() >= 32000 {
                (32000, data.to_vec())
            } else {
                (d.len() as i32, d)
            }
        }
    };
    w.u32(16).u32(0).i32(x).i32(data.len() as i32);
    w.bytes(&payload);
    w.align(128);
    w.b
}

#[derive(Clone, Debug)]
pub struct BlockSpec {
    pub data: Vec<u8>,
    pub mode: Mode,
}

fn header_size_for(len: usize, extra_128: usize) -> usize {
    (len + 127) / 128 * 128 + extra_128 * 128
}

/// A complete *standard* dat entry.
pub fn standard_entry(blocks: &[BlockSpec], extra_header_128: usize, gap_128: &[usize]) -> Vec<u8> {
    standard_entry_ordered(blocks, extra_header_128, gap_128, &[])
}

/// `phys_order`: the blocks in the order they are stored (a permutation of 0..n; empty = content order). The block
/// table always lists them in content order, each with its own offset.
pub fn standard_entry_ordered(blocks: &[BlockSpec], extra_header_128: usize, gap_128: &[usize], phys_order: &[usize]) -> Vec<u8> {
    let raw_total: usize = blocks.iter().map(|b| b.data.len()).sum();
    let enc: Vec<Vec<u8>> = blocks.iter().map(|b| encode_block(&b.data, b.mode)).collect();
    let hdr_len = 24 + 8 * blocks.len();
    let hsize = header_size_for(hdr_len, extra_header_128);
    let mut w = W::new();
    w.u32(hsize as u32).i32(2).u32(raw_total as u32);
    w.u32(((raw_total + 127) / 128) as u32).u32(enc.iter().map(|e| e.len() / 128).sum::<usize>() as u32);
    w.u32(blocks.len() as u32);
    let phys: Vec<usize> = if phys_order.is_empty() { (0..blocks.len()).collect() } else { phys_order.to_vec() };
    assert_eq!(phys.len(), blocks.len());
    let mut off = 0usize;
    let mut offsets = vec![0usize; blocks.len()];
    for &i in &phys {
        off += gap_128.get(i).copied().unwrap_or(0) * 128;
        offsets[i] = off;
        off += enc[i].len();
    }
    for (i, e) in enc.iter().enumerate() {
        w.u32(offsets[i] as u32).u16(e.len() as u16).u16(blocks[i].data.len() as u16);
    }
    w.pad_to(hsize);
    for &i in &phys {
        w.pad_to(hsize + offsets[i]);
        w.bytes(&enc[i]);
    }
    w.b
}

/// A complete *texture* dat entry: `header` stored raw, then every mip's blocks.
pub fn texture_entry(header: &[u8], mips: &[Vec<BlockSpec>], extra_header_128: usize) -> Vec<u8> {
    texture_entry_with_gaps(header, mips, extra_header_128, &[])
}

/// `gaps[i]`: 128-byte units of unrelated bytes in front of mip level i (i >= 1) - every level record carries its own offset,
/// so a packer may align its levels as it likes.
pub fn texture_entry_with_gaps(header: &[u8], mips: &[Vec<BlockSpec>], extra_header_128: usize, gaps: &[usize]) -> Vec<u8> {
    let gap = |i: usize| if i >= 1 { gaps.get(i).copied().unwrap_or(0) * 128 } else { 0 };
    let nblocks: usize = mips.iter().map(|m| m.len()).sum();
    let raw_total: usize = header.len() + mips.iter().flatten().map(|b| b.data.len()).sum::<usize>();
    let hdr_len = 24 + 20 * mips.len() + 2 * nblocks;
    let hsize = header_size_for(hdr_len, extra_header_128);
    let enc: Vec<Vec<Vec<u8>>> = mips.iter().map(|m| m.iter().map(|b| encode_block(&b.data, b.mode)).collect()).collect();
    let mut w = W::new();
    w.u32(hsize as u32).i32(4).u32(raw_total as u32);
    w.u32(0).u32(0);
    w.u32(mips.len() as u32);
    let mut off = header.len();
    let mut first = 0usize;
    for (i, m) in mips.iter().enumerate() {
        let csize: usize = enc[i].iter().map(|e| e.len()).sum();
        let dsize: usize = m.iter().map(|b| b.data.len()).sum();
        off += gap(i);
        w.u32(off as u32).u32(csize as u32).u32(dsize as u32).u32(first as u32).u32(m.len() as u32);
        off += csize;
        first += m.len();
    }
    for m in &enc {
        for e in m {
            w.i16(e.len() as i16);
        }
    }
    w.pad_to(hsize);
    w.bytes(header);
    for (i, m) in enc.iter().enumerate() {
        w.fill(gap(i), 0xA5);
        for e in m {
            w.bytes(e);
        }
    }
    w.b
}

#[derive(Clone, Debug, Default)]
pub struct ModelEntrySpec {
    pub version: u32,
    pub stack: Vec<BlockSpec>,
    pub runtime: Vec<BlockSpec>,
    pub vertex: [Vec<BlockSpec>; 3],
    pub index: [Vec<BlockSpec>; 3],
    pub decl_num: u16,
    pub material_num: u16,
    pub num_lods: u8,
    pub index_streaming: bool,
    pub edge_geometry: bool,
    /// where the eight sections (logical order stack, runtime, v0, i0, v1, i1, v2, i2) lie inside the entry: a
    /// permutation of 0..8 listing the logical sections in physical order (empty = logical order), and a gap of
    /// unrelated bytes in front of each section. The slot tables carry every section's own offset.
    pub phys_order: Vec<usize>,
    pub phys_gap_128: usize,
}

/// A complete *model* dat entry (no edge-geometry blocks).
pub fn model_entry(m: &ModelEntrySpec, extra_header_128: usize) -> Vec<u8> {
    // section order in the slot tables: stack, runtime, vertex[3], edge[3], index[3]
    // section order in the file and in the block-size table: stack, runtime, v0, i0, v1, i1, v2, i2
    let empty: Vec<BlockSpec> = vec![];
    let slots: [&Vec<BlockSpec>; 11] = [&m.stack, &m.runtime, &m.vertex[0], &m.vertex[1], &m.vertex[2], &empty, &empty, &empty, &m.index[0], &m.index[1], &m.index[2]];
    let file_order: [usize; 8] = [0, 1, 2, 8, 3, 9, 4, 10];
    let enc: Vec<Vec<Vec<u8>>> = slots.iter().map(|s| s.iter().map(|b| encode_block(&b.data, b.mode)).collect()).collect();
    let nblocks: usize = slots.iter().map(|s| s.len()).sum();
    let raw_total: usize = 0x44 + slots.iter().map(|s| s.iter().map(|b| b.data.len()).sum::<usize>()).sum::<usize>();
    let hdr_len = 12 + 12 + 11 * 4 * 3 + 11 * 2 * 2 + 8 + 2 * nblocks;
    let hsize = header_size_for(hdr_len, extra_header_128);
    let mut offsets = [0u32; 11];
    let mut first_block = [0u16; 11];
    let mut blk = 0usize;
    for &s in &file_order {
        first_block[s] = blk as u16;
        blk += slots[s].len();
    }
    let phys: Vec<usize> = if m.phys_order.is_empty() { (0..8).collect() } else { m.phys_order.clone() };
    assert!({
        let mut p = phys.clone();
        p.sort();
        p == (0..8).collect::<Vec<_>>()
    });
    let mut off = 0usize;
    for &k in &phys {
        let s = file_order[k];
        off += m.phys_gap_128 * 128;
        offsets[s] = off as u32;
        off += enc[s].iter().map(|e| e.len()).sum::<usize>();
    }
    // unused (edge) slots point at the end like real files
    for s in 5..8 {
        offsets[s] = off as u32;
        first_block[s] = blk as u16;
    }
    let mut w = W::new();
    w.u32(hsize as u32).i32(3).u32(raw_total as u32);
    w.u32(nblocks as u32).u32(nblocks as u32).u32(m.version);
    for s in 0..11 {
        w.u32(slots[s].iter().map(|b| b.data.len()).sum::<usize>() as u32);
    }
    for s in 0..11 {
        w.u32(enc[s].iter().map(|e| e.len()).sum::<usize>() as u32);
    }
    for s in 0..11 {
        w.u32(offsets[s]);
    }
    for s in 0..11 {
        w.u16(first_block[s]);
    }
    for s in 0..11 {
        w.u16(slots[s].len() as u16);
    }
    w.u16(m.decl_num).u16(m.material_num).u8(m.num_lods).u8(m.index_streaming as u8).u8(m.edge_geometry as u8).u8(0);
    for &s in &file_order {
        for e in &enc[s] {
            w.u16(e.len() as u16);
        }
    }
    w.pad_to(hsize);
    for &k in &phys {
        let s = file_order[k];
        w.fill(m.phys_gap_128 * 128, 0x5A);
        assert_eq!(w.len(), hsize + offsets[s] as usize);
        for e in &enc[s] {
            w.bytes(e);
        }
    }
    w.b
}

/// A dat file: SqPack header + 1024-byte data header, then `entries` at their (128-aligned) offsets.
/// Gaps are filled with `filler`.
pub fn dat_file(platform_id: u8, region: i16, entries: &[(u64, Vec<u8>)], filler: u8) -> Vec<u8> {
    let mut w = W::new();
    w.bytes(&sqpack_header(platform_id, 1, region));
    w.fill(1024, 0);
    let mut sorted: Vec<&(u64, Vec<u8>)> = entries.iter().collect();
    sorted.sort_by_key(|e| e.0);
    for (off, data) in sorted {
        let off = *off as usize;
        assert!(off >= w.len() && off % 128 == 0, "overlapping dat entries");
        let gap = off - w.len();
        w.fill(gap, filler);
        w.bytes(data);
    }
    w.b
}

/// Write entries into a (possibly sparse) dat file on disk; supports offsets beyond 4 GiB.
pub fn write_dat_sparse(path: &std::path::Path, platform_id: u8, region: i16, entries: &[(u64, Vec<u8>)]) -> std::io::Result<()> {
    use std::io::{Seek, SeekFrom, Write};
    let mut f = std::fs::File::create(path)?;
    f.write_all(&sqpack_header(platform_id, 1, region))?;
    f.write_all(&[0u8; 1024])?;
    for (off, data) in entries {
        f.seek(SeekFrom::Start(*off))?;
        f.write_all(data)?;
    }
    Ok(())
}

/// A synthetic installation in a private scratch directory: `<root>/game/ffxivgame.ver`, `<root>/game/sqpack/<repo>/…`.
pub struct Install {
    pub dir: crate::engine::tmp::TmpDir,
}

impl Install {
    pub fn new(tag: &str) -> Install {
        let dir = crate::engine::tmp::TmpDir::new(tag);
        std::fs::create_dir_all(dir.join("game/sqpack/ffxiv")).unwrap();
        std::fs::write(dir.join("game/ffxivgame.ver"), "2012.01.01.0000.0000").unwrap();
        Install { dir }
    }
    pub fn game_dir(&self) -> String {
        self.dir.join("game").to_str().unwrap().to_string()
    }
    pub fn repo_dir(&self, exp: u8) -> std::path::PathBuf {
        self.dir.join("game/sqpack").join(repo_name(exp))
    }
    pub fn add_repo(&self, exp: u8) {
        self.add_repo_with(exp, true)
    }
    /// `version_file` = false: the expansion's folder without its exN.ver (an installation in need of repair, but its
    /// archives are there)
    pub fn add_repo_with(&self, exp: u8, version_file: bool) {
        let d = self.repo_dir(exp);
        std::fs::create_dir_all(&d).unwrap();
        if exp > 0 && version_file {
            std::fs::write(d.join(format!("ex{}.ver", exp)), "2012.01.01.0000.0000").unwrap();
        }
    }
    pub fn write(&self, exp: u8, filename: &str, bytes: &[u8]) {
        std::fs::write(self.repo_dir(exp).join(filename), bytes).unwrap();
    }
}

//! ZiPatch encoder, written from the format (XIVLauncher's patcher is the reference): chunk framing is
//! big-endian size, 4-byte tag, body, CRC-32 of tag+body.
use super::deflate::{deflate, Mode};
use super::W;

pub fn file_header() -> Vec<u8> {
    let mut w = W::new();
    w.u8(0x91).bytes(b"ZIPATCH").bytes(&[0x0d, 0x0a, 0x1a, 0x0a]);
    w.b
}

fn crc32(data: &[u8]) -> u32 {
    let mut c = 0xFFFF_FFFFu32;
    for &b in data {
        c ^= b as u32;
        for _ in 0..8 {
            c = if c & 1 != 0 { (c >> 1) ^ 0xEDB8_8320 } else { c >> 1 };
        }
    }
    !c
}

pub fn chunk(tag: &[u8; 4], body: &[u8]) -> Vec<u8> {
    let mut w = W::new();
    w.u32be(body.len() as u32).bytes(tag).bytes(body);
    let crc = crc32(&w.b[4..]);
    w.u32be(crc);
    w.b
}

pub fn eof() -> Vec<u8> {
    // Physis reads no CRC after EOF_; the real format has one — trailing bytes after EOF are never read
    let mut w = W::new();
    w.u32be(0).bytes(b"EOF_").u32be(crc32(b"EOF_"));
    w.b
}

pub fn fhdr(v3: bool, seed: u32) -> Vec<u8> {
    let mut w = W::new();
    w.zeros(2).u8(if v3 { 3 } else { 2 }).u8(0);
    w.bytes(b"D000");
    if v3 {
        for i in 0..13u32 {
            w.u32be(seed.wrapping_mul(i + 1));
        }
        w.zeros(0xB8);
        assert_eq!(w.len(), 244);
    } else {
        w.zeros(8).u32be(seed);
        assert_eq!(w.len(), 20);
    }
    chunk(b"FHDR", &w.b)
}

pub fn aply(option: u32, value: u32) -> Vec<u8> {
    let mut w = W::new();
    w.u32be(option).zeros(4).u32be(value);
    chunk(b"APLY", &w.b)
}

pub fn dir_chunk(add: bool, name: &str) -> Vec<u8> {
    let mut w = W::new();
    w.u32be(name.len() as u32).bytes(name.as_bytes());
    chunk(if add { b"ADIR" } else { b"DELD" }, &w.b)
}

fn sqpk(cmd: u8, body: &[u8]) -> Vec<u8> {
    let mut w = W::new();
    w.u32be((body.len() + 5) as u32).u8(cmd).bytes(body);
    chunk(b"SQPK", &w.b)
}

pub fn target_info(platform: u16, region: i16, debug: bool, version: u16) -> Vec<u8> {
    let mut w = W::new();
    w.zeros(3).u16be(platform).i16be(region).u16be(debug as u16).u16be(version);
    w.u64(0x1122).u64(0x3344);
    w.zeros(96);
    sqpk(b'T', &w.b)
}

pub fn patch_info(status: u8, version: u8, size: u64) -> Vec<u8> {
    let mut w = W::new();
    w.u8(status).u8(version).u8(0).u64be(size);
    sqpk(b'X', &w.b)
}

pub fn index_cmd(add: bool, synonym: bool, hash: u64, block_offset: u32, block_number: u32) -> Vec<u8> {
    let mut w = W::new();
    w.u8(if add { b'A' } else { b'D' }).u8(synonym as u8).u8(0).u64be(hash).u32be(block_offset).u32be(block_number).zeros(8);
    sqpk(b'I', &w.b)
}

pub fn add_data(main: u16, sub: u16, file: u32, block_offset: u32, data: &[u8], delete_blocks: u32) -> Vec<u8> {
    assert!(data.len() % 128 == 0);
    let mut w = W::new();
    w.zeros(3).u16be(main).u16be(sub).u32be(file).u32be(block_offset).u32be((data.len() / 128) as u32).u32be(delete_blocks).bytes(data);
    sqpk(b'A', &w.b)
}

pub fn delete_or_expand(expand: bool, main: u16, sub: u16, file: u32, block_offset: u32, block_count: u32) -> Vec<u8> {
    let mut w = W::new();
    w.zeros(3).u16be(main).u16be(sub).u32be(file).u32be(block_offset).u32be(block_count).zeros(4);
    sqpk(if expand { b'E' } else { b'D' }, &w.b)
}

pub fn header_update(index: bool, kind: u8, main: u16, sub: u16, file: u32, data: &[u8]) -> Vec<u8> {
    assert_eq!(data.len(), 1024);
    let mut w = W::new();
    w.u8(if index { b'I' } else { b'D' }).u8(kind).u8(0).u16be(main).u16be(sub).u32be(file).bytes(data);
    sqpk(b'H', &w.b)
}

/// One patch file block: 16-byte header + payload, padded so that the whole block is (len+143) & !127.
pub fn file_block(data: &[u8], mode: Mode) -> Vec<u8> {
    let (x, payload): (i32, Vec<u8>) = match mode {
        Mode::Raw => (32000, data.to_vec()),
        m => {
            let d = deflate(data, m);
            if d.len() >= 32000 {
                (32000, data.to_vec())
            } else {
                (d.len() as i32, d)
            }
        }
    };
    let mut w = W::new();
    w.u32(16).u32(0).i32(x).i32(data.len() as i32).bytes(&payload);
    let total = (payload.len() + 143) & !127;
    w.pad_to(total);
    w.b
}

/// op: b'A' add file, b'D' delete file, b'R' remove all, b'M' make dir tree
pub fn file_op(op: u8, offset: u64, size: u64, expansion: u16, path: &str, blocks: &[Vec<u8>]) -> Vec<u8> {
    let mut w = W::new();
    w.u8(op).zeros(2).u64be(offset).u64be(size).u32be(path.len() as u32 + 1).u16be(expansion).zeros(2).bytes(path.as_bytes()).u8(0);
    for b in blocks {
        w.bytes(b);
    }
    sqpk(b'F', &w.b)
}

//! Byte encoders written from the format descriptions (never by calling Physis writers).
pub mod deflate;
pub mod excel;
pub mod havok;
pub mod material;
pub mod mdl;
pub mod sqpack;
pub mod zipatch;

#[derive(Default, Clone)]
pub struct W {
    pub b: Vec<u8>,
}

#[allow(dead_code)]
impl W {
    pub fn new() -> W {
        W { b: Vec::new() }
    }
    pub fn len(&self) -> usize {
        self.b.len()
    }
    pub fn u8(&mut self, v: u8) -> &mut Self {
        self.b.push(v);
        self
    }
    pub fn i8(&mut self, v: i8) -> &mut Self {
        self.b.push(v as u8);
        self
    }
    pub fn u16(&mut self, v: u16) -> &mut Self {
        self.b.extend_from_slice(&v.to_le_bytes());
        self
    }
    pub fn i16(&mut self, v: i16) -> &mut Self {
        self.b.extend_from_slice(&v.to_le_bytes());
        self
    }
    pub fn u32(&mut self, v: u32) -> &mut Self {
        self.b.extend_from_slice(&v.to_le_bytes());
        self
    }
    pub fn i32(&mut self, v: i32) -> &mut Self {
        self.b.extend_from_slice(&v.to_le_bytes());
        self
    }
    pub fn u64(&mut self, v: u64) -> &mut Self {
        self.b.extend_from_slice(&v.to_le_bytes());
        self
    }
    pub fn f32(&mut self, v: f32) -> &mut Self {
        self.b.extend_from_slice(&v.to_le_bytes());
        self
    }
    pub fn f32bits(&mut self, v: u32) -> &mut Self {
        self.b.extend_from_slice(&v.to_le_bytes());
        self
    }
    pub fn u16be(&mut self, v: u16) -> &mut Self {
        self.b.extend_from_slice(&v.to_be_bytes());
        self
    }
    pub fn i16be(&mut self, v: i16) -> &mut Self {
        self.b.extend_from_slice(&v.to_be_bytes());
        self
    }
    pub fn u32be(&mut self, v: u32) -> &mut Self {
        self.b.extend_from_slice(&v.to_be_bytes());
        self
    }
    pub fn i32be(&mut self, v: i32) -> &mut Self {
        self.b.extend_from_slice(&v.to_be_bytes());
        self
    }
    pub fn u64be(&mut self, v: u64) -> &mut Self {
        self.b.extend_from_slice(&v.to_be_bytes());
        self
    }
    pub fn i64be(&mut self, v: i64) -> &mut Self {
        self.b.extend_from_slice(&v.to_be_bytes());
        self
    }
    pub fn bytes(&mut self, v: &[u8]) -> &mut Self {
        self.b.extend_from_slice(v);
        self
    }
    pub fn zeros(&mut self, n: usize) -> &mut Self {
        self.b.resize(self.b.len() + n, 0);
        self
    }
    pub fn fill(&mut self, n: usize, v: u8) -> &mut Self {
        self.b.resize(self.b.len() + n, v);
        self
    }
    pub fn pad_to(&mut self, n: usize) -> &mut Self {
        if self.b.len() < n {
            self.b.resize(n, 0);
        }
        self
    }
    pub fn align(&mut self, a: usize) -> &mut Self {
        let r = self.b.len() % a;
        if r != 0 {
            self.zeros(a - r);
        }
        self
    }
    pub fn set_u32(&mut self, at: usize, v: u32) {
        self.b[at..at + 4].copy_from_slice(&v.to_le_bytes());
    }
    pub fn set_u16(&mut self, at: usize, v: u16) {
        self.b[at..at + 2].copy_from_slice(&v.to_le_bytes());
    }
    pub fn set_i32(&mut self, at: usize, v: i32) {
        self.b[at..at + 4].copy_from_slice(&v.to_le_bytes());
    }
}

//! Havok binary tag file writer (version 3) and SKLB container, written from the format grammar.
use super::W;
use serde::{Deserialize, Serialize};
use std::collections::HashMap;

pub const T_BYTE: u32 = 1;
pub const T_INT: u32 = 2;
pub const T_REAL: u32 = 3;
pub const T_VEC4: u32 = 4;
pub const T_VEC12: u32 = 6;
pub const T_OBJECT: u32 = 8;
pub const T_STRUCT: u32 = 9;
pub const T_STRING: u32 = 10;
pub const ARRAY: u32 = 0x10;
pub const TUPLE: u32 = 0x20;

pub struct TagWriter {
    pub out: Vec<u8>,
    strings: HashMap<String, i32>,
    next_string: i32,
    /// use back-references for repeated strings
    pub backrefs: bool,
    /// emit non-minimal packed integers (extra continuation bytes) for some values
    pub pad_ints: u8,
    /// write the first empty string as an explicit zero-length literal (which the reader remembers like any other
    /// literal, shifting every later string's number) instead of the usual back-reference to the built-in ""
    pub explicit_empty: bool,
    wrote_empty_literal: bool,
    counter: u32,
}

impl TagWriter {
    pub fn new(backrefs: bool, pad_ints: u8) -> TagWriter {
        let mut t = TagWriter { out: vec![], strings: HashMap::new(), next_string: 2, backrefs, pad_ints, explicit_empty: false, wrote_empty_literal: false, counter: 0 };
        t.out.extend_from_slice(&0xCAB0_0D1Eu32.to_le_bytes());
        t.out.extend_from_slice(&0xD011_FACEu32.to_le_bytes());
        t.strings.insert("".to_string(), 1);
        t
    }

    pub fn packed(&mut self, v: i32) {
        let neg = v < 0;
        let mut mag = v.unsigned_abs();
        let mut bytes: Vec<u8> = vec![];
        let mut first = ((mag & 0x3f) as u8) << 1 | neg as u8;
        mag >>= 6;
        let mut rest: Vec<u8> = vec![];
        while mag != 0 {
            rest.push((mag & 0x7f) as u8);
            mag >>= 7;
        }
        // optional non-minimal encoding: zero-valued continuation groups, total length <= 5 bytes
        self.counter = self.counter.wrapping_add(1);
        if self.pad_ints != 0 && self.counter % (self.pad_ints as u32 + 1) == 0 {
            while rest.len() < 4 && (self.counter >> 3) % 3 != 0 {
                rest.push(0);
                self.counter = self.counter.wrapping_add(8);
            }
        }
        if !rest.is_empty() {
            first |= 0x80;
        }
        bytes.push(first);
        for (i, r) in rest.iter().enumerate() {
            bytes.push(if i + 1 < rest.len() { r | 0x80 } else { *r });
        }
        self.out.extend_from_slice(&bytes);
    }

    pub fn string(&mut self, s: &str) {
        if s.is_empty() && self.explicit_empty && !self.wrote_empty_literal {
            self.wrote_empty_literal = true;
            self.packed(0);
            self.strings.insert(String::new(), self.next_string);
            self.next_string += 1;
            return;
        }
        if self.backrefs || s.is_empty() {
            if let Some(i) = self.strings.get(s) {
                let i = *i;
                // "" is always written as back-reference 1 when back-references are on
                if self.backrefs {
                    self.packed(-i);
                    return;
                }
            }
        }
        self.packed(s.len() as i32);
        self.out.extend_from_slice(s.as_bytes());
        // every literal string is remembered by the reader, also repeated ones
        self.strings.insert(s.to_string(), self.next_string);
        self.next_string += 1;
    }

    pub fn f32(&mut self, bits: u32) {
        self.out.extend_from_slice(&bits.to_le_bytes());
    }

    pub fn bitfield(&mut self, bits: &[bool]) {
        let n = (bits.len() + 7) / 8;
        let mut b = vec![0u8; n];
        for (i, x) in bits.iter().enumerate() {
            if *x {
                b[i / 8] |= 1 << (i % 8);
            }
        }
        self.out.extend_from_slice(&b);
    }
}

#[derive(Clone, Debug, Serialize, Deserialize)]
pub struct MemberDef {
    pub name: String,
    pub ty: u32,
    pub tuple_size: u32,
    pub class: Option<String>,
}

#[derive(Clone, Debug, Serialize, Deserialize)]
pub struct TypeDef {
    pub name: String,
    pub version: i32,
    /// index into the type table (0 = the built-in "object")
    pub parent: usize,
    pub members: Vec<MemberDef>,
}

pub fn write_type(w: &mut TagWriter, t: &TypeDef) {
    w.packed(2);
    w.string(&t.name);
    w.packed(t.version);
    w.packed(t.parent as i32);
    w.packed(t.members.len() as i32);
    for m in &t.members {
        w.string(&m.name);
        w.packed(m.ty as i32);
        if m.ty & TUPLE != 0 {
            w.packed(m.tuple_size as i32);
        }
        if m.ty & 0xf == T_OBJECT || m.ty & 0xf == T_STRUCT {
            w.string(m.class.as_deref().unwrap_or("hkReferencedObject"));
        }
    }
}

/// SKLB container around a Havok payload. version: 0 = 0x31323030, 1 = 0x31333030, 2 = 0x31333031
pub fn sklb(version: u8, gap: &[u8], havok: &[u8], ids: [u32; 4]) -> Vec<u8> {
    let mut w = W::new();
    w.u32(0x736B_6C62);
    if version == 0 {
        w.u32(0x3132_3030);
        let off = 4 + 4 + 2 + 2 + 16 + gap.len();
        w.u16(24).u16(off as u16);
        for i in ids {
            w.u32(i);
        }
    } else {
        w.u32(if version == 1 { 0x3133_3030 } else { 0x3133_3031 });
        let off = 4 + 4 + 4 + 4 + 4 + 16 + gap.len();
        w.u32(36).u32(off as u32).u32(0x55);
        for i in ids {
            w.u32(i);
        }
    }
    w.bytes(gap);
    w.bytes(havok);
    w.b
}

//! EXH / EXD / EXL encoders (big-endian), written from the format description.
use super::W;
use serde::{Deserialize, Serialize};

/// The 19 column types with their on-disk ids.
pub const TYPE_IDS: [u16; 19] = [0x0, 0x1, 0x2, 0x3, 0x4, 0x5, 0x6, 0x7, 0x9, 0xA, 0xB, 0x19, 0x1A, 0x1B, 0x1C, 0x1D, 0x1E, 0x1F, 0x20];
pub const TYPE_NAMES: [&str; 19] = ["String", "Bool", "Int8", "UInt8", "Int16", "UInt16", "Int32", "UInt32", "Float32", "Int64", "UInt64", "PackedBool0", "PackedBool1", "PackedBool2", "PackedBool3", "PackedBool4", "PackedBool5", "PackedBool6", "PackedBool7"];

pub fn type_width(t: usize) -> usize {
    match t {
        0 => 4,
        1 | 2 | 3 => 1,
        4 | 5 => 2,
        6 | 7 | 8 => 4,
        9 | 10 => 8,
        _ => 1,
    }
}

#[derive(Clone, Debug, Serialize, Deserialize, PartialEq)]
pub struct Column {
    /// index into TYPE_IDS
    pub ty: u8,
    pub offset: u16,
}

#[derive(Clone, Debug, Serialize, Deserialize, PartialEq)]
pub struct Schema {
    pub version: u16,
    pub data_offset: u16,
    pub columns: Vec<Column>,
    pub pages: Vec<(u32, u32)>,
    /// language codes 0..=7
    pub languages: Vec<u8>,
    pub row_count: u32,
}

/// A cell value; floats are carried as bit patterns, 64-bit values as strings in JSON-unfriendly ranges are avoided by i64/u64 serde support.
#[derive(Clone, Debug, Serialize, Deserialize, PartialEq)]
pub enum Cell {
    Str(String),
    Bool(bool),
    I8(i8),
    U8(u8),
    I16(i16),
    U16(u16),
    I32(i32),
    U32(u32),
    F32(u32),
    I64(i64),
    U64(u64),
}

#[derive(Clone, Debug, Serialize, Deserialize, PartialEq)]
pub struct SubRow {
    pub id: u16,
    pub cells: Vec<Cell>,
}

#[derive(Clone, Debug, Serialize, Deserialize, PartialEq)]
pub struct Row {
    pub id: u32,
    pub subrows: Vec<SubRow>,
    /// seed for the junk bytes in gaps / unused bits
    pub junk: u64,
}

pub fn encode_exh(s: &Schema) -> Vec<u8> {
    let mut w = W::new();
    w.bytes(b"EXHF");
    w.u16be(s.version).u16be(s.data_offset).u16be(s.columns.len() as u16).u16be(s.pages.len() as u16).u16be(s.languages.len() as u16);
    w.zeros(6);
    w.u32be(s.row_count);
    w.zeros(8);
    for c in &s.columns {
        w.u16be(TYPE_IDS[c.ty as usize]).u16be(c.offset);
    }
    for (start, count) in &s.pages {
        w.u32be(*start).u32be(*count);
    }
    for l in &s.languages {
        // on-disk form: two bytes per language
        w.u8(*l).u8(0);
    }
    w.b
}

fn junk_byte(seed: u64, i: usize) -> u8 {
    (crate::engine::util::splitmix64(seed ^ (i as u64).wrapping_mul(0x9E3779B97F4A7C15)) & 0xff) as u8
}

/// Write the fixed-size region of one sub-row. Returns the heap (strings) contribution when `heap` is given.
fn encode_fixed(s: &Schema, cells: &[Cell], junk: u64, heap: &mut Option<&mut Vec<u8>>) -> Vec<u8> {
    let n = s.data_offset as usize;
    let mut region: Vec<u8> = (0..n).map(|i| junk_byte(junk, i)).collect();
    // string cells first. Where a string lies in the heap is the writer's business: every cell carries its own offset. A
    // third of the rows store their strings in column order, a third in reverse column order, a third rotated; in half of
    // the rows equal strings share one heap entry.
    let mut strs: Vec<(usize, &String)> = s.columns.iter().zip(cells).filter_map(|(c, cell)| if let Cell::Str(st) = cell { Some((c.offset as usize, st)) } else { None }).collect();
    if !strs.is_empty() {
        let h = heap.as_mut().expect("string cell in a sheet without a heap");
        match junk % 3 {
            1 => strs.reverse(),
            2 => {
                let k = (junk / 3) as usize % strs.len();
                strs.rotate_left(k);
            }
            _ => {}
        }
        let share = (junk / 7) % 2 == 1;
        let mut placed: Vec<(&String, u32)> = vec![];
        for (o, st) in strs {
            if share {
                if let Some((_, off)) = placed.iter().find(|(p, _)| *p == st) {
                    region[o..o + 4].copy_from_slice(&off.to_be_bytes());
                    continue;
                }
            }
            // junk gap before each string so offsets are not trivially cumulative
            let gap = (junk_byte(junk, 1000 + o) % 4) as usize;
            for g in 0..gap {
                h.push(junk_byte(junk, 2000 + o + g) | 1);
            }
            let off = h.len() as u32;
            h.extend_from_slice(st.as_bytes());
            h.push(0);
            region[o..o + 4].copy_from_slice(&off.to_be_bytes());
            placed.push((st, off));
        }
    }
    // packed-bool bytes: start from junk, then set/clear exactly the bit of each column
    for (c, cell) in s.columns.iter().zip(cells) {
        let o = c.offset as usize;
        match cell {
            Cell::Str(_) => {}
            Cell::Bool(b) => {
                let t = c.ty as usize;
                if t == 1 {
                    region[o] = *b as u8;
                } else {
                    let bit = 1u8 << (t - 11);
                    if *b {
                        region[o] |= bit;
                    } else {
                        region[o] &= !bit;
                    }
                }
            }
            Cell::I8(v) => region[o] = *v as u8,
            Cell::U8(v) => region[o] = *v,
            Cell::I16(v) => region[o..o + 2].copy_from_slice(&v.to_be_bytes()),
            Cell::U16(v) => region[o..o + 2].copy_from_slice(&v.to_be_bytes()),
            Cell::I32(v) => region[o..o + 4].copy_from_slice(&v.to_be_bytes()),
            Cell::U32(v) => region[o..o + 4].copy_from_slice(&v.to_be_bytes()),
            Cell::F32(v) => region[o..o + 4].copy_from_slice(&v.to_be_bytes()),
            Cell::I64(v) => region[o..o + 8].copy_from_slice(&v.to_be_bytes()),
            Cell::U64(v) => region[o..o + 8].copy_from_slice(&v.to_be_bytes()),
        }
    }
    region
}

/// Encode one row (header + body).
pub fn encode_row(s: &Schema, r: &Row) -> Vec<u8> {
    let mut body = Vec::new();
    if r.subrows.len() == 1 {
        let mut heap = Vec::new();
        let fixed = encode_fixed(s, &r.subrows[0].cells, r.junk, &mut Some(&mut heap));
        body.extend_from_slice(&fixed);
        body.extend_from_slice(&heap);
        while body.len() % 4 != 0 {
            body.push(0);
        }
    } else {
        // Sub-rows share one string heap behind the last sub-row. A string cell holds its offset relative to the
        // end of *its own* sub-row's fixed-size region (the convention of the reference reader, Lumina:
        // ReadString(offset, structOffset) = structOffset + dataOffset + stored value).
        let has_strings = s.columns.iter().any(|c| c.ty == 0);
        let stride = s.data_offset as usize + 2;
        let heap_start = r.subrows.len() * stride;
        let mut heap = Vec::new();
        for (k, sr) in r.subrows.iter().enumerate() {
            body.extend_from_slice(&sr.id.to_be_bytes());
            let mut fixed = if has_strings { encode_fixed(s, &sr.cells, r.junk ^ (k as u64 + 1), &mut Some(&mut heap)) } else { encode_fixed(s, &sr.cells, r.junk ^ (k as u64 + 1), &mut None) };
            let base = k * stride + 2 + s.data_offset as usize;
            for c in s.columns.iter().filter(|c| c.ty == 0) {
                let o = c.offset as usize;
                let within = u32::from_be_bytes([fixed[o], fixed[o + 1], fixed[o + 2], fixed[o + 3]]);
                let stored = (heap_start - base) as u32 + within;
                fixed[o..o + 4].copy_from_slice(&stored.to_be_bytes());
            }
            body.extend_from_slice(&fixed);
        }
        body.extend_from_slice(&heap);
    }
    let mut w = W::new();
    w.u32be(body.len() as u32).u16be(r.subrows.len() as u16);
    w.bytes(&body);
    w.b
}

/// Encode an EXD page. `order` permutes the physical order of the rows in the data area.
pub fn encode_exd(s: &Schema, rows: &[Row], physical_order: &[usize], version: u16) -> Vec<u8> {
    let identity: Vec<usize> = (0..rows.len()).collect();
    encode_exd_indexed(s, rows, physical_order, &identity, version)
}

/// As `encode_exd`; `index_order` additionally permutes the entries of the row index table (a page lists its
/// rows in any order: a reader has to find a row by its id, not by its position).
pub fn encode_exd_indexed(s: &Schema, rows: &[Row], physical_order: &[usize], index_order: &[usize], version: u16) -> Vec<u8> {
    let enc: Vec<Vec<u8>> = rows.iter().map(|r| encode_row(s, r)).collect();
    let index_size = rows.len() * 8;
    let data_start = 32 + index_size;
    let mut offsets = vec![0usize; rows.len()];
    let mut pos = data_start;
    for &i in physical_order {
        offsets[i] = pos;
        pos += enc[i].len();
    }
    let mut w = W::new();
    w.bytes(b"EXDF");
    w.u16be(version).zeros(2).u32be(index_size as u32).u32be((pos - data_start) as u32).zeros(16);
    for &i in index_order {
        w.u32be(rows[i].id).u32be(offsets[i] as u32);
    }
    for &i in physical_order {
        w.bytes(&enc[i]);
    }
    w.b
}

pub fn encode_exl(version: i32, entries: &[(String, i32)]) -> Vec<u8> {
    let mut s = format!("EXLT,{}", version);
    for (n, id) in entries {
        s.push_str(&format!("\r\n{},{}", n, id));
    }
    s.push_str("\r\n");
    s.into_bytes()
}

pub const LANG_CODES: [&str; 8] = ["", "ja", "en", "de", "fr", "chs", "cht", "ko"];

pub fn exd_filename(name: &str, lang: u8, start: u32) -> String {
    if lang == 0 {
        format!("{}_{}.exd", name, start)
    } else {
        format!("{}_{}_{}.exd", name, start, LANG_CODES[lang as usize])
    }
}

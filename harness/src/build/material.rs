//! MTRL and SHPK encoders written from the format grammar.
use super::W;
use serde::{Deserialize, Serialize};

pub const SAMPLER_USAGES: [(u32, &str); 22] = [
    (0x88408C04, "Sampler"),
    (0x213CB439, "Sampler0"),
    (0x563B84AF, "Sampler1"),
    (0xFEA0F3D2, "SamplerCatchlight"),
    (0x1E6FEF9C, "SamplerColorMap0"),
    (0x6968DF0A, "SamplerColorMap1"),
    (0x115306BE, "SamplerDiffuse"),
    (0xF8D7957A, "SamplerEnvMap"),
    (0x8A4E82B6, "SamplerMask"),
    (0x0C5EC1F1, "SamplerNormal"),
    (0xAAB4D9E9, "SamplerNormalMap0"),
    (0xDDB3E97F, "SamplerNormalMap1"),
    (0x87F6474D, "SamplerReflection"),
    (0x2B99E025, "SamplerSpecular"),
    (0x1BBC2F12, "SamplerSpecularMap0"),
    (0x6CBB1F84, "SamplerSpecularMap1"),
    (0xE6321AFC, "SamplerWaveMap"),
    (0x574E22D6, "SamplerWaveletMap0"),
    (0x20491240, "SamplerWaveletMap1"),
    (0x95E1F64D, "SamplerWhitecapMap"),
    (0x565f8fd8, "UnknownDawntrail1"),
    (0xe5338c17, "UnknownDawntrail2"),
];

#[derive(Clone, Debug, Serialize, Deserialize)]
pub struct MtrlSpec {
    pub version: u32,
    pub shader_package: String,
    pub textures: Vec<String>,
    pub uv_sets: Vec<(u16, u16)>,
    pub color_sets: Vec<(u16, u16)>,
    pub extra_strings: Vec<String>,
    /// 0 none, 1 legacy dims 0, 2 legacy dims 0x42, 3 Dawntrail 0x53
    pub table: u8,
    pub dye: bool,
    /// 16*16 (legacy) or 32*32 (Dawntrail) half patterns
    pub table_halves: Vec<u16>,
    /// 16 x u16 (legacy) or 32 x u32 (Dawntrail)
    pub dye_words: Vec<u32>,
    pub additional_extra: u8,
    pub flag_noise: u32,
    pub keys: Vec<(u32, u32)>,
    /// (id, float bit patterns 1..4)
    pub constants: Vec<(u32, Vec<u32>)>,
    /// (usage index, flags, texture index, 3 unknown bytes)
    pub samplers: Vec<(u8, u32, u8, [u8; 3])>,
    pub header_flags: u32,
    /// unused floats in front of / between constant values
    pub value_gap: u8,
}

/// low nibble of the dimension byte of table kind 4: every value but 3 (0x53 is the Dawntrail colour table), the
/// range's upper end twice as likely
pub fn opaque_dims_nibble(noise: u32) -> u32 {
    [0u32, 1, 2, 4, 5, 6, 7, 8, 9, 10, 11, 12, 13, 14, 15, 15][(noise >> 28) as usize]
}

pub fn table_rows(table: u8) -> usize {
    match table {
        1 | 2 => 16,
        3 => 32,
        _ => 0,
    }
}

pub fn encode_mtrl(m: &MtrlSpec) -> Vec<u8> {
    // strings: texture paths first, in order, then everything else
    let mut strings = vec![];
    let mut tex_offsets = vec![];
    for t in &m.textures {
        // an entry of the texture table is { u16 offset, u16 flags } (Lumina: TextureOffset); half of the entries carry
        // flags (0x8000 as on Dawntrail textures, or another bit)
        let i = tex_offsets.len() as u32;
        let flags: u32 = if (m.flag_noise >> (8 + i)) & 1 == 1 { 0x8000 } else if (m.flag_noise >> (14 + i)) & 1 == 1 { 1 << (i + (m.flag_noise >> 20) % 8) } else { 0 };
        tex_offsets.push(strings.len() as u32 | flags << 16);
        strings.extend_from_slice(t.as_bytes());
        strings.push(0);
    }
    for (i, e) in m.extra_strings.iter().enumerate() {
        if i % 2 == 0 {
            strings.extend_from_slice(e.as_bytes());
            strings.push(0);
        }
    }
    let shpk_offset = strings.len() as u16;
    strings.extend_from_slice(m.shader_package.as_bytes());
    strings.push(0);
    for (i, e) in m.extra_strings.iter().enumerate() {
        if i % 2 == 1 {
            strings.extend_from_slice(e.as_bytes());
            strings.push(0);
        }
    }
    // retail files pad the string table to four bytes; its size field can say anything, and a quarter of the generated tables
    // end with their last terminator
    while strings.len() % 4 != 0 && (m.flag_noise >> 24) % 4 != 3 {
        strings.push(0);
    }
    let dims: u32 = match m.table {
        2 => 0x42,
        3 | 6 => 0x53,
        // any other dimension byte 0x50..=0x5F: a colour table the reader keeps opaque (no rows) and a 32-row dye table
        4 => 0x50 | opaque_dims_nibble(m.flag_noise),
        _ => 0,
    };
    let mut flags = (m.flag_noise & 0xFFFF_F003) | (dims << 4);
    if m.table != 0 {
        // kinds 5 and 6: the dye-table bit without the colour-table bit
        if m.table < 5 {
            flags |= 0x4;
        }
        if m.dye {
            flags |= 0x8;
        }
    }
    let rows = table_rows(m.table);
    let mut body = W::new();
    if m.table != 0 {
        for h in m.table_halves.iter().take(rows * rows) {
            body.u16(*h);
        }
        if m.dye {
            for d in m.dye_words.iter().take(match m.table {
                4 | 6 => 32,
                5 => 16,
                _ => rows,
            }) {
                if m.table >= 3 && m.table != 5 {
                    body.u32(*d);
                } else {
                    body.u16(*d as u16);
                }
            }
        }
    }
    // shader values
    let mut values: Vec<u32> = vec![];
    let mut constant_recs = vec![];
    for (id, vals) in &m.constants {
        for g in 0..m.value_gap {
            values.push(0x7F00_0000 | g as u32);
        }
        constant_recs.push((*id, (values.len() * 4) as u16, (vals.len() * 4) as u16));
        values.extend_from_slice(vals);
    }
    let mut w = W::new();
    let additional = 4 + m.additional_extra as usize;
    w.u32(m.version);
    w.u16(0); // file size patched below
    w.u16(body.len() as u16);
    w.u16(strings.len() as u16);
    w.u16(shpk_offset);
    w.u8(m.textures.len() as u8).u8(m.uv_sets.len() as u8).u8(m.color_sets.len() as u8).u8(additional as u8);
    for o in &tex_offsets {
        w.u32(*o);
    }
    for (a, b) in m.uv_sets.iter().chain(m.color_sets.iter()) {
        w.u16(*a).u16(*b);
    }
    w.bytes(&strings);
    w.u32(flags);
    for k in 0..m.additional_extra {
        w.u8(0xC0 | k);
    }
    w.bytes(&body.b);
    w.u16((values.len() * 4) as u16).u16(m.keys.len() as u16).u16(m.constants.len() as u16).u16(m.samplers.len() as u16).u32(m.header_flags);
    for (c, v) in &m.keys {
        w.u32(*c).u32(*v);
    }
    for (id, off, size) in &constant_recs {
        w.u32(*id).u16(*off).u16(*size);
    }
    for (u, f, t, unk) in &m.samplers {
        w.u32(SAMPLER_USAGES[*u as usize % 22].0).u32(*f).u8(*t).bytes(unk);
    }
    for v in &values {
        w.u32(*v);
    }
    let len = w.len() as u16;
    w.set_u16(4, len);
    w.b
}

// ------------------------------------------------------------------------------------------------

#[derive(Clone, Debug, Serialize, Deserialize)]
pub struct ParamSpec {
    pub id: u32,
    pub name: String,
    pub unknown: u16,
    pub slot: u16,
    pub size: u16,
}

#[derive(Clone, Debug, Serialize, Deserialize)]
pub struct ShaderSpec {
    pub scalars: Vec<ParamSpec>,
    pub resources: Vec<ParamSpec>,
    pub uavs: Vec<ParamSpec>,
    pub textures: Vec<ParamSpec>,
    /// the whole blob; for vertex shaders the first 8 bytes are the additional header
    pub blob_seed: u64,
    pub blob_len: u16,
}

#[derive(Clone, Debug, Serialize, Deserialize)]
pub struct NodeSpec {
    pub selector: u32,
    pub pass_indices: [u8; 16],
    pub system_keys: Vec<u32>,
    pub scene_keys: Vec<u32>,
    pub material_keys: Vec<u32>,
    pub subview_keys: [u32; 2],
    pub passes: Vec<(u32, u32, u32)>,
}

#[derive(Clone, Debug, Serialize, Deserialize)]
pub struct ShpkSpec {
    pub version: u32,
    pub dx11: bool,
    pub vertex: Vec<ShaderSpec>,
    pub pixel: Vec<ShaderSpec>,
    /// (id, byte offset, byte size)
    pub material_params: Vec<(u32, u16, u16)>,
    pub material_params_size: u32,
    pub defaults: Option<Vec<u32>>,
    pub scalars: Vec<ParamSpec>,
    pub samplers: Vec<ParamSpec>,
    pub textures: Vec<ParamSpec>,
    pub uavs: Vec<ParamSpec>,
    pub system_keys: Vec<(u32, u32)>,
    pub scene_keys: Vec<(u32, u32)>,
    pub material_keys: Vec<(u32, u32)>,
    pub subview_defaults: (u32, u32),
    pub nodes: Vec<NodeSpec>,
    /// (selector, node index)
    pub aliases: Vec<(u32, u32)>,
    /// bytes after the string heap
    pub trailing: u16,
    /// share identical names in the heap
    pub dedup_names: bool,
}

pub fn blob(seed: u64, len: usize) -> Vec<u8> {
    super::mdl::random_bytes(seed, len)
}

pub fn encode_shpk(s: &ShpkSpec) -> Vec<u8> {
    // string heap
    let mut heap: Vec<u8> = vec![];
    let mut seen: std::collections::HashMap<String, u32> = std::collections::HashMap::new();
    // names are addressed by (offset, length): a quarter of the packages store a name that is the front of an already
    // stored one only once, another quarter store the names back to back without terminators
    let packing = s.trailing % 4;
    let mut name_off = |n: &str, heap: &mut Vec<u8>| -> u32 {
        if s.dedup_names {
            if let Some(o) = seen.get(n) {
                return *o;
            }
        }
        if packing == 2 && !n.is_empty() {
            if let Some((_, o)) = seen.iter().filter(|(k, _)| k.starts_with(n)).min_by_key(|(_, o)| **o) {
                return *o;
            }
        }
        let o = heap.len() as u32;
        heap.extend_from_slice(n.as_bytes());
        if packing != 3 {
            heap.push(0);
        }
        seen.insert(n.to_string(), o);
        o
    };
    let mut param = |w: &mut W, p: &ParamSpec, heap: &mut Vec<u8>| {
        let o = name_off(&p.name, heap);
        w.u32(p.id).u32(o).u16(p.name.len() as u16).u16(p.unknown).u16(p.slot).u16(p.size);
    };
    // blobs
    let mut blobs: Vec<u8> = vec![];
    let mut tables = W::new();
    for sh in s.vertex.iter().chain(s.pixel.iter()) {
        let b = blob(sh.blob_seed, sh.blob_len as usize);
        tables.u32(blobs.len() as u32).u32(b.len() as u32);
        tables.u16(sh.scalars.len() as u16).u16(sh.resources.len() as u16).u16(sh.uavs.len() as u16).u16(sh.textures.len() as u16);
        for p in sh.scalars.iter().chain(&sh.resources).chain(&sh.uavs).chain(&sh.textures) {
            param(&mut tables, p, &mut heap);
        }
        blobs.extend_from_slice(&b);
    }
    for (id, off, size) in &s.material_params {
        tables.u32(*id).u16(*off).u16(*size);
    }
    if let Some(d) = &s.defaults {
        for k in 0..(s.material_params_size >> 2) as usize {
            tables.u32(d.get(k).copied().unwrap_or(k as u32));
        }
    }
    for p in s.scalars.iter().chain(&s.samplers).chain(&s.textures).chain(&s.uavs) {
        param(&mut tables, p, &mut heap);
    }
    for (id, d) in s.system_keys.iter().chain(&s.scene_keys).chain(&s.material_keys) {
        tables.u32(*id).u32(*d);
    }
    tables.u32(s.subview_defaults.0).u32(s.subview_defaults.1);
    for n in &s.nodes {
        tables.u32(n.selector).u32(n.passes.len() as u32).bytes(&n.pass_indices);
        for k in n.system_keys.iter().chain(&n.scene_keys).chain(&n.material_keys).chain(n.subview_keys.iter()) {
            tables.u32(*k);
        }
        for (a, b, c) in &n.passes {
            tables.u32(*a).u32(*b).u32(*c);
        }
    }
    for (sel, node) in &s.aliases {
        tables.u32(*sel).u32(*node);
    }
    let header_len = 4 + 4 + 4 + 4 * 3 + 4 * 2 + 4 + 2 * 8 + 4 * 5;
    let shader_data_offset = (header_len + tables.len()) as u32;
    let strings_offset = shader_data_offset + blobs.len() as u32;
    let total = strings_offset as usize + heap.len() + s.trailing as usize;
    let mut w = W::new();
    w.bytes(b"ShPk").u32(s.version);
    w.bytes(if s.dx11 { b"DX11" } else { b"DX9\0" });
    w.u32(total as u32).u32(shader_data_offset).u32(strings_offset);
    w.u32(s.vertex.len() as u32).u32(s.pixel.len() as u32);
    w.u32(s.material_params_size).u16(s.material_params.len() as u16).u16(s.defaults.is_some() as u16);
    w.u16(s.scalars.len() as u16).u16(0x1111).u16(s.samplers.len() as u16).u16(s.textures.len() as u16).u16(s.uavs.len() as u16).u16(0x2222);
    w.u32(s.system_keys.len() as u32).u32(s.scene_keys.len() as u32).u32(s.material_keys.len() as u32).u32(s.nodes.len() as u32).u32(s.aliases.len() as u32);
    assert_eq!(w.len(), header_len);
    w.bytes(&tables.b).bytes(&blobs).bytes(&heap);
    for k in 0..s.trailing {
        w.u8(0xEE ^ k as u8);
    }
    w.b
}

//! Raw deflate streams from miniz_oxide (independent of the zlib-rs Physis inflates with), in three
//! forced shapes, plus a hand-written stored-block encoder as a second source.
use miniz_oxide::deflate::core::{compress, create_comp_flags_from_zip_params, deflate_flags, CompressorOxide, TDEFLFlush, TDEFLStatus};
use serde::{Deserialize, Serialize};

#[derive(Clone, Copy, Debug, PartialEq, Eq, Serialize, Deserialize)]
pub enum Mode {
    /// not deflated at all (block marker 32000)
    Raw,
    /// deflate stream of stored blocks, hand-written
    StoredHand,
    /// deflate stream of stored blocks, miniz level 0
    Stored,
    /// fixed Huffman blocks only
    Fixed,
    /// dynamic Huffman (level 6)
    Dynamic,
    /// dynamic Huffman (level 9)
    Best,
}

pub const MODES: [Mode; 6] = [Mode::Raw, Mode::StoredHand, Mode::Stored, Mode::Fixed, Mode::Dynamic, Mode::Best];

fn with_flags(data: &[u8], flags: u32) -> Vec<u8> {
    let mut c = CompressorOxide::new(flags);
    let mut out = vec![0u8; data.len() + data.len() / 2 + 256];
    let (status, consumed, written) = compress(&mut c, data, &mut out, TDEFLFlush::Finish);
    assert_eq!(status, TDEFLStatus::Done, "miniz_oxide did not finish");
    assert_eq!(consumed, data.len());
    out.truncate(written);
    out
}

fn stored_by_hand(data: &[u8]) -> Vec<u8> {
    let mut out = Vec::new();
    if data.is_empty() {
        out.extend_from_slice(&[1, 0, 0, 0xff, 0xff]);
        return out;
    }
    let chunks: Vec<&[u8]> = data.chunks(65535).collect();
    for (i, c) in chunks.iter().enumerate() {
        out.push(if i + 1 == chunks.len() { 1 } else { 0 });
        let l = c.len() as u16;
        out.extend_from_slice(&l.to_le_bytes());
        out.extend_from_slice(&(!l).to_le_bytes());
        out.extend_from_slice(c);
    }
    out
}

/// Raw deflate stream (no zlib header) of `data` in the requested shape. `Raw` returns the data unchanged.
pub fn deflate(data: &[u8], mode: Mode) -> Vec<u8> {
    match mode {
        Mode::Raw => data.to_vec(),
        Mode::StoredHand => stored_by_hand(data),
        Mode::Stored => with_flags(data, create_comp_flags_from_zip_params(0, -15, 0)),
        Mode::Fixed => with_flags(data, create_comp_flags_from_zip_params(6, -15, 0) | deflate_flags::TDEFL_FORCE_ALL_STATIC_BLOCKS),
        Mode::Dynamic => with_flags(data, create_comp_flags_from_zip_params(6, -15, 0)),
        Mode::Best => with_flags(data, create_comp_flags_from_zip_params(9, -15, 0)),
    }
}

/// sanity: every shape inflates back with miniz's own inflater
pub fn self_check() -> Result<(), String> {
    let data: Vec<u8> = (0..5000u32).map(|i| ((i * 7) % 251) as u8).collect();
    for m in MODES {
        if m == Mode::Raw {
            continue;
        }
        let d = deflate(&data, m);
        let back = miniz_oxide::inflate::decompress_to_vec(&d).map_err(|e| format!("{:?}: {:?}", m, e))?;
        if back != data {
            return Err(format!("deflate self-check {:?}", m));
        }
    }
    Ok(())
}

//! Raw deflate streams from miniz_oxide (independent of the zlib-rs Physis inflates with), in three
//! forced shapes, plus a hand-written stored-block encoder as a second source.
use miniz_oxide::deflate::core::{compress, create_comp_flags_from_zip_params, deflate_flags, CompressorOxide, TDEFLFlush, TDEFLStatus};
use serde::{Deserialize, Serialize};

#[derive(Clone, Copy, Debug, PartialEq, Eq, Serialize, Deserialize)]
pub enum Mode {
    /// not deflated at all (block marker 32000)
    Raw,
    /// deflate stream of stored blocks, hand-written
    StoredHand,
    /// deflate stream of stored blocks, miniz level 0
    Stored,
    /// fixed Huffman blocks only
    Fixed,
    /// dynamic Huffman (level 6)
    Dynamic,
    /// dynamic Huffman (level 9)
    Best,
    /// deflate stream cut into several stored blocks (what a packer with a small pending buffer, or one that caps its stored
    /// blocks, emits): only the last block carries the final bit
    StoredPieces,
    /// several deflate blocks in one stream: Huffman block, empty stored block of a sync flush, Huffman block ...
    Flushed,
}

pub const MODES: [Mode; 8] = [Mode::Raw, Mode::StoredHand, Mode::Stored, Mode::Fixed, Mode::Dynamic, Mode::Best, Mode::StoredPieces, Mode::Flushed];

fn with_flags(data: &[u8], flags: u32) -> Vec<u8> {
    let mut c = CompressorOxide::new(flags);
    let mut out = vec![0u8; data.len() + data.len() / 2 + 256];
    let (status, consumed, written) = compress(&mut c, data, &mut out, TDEFLFlush::Finish);
    assert_eq!(status, TDEFLStatus::Done, "miniz_oxide did not finish");
    assert_eq!(consumed, data.len());
    out.truncate(written);
    out
}

fn stored_by_hand(data: &[u8]) -> Vec<u8> {
    stored_in_pieces(data, 65535)
}

/// 2..4 pieces, fed to one compressor with a sync flush behind each but the last
fn flushed(data: &[u8]) -> Vec<u8> {
    let mut c = CompressorOxide::new(create_comp_flags_from_zip_params(6, -15, 0));
    let mut out = vec![0u8; data.len() + data.len() / 2 + 512];
    let pieces = 2 + data.len() % 3;
    let step = data.len() / pieces + 1;
    let (mut pos, mut written_total) = (0usize, 0usize);
    loop {
        let end = (pos + step).min(data.len());
        let last = end == data.len();
        let (status, consumed, written) = compress(&mut c, &data[pos..end], &mut out[written_total..], if last { TDEFLFlush::Finish } else { TDEFLFlush::Sync });
        assert!(status == TDEFLStatus::Done || status == TDEFLStatus::Okay, "miniz_oxide failed");
        assert_eq!(consumed, end - pos);
        written_total += written;
        pos = end;
        if last {
            assert_eq!(status, TDEFLStatus::Done, "miniz_oxide did not finish");
            break;
        }
    }
    out.truncate(written_total);
    out
}

fn stored_in_pieces(data: &[u8], piece: usize) -> Vec<u8> {
    let mut out = Vec::new();
    if data.is_empty() {
        out.extend_from_slice(&[1, 0, 0, 0xff, 0xff]);
        return out;
    }
    let chunks: Vec<&[u8]> = data.chunks(piece).collect();
    for (i, c) in chunks.iter().enumerate() {
        out.push(if i + 1 == chunks.len() { 1 } else { 0 });
        let l = c.len() as u16;
        out.extend_from_slice(&l.to_le_bytes());
        out.extend_from_slice(&(!l).to_le_bytes());
        out.extend_from_slice(c);
    }
    out
}

/// Raw deflate stream (no zlib header) of `data` in the requested shape. `Raw` returns the data unchanged.
pub fn deflate(data: &[u8], mode: Mode) -> Vec<u8> {
    match mode {
        Mode::Raw => data.to_vec(),
        Mode::StoredHand => stored_by_hand(data),
        Mode::Stored => with_flags(data, create_comp_flags_from_zip_params(0, -15, 0)),
        Mode::Fixed => with_flags(data, create_comp_flags_from_zip_params(6, -15, 0) | deflate_flags::TDEFL_FORCE_ALL_STATIC_BLOCKS),
        Mode::Dynamic => with_flags(data, create_comp_flags_from_zip_params(6, -15, 0)),
        Mode::Best => with_flags(data, create_comp_flags_from_zip_params(9, -15, 0)),
        // piece length 1..=500, a function of the data so that equal data gives equal bytes
        Mode::StoredPieces => stored_in_pieces(data, 1 + (data.len() * 7 + data.first().copied().unwrap_or(0) as usize) % 500),
        Mode::Flushed => flushed(data),
    }
}

/// sanity: every shape inflates back with miniz's own inflater
pub fn self_check() -> Result<(), String> {
    let data: Vec<u8> = (0..5000u32).map(|i| ((i * 7) % 251) as u8).collect();
    for m in MODES {
        if m == Mode::Raw {
            continue;
        }
        let d = deflate(&data, m);
        let back = miniz_oxide::inflate::decompress_to_vec(&d).map_err(|e| format!("{:?}: {:?}", m, e))?;
        if back != data {
            return Err(format!("deflate self-check {:?}", m));
        }
    }
    Ok(())
}

//! MDL encoder (versions 5 and 6) written from the format grammar, plus the independent decode of the
//! generated geometry that serves as the oracle for C06/C07.
use super::W;
use crate::engine::util::splitmix64;
use crate::oracle::half::half_to_f32;
use serde::{Deserialize, Serialize};

pub const T_SINGLE3: u8 = 2;
pub const T_SINGLE4: u8 = 3;
pub const T_BYTE4: u8 = 5;
pub const T_BYTEFLOAT4: u8 = 8;
pub const T_HALF2: u8 = 13;
pub const T_HALF4: u8 = 14;
pub const T_USHORT4: u8 = 17;

pub const U_POSITION: u8 = 0;
pub const U_BLENDWEIGHTS: u8 = 1;
pub const U_BLENDINDICES: u8 = 2;
pub const U_NORMAL: u8 = 3;
pub const U_UV: u8 = 4;
pub const U_TANGENT: u8 = 5;
pub const U_BITANGENT: u8 = 6;
pub const U_COLOR: u8 = 7;

/// (usage, type) pairs the reader's switch supports
pub const READ_PAIRS: [(u8, u8); 17] = [
    (U_POSITION, T_SINGLE3),
    (U_POSITION, T_SINGLE4),
    (U_POSITION, T_HALF4),
    (U_BLENDWEIGHTS, T_BYTEFLOAT4),
    (U_BLENDWEIGHTS, T_BYTE4),
    (U_BLENDWEIGHTS, T_USHORT4),
    (U_BLENDINDICES, T_BYTE4),
    (U_BLENDINDICES, T_USHORT4),
    (U_NORMAL, T_HALF4),
    (U_NORMAL, T_SINGLE3),
    (U_UV, T_BYTEFLOAT4),
    (U_UV, T_HALF4),
    (U_UV, T_SINGLE4),
    (U_UV, T_HALF2),
    (U_TANGENT, T_BYTEFLOAT4),
    (U_BITANGENT, T_BYTEFLOAT4),
    (U_COLOR, T_BYTEFLOAT4),
];

/// (usage, type) pairs the writer implements with a well-defined encoding
pub const WRITE_PAIRS: [(u8, u8); 11] = [
    (U_POSITION, T_SINGLE3),
    (U_POSITION, T_SINGLE4),
    (U_POSITION, T_HALF4),
    (U_BLENDWEIGHTS, T_BYTEFLOAT4),
    (U_BLENDINDICES, T_BYTE4),
    (U_NORMAL, T_HALF4),
    (U_NORMAL, T_SINGLE3),
    (U_UV, T_HALF4),
    (U_UV, T_SINGLE4),
    (U_BITANGENT, T_BYTEFLOAT4),
    (U_COLOR, T_BYTEFLOAT4),
];

pub fn type_size(t: u8) -> usize {
    match t {
        T_SINGLE3 => 12,
        T_SINGLE4 => 16,
        T_BYTE4 | T_BYTEFLOAT4 | T_HALF2 => 4,
        T_HALF4 | T_USHORT4 => 8,
        _ => panic!("type"),
    }
}

pub fn pair_name(u: u8, t: u8) -> String {
    let un = ["Position", "BlendWeights", "BlendIndices", "Normal", "UV", "Tangent", "BiTangent", "Color"][u as usize];
    let tn = match t {
        T_SINGLE3 => "Single3",
        T_SINGLE4 => "Single4",
        T_BYTE4 => "Byte4",
        T_BYTEFLOAT4 => "ByteFloat4",
        T_HALF2 => "Half2",
        T_HALF4 => "Half4",
        _ => "UShort4",
    };
    format!("{}/{}", un, tn)
}

#[derive(Clone, Debug, Serialize, Deserialize, PartialEq)]
pub struct Element {
    pub stream: u8,
    pub offset: u8,
    pub ty: u8,
    pub usage: u8,
    pub usage_index: u8,
}

#[derive(Clone, Debug, Serialize, Deserialize)]
pub struct MeshSpec {
    pub elements: Vec<Element>,
    pub strides: [u8; 3],
    pub stream_count: u8,
    pub vertex_count: u16,
    /// raw bytes of each stream (stride * vertex_count)
    pub streams: [Vec<u8>; 3],
    /// gap (bytes) in front of each stream inside the LOD's vertex section
    pub stream_gaps: [u8; 3],
    pub indices: Vec<u16>,
    pub material_index: u16,
    /// contiguous sub-mesh split: index counts (sum = indices.len()), attribute mask, bone start, bone count
    pub submeshes: Vec<(u32, u32, u16, u16)>,
    pub bone_table_index: u16,
}

#[derive(Clone, Debug, Serialize, Deserialize)]
pub struct ShapeSpec {
    pub name: String,
    /// per LOD: shape meshes (mesh index inside the LOD, values = (base index relative to mesh, replacing vertex))
    pub lods: [Vec<(u16, Vec<(u16, u16)>)>; 3],
}

#[derive(Clone, Debug, Serialize, Deserialize)]
pub struct ModelSpec {
    pub version: u32,
    pub lods: Vec<Vec<MeshSpec>>,
    pub materials: Vec<String>,
    pub bones: Vec<String>,
    pub attributes: Vec<String>,
    pub extra_strings: Vec<String>,
    /// v5: up to 64 indices each; v6: any length
    pub bone_tables: Vec<Vec<u16>>,
    pub shapes: Vec<ShapeSpec>,
    pub element_ids: u8,
    pub bone_map: Vec<u16>,
    pub padding: u8,
    pub flags1_bit: u8,
    pub flags2_bit: u8,
    pub seed: u64,
    /// gap between the end of the runtime block and the first vertex section / between sections (bytes, C06 only)
    pub section_gap: u8,
    pub has_flags: (bool, bool),
    /// != 0: the two offset copies the reader does not use (the file header's vertex offsets and the LOD records'
    /// index offsets) are shifted by 64 x this many bytes, so that they disagree with the copies it does use
    #[serde(default)]
    pub skew_unused_copies: u8,
    /// terrain shadow tables (background models): number of 20-byte mesh records stored between the attribute
    /// offsets and the sub-mesh table, and of 12-byte sub-mesh records stored behind the sub-mesh table
    #[serde(default)]
    pub ts_meshes: u8,
    #[serde(default)]
    pub ts_submeshes: u16,
    /// physical order of the geometry sections behind the runtime block (section 2l = LOD l vertex, 2l+1 = LOD l
    /// index); empty = v0, i0, v1, i1, v2, i2. Every section is addressed by its own offset.
    #[serde(default)]
    pub section_order: Vec<usize>,
    /// meshes of the mesh table that belong to no LOD's main range: they sit behind LOD 0's meshes and are listed as LOD 0's
    /// shadow meshes, so the later LODs' first mesh is not the sum of the earlier mesh counts
    #[serde(default)]
    pub orphan_meshes: u8,
}

#[derive(Clone, Debug, PartialEq)]
pub struct ExpVertex {
    pub position: [f32; 3],
    pub uv0: [f32; 2],
    pub uv1: [f32; 2],
    pub normal: [f32; 3],
    pub bitangent: [f32; 4],
    pub color: [f32; 4],
    pub bone_weight: Option<[f32; 4]>,
    pub bone_id: Option<[u8; 4]>,
    /// a second UV element (usage index 1) is declared: which set it belongs to is not pinned, so the first pair
    /// is not asserted - but the second pair of the preceding four-component element must survive it
    pub uv0_open: bool,
}

#[derive(Clone, Debug)]
pub struct ExpPart {
    pub vertices: Vec<ExpVertex>,
    pub indices: Vec<u16>,
    /// (index_count, index_offset)
    pub submeshes: Vec<(u32, u32)>,
    pub streams: Vec<Vec<u8>>,
    pub strides: Vec<usize>,
    pub material_index: u16,
    pub shape_names: Vec<String>,
    pub start_index: u32,
}

#[derive(Clone, Debug)]
pub struct Expected {
    pub lods: Vec<Vec<ExpPart>>,
    pub materials: Vec<String>,
    pub bones: Vec<String>,
}

fn rd_f32(b: &[u8], at: usize) -> f32 {
    f32::from_le_bytes([b[at], b[at + 1], b[at + 2], b[at + 3]])
}
fn rd_half(b: &[u8], at: usize) -> f32 {
    half_to_f32(u16::from_le_bytes([b[at], b[at + 1]]))
}
fn byte_float(b: u8) -> f32 {
    b as f32 / 255.0
}
fn tangent_xyz(b: u8) -> f32 {
    b as f32 * 2.0 / 255.0 - 1.0
}

/// Independent decode of one vertex from the raw stream bytes.
pub fn decode_vertex(m: &MeshSpec, k: usize) -> ExpVertex {
    let mut v = ExpVertex { position: [0.0; 3], uv0: [0.0; 2], uv1: [0.0; 2], normal: [0.0; 3], bitangent: [0.0; 4], color: [0.0; 4], bone_weight: Some([0.0; 4]), bone_id: Some([0; 4]), uv0_open: false };
    for e in &m.elements {
        let s = &m.streams[e.stream as usize];
        let at = m.strides[e.stream as usize] as usize * k + e.offset as usize;
        match (e.usage, e.ty) {
            (U_POSITION, T_SINGLE3) | (U_POSITION, T_SINGLE4) => v.position = [rd_f32(s, at), rd_f32(s, at + 4), rd_f32(s, at + 8)],
            (U_POSITION, T_HALF4) => v.position = [rd_half(s, at), rd_half(s, at + 2), rd_half(s, at + 4)],
            (U_BLENDWEIGHTS, T_BYTEFLOAT4) => v.bone_weight = Some([byte_float(s[at]), byte_float(s[at + 1]), byte_float(s[at + 2]), byte_float(s[at + 3])]),
            (U_BLENDWEIGHTS, _) => v.bone_weight = None, // provisional in the reader: not asserted
            (U_BLENDINDICES, T_BYTE4) => v.bone_id = Some([s[at], s[at + 1], s[at + 2], s[at + 3]]),
            (U_BLENDINDICES, _) => v.bone_id = None,
            (U_NORMAL, T_HALF4) => v.normal = [rd_half(s, at), rd_half(s, at + 2), rd_half(s, at + 4)],
            (U_NORMAL, T_SINGLE3) => v.normal = [rd_f32(s, at), rd_f32(s, at + 4), rd_f32(s, at + 8)],
            (U_UV, T_BYTEFLOAT4) => {
                v.uv0 = [byte_float(s[at]), byte_float(s[at + 1])];
                v.uv1 = [byte_float(s[at + 2]), byte_float(s[at + 3])];
            }
            (U_UV, T_HALF4) => {
                v.uv0 = [rd_half(s, at), rd_half(s, at + 2)];
                v.uv1 = [rd_half(s, at + 4), rd_half(s, at + 6)];
            }
            (U_UV, T_SINGLE4) => {
                v.uv0 = [rd_f32(s, at), rd_f32(s, at + 4)];
                v.uv1 = [rd_f32(s, at + 8), rd_f32(s, at + 12)];
            }
            (U_UV, T_HALF2) if e.usage_index > 0 => v.uv0_open = true,
            (U_UV, T_HALF2) => v.uv0 = [rd_half(s, at), rd_half(s, at + 2)],
            (U_TANGENT, _) => {}
            (U_BITANGENT, T_BYTEFLOAT4) => v.bitangent = [tangent_xyz(s[at]), tangent_xyz(s[at + 1]), tangent_xyz(s[at + 2]), if s[at + 3] == 255 { 1.0 } else { -1.0 }],
            (U_COLOR, T_BYTEFLOAT4) => v.color = [byte_float(s[at]), byte_float(s[at + 1]), byte_float(s[at + 2]), byte_float(s[at + 3])],
            _ => panic!("unsupported pair in generated model"),
        }
    }
    v
}

pub struct Built {
    pub bytes: Vec<u8>,
    pub expected: Expected,
    pub runtime_size: u32,
    pub stack_size: u32,
}

/// Encode the model. Layout: header, stack (declarations), runtime block, then per LOD the vertex
/// section followed by the (16-byte padded) index section.
pub fn encode(m: &ModelSpec) -> Built {
    let v6 = m.version >= 0x0100_0006;
    let orphan_spec = MeshSpec {
        elements: vec![Element { stream: 0, offset: 0, ty: 2, usage: 0, usage_index: 0 }],
        strides: [12, 0, 0],
        stream_count: 1,
        vertex_count: 0,
        streams: [vec![], vec![], vec![]],
        stream_gaps: [0; 3],
        indices: vec![],
        material_index: 0,
        submeshes: vec![],
        bone_table_index: 0,
    };
    let orphans = if m.lods.len() >= 2 { m.orphan_meshes as usize } else { 0 };
    let mut all_meshes: Vec<&MeshSpec> = vec![];
    for (l, lod) in m.lods.iter().enumerate() {
        all_meshes.extend(lod.iter());
        if l == 0 {
            for _ in 0..orphans {
                all_meshes.push(&orphan_spec);
            }
        }
    }
    // ---- string table
    let mut strings: Vec<u8> = vec![];
    let mut put = |s: &str, strings: &mut Vec<u8>| -> u32 {
        let off = strings.len() as u32;
        strings.extend_from_slice(s.as_bytes());
        strings.push(0);
        off
    };
    let mut extra = m.extra_strings.iter();
    if let Some(e) = extra.next() {
        put(e, &mut strings);
    }
    let attr_offs: Vec<u32> = m.attributes.iter().map(|s| put(s, &mut strings)).collect();
    let bone_offs: Vec<u32> = m.bones.iter().map(|s| put(s, &mut strings)).collect();
    if let Some(e) = extra.next() {
        put(e, &mut strings);
    }
    let mat_offs: Vec<u32> = m.materials.iter().map(|s| put(s, &mut strings)).collect();
    let shape_offs: Vec<u32> = m.shapes.iter().map(|s| put(&s.name, &mut strings)).collect();
    for e in extra {
        put(e, &mut strings);
    }
    let string_count = (m.attributes.len() + m.bones.len() + m.materials.len() + m.shapes.len() + m.extra_strings.len()) as u16;

    // ---- per-LOD geometry layout
    let mut lod_vertex: Vec<Vec<u8>> = vec![];
    let mut lod_index: Vec<Vec<u8>> = vec![];
    let mut mesh_records: Vec<(u32, [u32; 3])> = vec![]; // (start_index, stream offsets)
    let mut submesh_records: Vec<(u32, u32, u32, u16, u16)> = vec![];
    let mut mesh_submesh_index: Vec<u16> = vec![];
    let mut exp_lods: Vec<Vec<ExpPart>> = vec![];
    for lod in &m.lods {
        let mut vsec: Vec<u8> = vec![];
        let mut isec: Vec<u8> = vec![];
        let mut start_index = 0u32;
        let mut exp_parts = vec![];
        for mesh in lod {
            let mut offs = [0u32; 3];
            for s in 0..mesh.stream_count as usize {
                for g in 0..mesh.stream_gaps[s] {
                    vsec.push(0xE0 | g);
                }
                offs[s] = vsec.len() as u32;
                assert_eq!(mesh.streams[s].len(), mesh.strides[s] as usize * mesh.vertex_count as usize);
                vsec.extend_from_slice(&mesh.streams[s]);
            }
            mesh_records.push((start_index, offs));
            mesh_submesh_index.push(submesh_records.len() as u16);
            let mut so = start_index;
            let mut exp_sub = vec![];
            for (cnt, mask, bs, bc) in &mesh.submeshes {
                submesh_records.push((so, *cnt, *mask, *bs, *bc));
                exp_sub.push((*cnt, so));
                so += cnt;
            }
            for i in &mesh.indices {
                isec.extend_from_slice(&i.to_le_bytes());
            }
            exp_parts.push(ExpPart {
                vertices: (0..mesh.vertex_count as usize).map(|k| decode_vertex(mesh, k)).collect(),
                indices: mesh.indices.clone(),
                submeshes: exp_sub,
                streams: (0..mesh.stream_count as usize).map(|s| mesh.streams[s].clone()).collect(),
                strides: (0..mesh.stream_count as usize).map(|s| mesh.strides[s] as usize).collect(),
                material_index: mesh.material_index,
                shape_names: vec![],
                start_index,
            });
            start_index += mesh.indices.len() as u32;
        }
        while isec.len() % 16 != 0 {
            isec.push(0);
        }
        if exp_lods.is_empty() {
            for _ in 0..orphans {
                mesh_records.push((start_index, [0; 3]));
                mesh_submesh_index.push(submesh_records.len() as u16);
            }
        }
        lod_vertex.push(vsec);
        lod_index.push(isec);
        exp_lods.push(exp_parts);
    }

    // ---- shapes
    let mut shape_structs: Vec<(u32, [u16; 3], [u16; 3])> = vec![];
    let mut shape_meshes: Vec<(u32, u32, u32)> = vec![];
    let mut shape_values: Vec<(u16, u16)> = vec![];
    for (si, sh) in m.shapes.iter().enumerate() {
        let mut starts = [0u16; 3];
        let mut counts = [0u16; 3];
        for l in 0..3 {
            starts[l] = shape_meshes.len() as u16;
            if l >= m.lods.len() {
                continue;
            }
            for (mesh_in_lod, values) in &sh.lods[l] {
                let mi = *mesh_in_lod as usize % m.lods[l].len().max(1);
                if m.lods[l].is_empty() {
                    continue;
                }
                let part = &exp_lods[l][mi];
                let start = part.start_index;
                let mesh = &m.lods[l][mi];
                let mut emitted = 0u32;
                let voff = shape_values.len() as u32;
                // values are only attached to meshes that start at index 0 (see DESIGN.md soundness ledger)
                if start == 0 && !mesh.indices.is_empty() && mesh.vertex_count > 0 {
                    for (base, repl) in values {
                        let b = *base as usize % mesh.indices.len();
                        if (mesh.indices[b] as usize) < mesh.vertex_count as usize {
                            shape_values.push((b as u16, *repl % mesh.vertex_count));
                            emitted += 1;
                        }
                    }
                }
                shape_meshes.push((start, emitted, voff));
                counts[l] += 1;
            }
        }
        shape_structs.push((shape_offs[si], starts, counts));
    }
    // expected shape names per part, by the documented rule
    for l in 0..m.lods.len() {
        for (pi, part) in exp_lods[l].iter_mut().enumerate() {
            let icount = m.lods[l][pi].indices.len() as u32;
            for (si, (_, starts, counts)) in shape_structs.iter().enumerate() {
                let mut affected = false;
                for sm in shape_meshes.iter().skip(starts[l] as usize).take(counts[l] as usize) {
                    if sm.0 != part.start_index {
                        continue;
                    }
                    for sv in shape_values.iter().skip(sm.2 as usize).take(sm.1 as usize) {
                        if (sv.0 as u32) >= part.start_index && (sv.0 as u32) < part.start_index + icount {
                            affected = true;
                        }
                    }
                }
                if affected {
                    part.shape_names.push(m.shapes[si].name.clone());
                }
            }
        }
    }

    // ---- stack: declarations, one per mesh
    let mut stack = W::new();
    for mesh in &all_meshes {
        assert!(!mesh.elements.is_empty() && mesh.elements.len() <= 16);
        for e in &mesh.elements {
            stack.u8(e.stream).u8(e.offset).u8(e.ty).u8(e.usage).u8(e.usage_index).zeros(3);
        }
        stack.u8(0xFF).zeros(7);
        stack.zeros((17 - 1 - mesh.elements.len()) * 8);
    }
    let stack_size = stack.len() as u32;
    assert_eq!(stack_size as usize, all_meshes.len() * 136);

    // ---- runtime block (everything after the declarations up to the geometry)
    let build_runtime = |lod_recs: &[(u32, u32, u32, u32)]| -> Vec<u8> {
        let mut r = W::new();
        r.u16(string_count).zeros(2).u32(strings.len() as u32).bytes(&strings);
        r.f32(1.5 + (m.seed % 7) as f32);
        r.u16(all_meshes.len() as u16)
            .u16(m.attributes.len() as u16)
            .u16(submesh_records.len() as u16)
            .u16(m.materials.len() as u16)
            .u16(m.bones.len() as u16)
            .u16(m.bone_tables.len() as u16)
            .u16(shape_structs.len() as u16)
            .u16(shape_meshes.len() as u16)
            .u16(shape_values.len() as u16);
        r.u8(m.lods.len() as u8);
        r.u8(1u8 << (m.flags1_bit % 8));
        r.u16(m.element_ids as u16);
        r.u8(m.ts_meshes); // terrain shadow meshes
        r.u8(if m.flags2_bit % 9 == 8 { 0 } else { 1u8 << (m.flags2_bit % 9) });
        r.f32(100.0).f32(200.0);
        r.u16((m.seed >> 8) as u16);
        r.u16(m.ts_submeshes); // terrain shadow sub-meshes
        r.u8((m.seed >> 16) as u8).u8((m.seed >> 24) as u8).u8((m.seed >> 32) as u8).u8((m.seed >> 40) as u8);
        r.u16(1).u16(2).u16(3).zeros(6);
        for i in 0..m.element_ids as u32 {
            r.u32(i).u32(0);
            for k in 0..6 {
                r.f32(i as f32 + k as f32 * 0.25);
            }
        }
        // 3 LOD records
        let mut mesh_index = 0u16;
        for l in 0..3 {
            let count = if l < m.lods.len() { m.lods[l].len() as u16 } else { 0 };
            r.u16(mesh_index).u16(count);
            r.f32(10.0 * (l + 1) as f32).f32(5.0 * (l + 1) as f32);
            r.u16(mesh_index + count).u16(0); // water
            r.u16(mesh_index + count).u16(if l == 0 { orphans as u16 } else { 0 }); // shadow
            r.u16(0).u16(0); // terrain shadow
            r.u16(mesh_index + count).u16(0); // vertical fog
            let (vsize, isize_, voff, ioff) = lod_recs[l];
            r.u32(0).u32(ioff); // edge geometry size / offset
            r.u32(0).zeros(4); // polygon count
            r.u32(vsize).u32(isize_).u32(voff).u32(if count > 0 { ioff + 64 * m.skew_unused_copies as u32 } else { ioff });
            mesh_index += count;
            if l == 0 {
                mesh_index += orphans as u16;
            }
        }
        for (i, mesh) in all_meshes.iter().enumerate() {
            let (start, offs) = mesh_records[i];
            r.u16(mesh.vertex_count).zeros(2).u32(mesh.indices.len() as u32);
            r.u16(mesh.material_index).u16(mesh_submesh_index[i]).u16(mesh.submeshes.len() as u16);
            r.u16(mesh.bone_table_index).u32(start);
            r.u32(offs[0]).u32(offs[1]).u32(offs[2]);
            r.u8(mesh.strides[0]).u8(mesh.strides[1]).u8(mesh.strides[2]).u8(mesh.stream_count);
        }
        for o in &attr_offs {
            r.u32(*o);
        }
        for k in 0..m.ts_meshes as u32 {
            // index count, start index, vertex buffer offset, vertex count, sub-mesh index, sub-mesh count, stride, padding
            r.u32(900 + 7 * k).u32(31 * k + 5).u32(4000 + 16 * k).u16(300 + k as u16).u16(k as u16).u16(1).u8(8).u8(0);
        }
        for (off, cnt, mask, bs, bc) in &submesh_records {
            r.u32(*off).u32(*cnt).u32(*mask).u16(*bs).u16(*bc);
        }
        for k in 0..m.ts_submeshes as u32 {
            r.u32(77 + 13 * k).u32(600 + k).u16(k as u16).u16(0xEE00 | k as u16);
        }
        for o in &mat_offs {
            r.u32(*o);
        }
        for o in &bone_offs {
            r.u32(*o);
        }
        for t in &m.bone_tables {
            if v6 {
                r.zeros(2).u16(t.len() as u16);
                for b in t {
                    r.u16(*b);
                }
                if t.len() % 2 == 0 {
                    r.u16(0);
                }
            } else {
                for k in 0..64 {
                    r.u16(t.get(k).copied().unwrap_or(0));
                }
                r.u8(t.len().min(64) as u8).zeros(3);
            }
        }
        for (so, starts, counts) in &shape_structs {
            r.u32(*so);
            for s in starts {
                r.u16(*s);
            }
            for c in counts {
                r.u16(*c);
            }
        }
        for (a, b, c) in &shape_meshes {
            r.u32(*a).u32(*b).u32(*c);
        }
        for (a, b) in &shape_values {
            r.u16(*a).u16(*b);
        }
        if v6 {
            r.u16((m.bone_map.len() * 2) as u16);
        } else {
            r.u32((m.bone_map.len() * 2) as u32);
        }
        for b in &m.bone_map {
            r.u16(*b);
        }
        r.u8(m.padding);
        for k in 0..m.padding {
            r.u8(0xD0 ^ k);
        }
        for bb in 0..(4 + m.bones.len()) {
            for k in 0..8 {
                r.f32(bb as f32 * 10.0 + k as f32);
            }
        }
        r.b
    };
    let probe = build_runtime(&[(0, 0, 0, 0); 3]);
    let runtime_size = probe.len() as u32;
    let data_start = 0x44 + stack_size + runtime_size;
    let gap = m.section_gap as u32;
    let mut lod_recs = [(0u32, 0u32, 0u32, 0u32); 3];
    let nsec = 2 * m.lods.len();
    let order: Vec<usize> = if m.section_order.len() == nsec { m.section_order.clone() } else { (0..nsec).collect() };
    assert!({
        let mut o = order.clone();
        o.sort();
        o == (0..nsec).collect::<Vec<_>>()
    });
    let mut pos = data_start;
    for l in 0..m.lods.len() {
        lod_recs[l] = (lod_vertex[l].len() as u32, lod_index[l].len() as u32, 0, 0);
    }
    for &sec in &order {
        pos += gap;
        let l = sec / 2;
        if sec % 2 == 0 {
            lod_recs[l].2 = pos;
            pos += lod_vertex[l].len() as u32;
        } else {
            lod_recs[l].3 = pos;
            pos += lod_index[l].len() as u32;
        }
    }
    let runtime = build_runtime(&lod_recs);
    assert_eq!(runtime.len() as u32, runtime_size);

    let mut f = W::new();
    f.u32(m.version).u32(stack_size).u32(runtime_size).u16(all_meshes.len() as u16).u16(m.materials.len() as u16);
    for l in 0..3 {
        f.u32(if l < m.lods.len() { lod_recs[l].2 + 64 * m.skew_unused_copies as u32 } else { lod_recs[l].2 });
    }
    for l in 0..3 {
        f.u32(lod_recs[l].3);
    }
    for l in 0..3 {
        f.u32(lod_recs[l].0);
    }
    for l in 0..3 {
        f.u32(lod_recs[l].1);
    }
    f.u8(m.lods.len() as u8).u8(m.has_flags.0 as u8).u8(m.has_flags.1 as u8).u8(0);
    assert_eq!(f.len(), 0x44);
    f.bytes(&stack.b).bytes(&runtime);
    for &sec in &order {
        let l = sec / 2;
        for g in 0..gap {
            f.u8(if sec % 2 == 0 { 0xA0 } else { 0xB0 } | (g as u8 & 0xF));
        }
        if sec % 2 == 0 {
            assert_eq!(f.len() as u32, lod_recs[l].2);
            f.bytes(&lod_vertex[l]);
        } else {
            assert_eq!(f.len() as u32, lod_recs[l].3);
            f.bytes(&lod_index[l]);
        }
    }
    Built { bytes: f.b, expected: Expected { lods: exp_lods, materials: m.materials.clone(), bones: m.bones.clone() }, runtime_size, stack_size }
}

/// Deterministic pseudo-random bytes for vertex streams.
pub fn random_bytes(seed: u64, len: usize) -> Vec<u8> {
    let mut out = Vec::with_capacity(len + 8);
    let mut x = splitmix64(seed);
    while out.len() < len {
        x = splitmix64(x);
        out.extend_from_slice(&x.to_le_bytes());
    }
    out.truncate(len);
    out
}

//! Bit-at-a-time reflected CRC-32 (poly 0xEDB88320), no table.

fn crc_bits(init: u32, data: &[u8]) -> u32 {
    let mut c = init;
    for &b in data {
        c ^= b as u32;
        for _ in 0..8 {
            c = if c & 1 != 0 { (c >> 1) ^ 0xEDB8_8320 } else { c >> 1 };
        }
    }
    c
}

/// JAMCRC: init 0xFFFFFFFF, no final inversion.
pub fn jamcrc(data: &[u8]) -> u32 {
    crc_bits(0xFFFF_FFFF, data)
}

/// JAMCRC of the ASCII-lower-cased bytes (the SqPack path hash).
pub fn jamcrc_lower(s: &[u8]) -> u32 {
    let l: Vec<u8> = s.iter().map(|b| if b.is_ascii_uppercase() { b + 32 } else { *b }).collect();
    jamcrc(&l)
}

/// CRC-32 with zero initial value and no final XOR (the shader key hash).
pub fn crc32_init0(data: &[u8]) -> u32 {
    crc_bits(0, data)
}

pub fn self_check() -> Result<(), String> {
    let v = b"123456789";
    if jamcrc(v) != 0x340B_C6D9 {
        return Err(format!("jamcrc check value {:08x}", jamcrc(v)));
    }
    if crc32_init0(v) != 0x2DFD_2D88 {
        return Err(format!("crc32/init0 check value {:08x}", crc32_init0(v)));
    }
    // standard CRC-32 check value through the same core
    if !crc_bits(0xFFFF_FFFF, v) != 0xCBF4_3926 {
        return Err("crc32 check value".into());
    }
    Ok(())
}

//! IEEE 754 binary16 <-> f32 by bit manipulation.

pub fn half_to_f32(h: u16) -> f32 {
    let sign = ((h >> 15) & 1) as u32;
    let exp = ((h >> 10) & 0x1F) as u32;
    let man = (h & 0x3FF) as u32;
    let bits = if exp == 0 {
        if man == 0 {
            sign << 31
        } else {
            // subnormal: value = man * 2^-24
            let mut e = 0i32;
            let mut m = man;
            while m & 0x400 == 0 {
                m <<= 1;
                e += 1;
            }
            m &= 0x3FF;
            (sign << 31) | (((127 - 15 - e + 1) as u32) << 23) | (m << 13)
        }
    } else if exp == 31 {
        (sign << 31) | (0xFF << 23) | (man << 13)
    } else {
        (sign << 31) | ((exp + 127 - 15) << 23) | (man << 13)
    };
    f32::from_bits(bits)
}

pub fn is_nan(h: u16) -> bool {
    (h >> 10) & 0x1F == 31 && h & 0x3FF != 0
}

/// f32 -> half, exact only (returns None when the value is not exactly representable).
pub fn f32_to_half_exact(f: f32) -> Option<u16> {
    // search by construction: derive candidate then verify
    let bits = f.to_bits();
    let sign = ((bits >> 31) as u16) << 15;
    let exp = ((bits >> 23) & 0xFF) as i32;
    let man = bits & 0x7F_FFFF;
    let cand: u16 = if exp == 0xFF {
        if man == 0 { sign | 0x7C00 } else { return None }
    } else if exp == 0 && man == 0 {
        sign
    } else {
        let e = exp - 127 + 15;
        if e >= 31 {
            return None;
        } else if e <= 0 {
            // subnormal half
            let shift = 14 - e; // 13 + (1 - e)
            if shift > 24 { return None; }
            let full = man | 0x80_0000;
            if full & ((1u32 << shift) - 1) != 0 { return None; }
            sign | (full >> shift) as u16
        } else {
            if man & 0x1FFF != 0 { return None; }
            sign | ((e as u16) << 10) | (man >> 13) as u16
        }
    };
    if half_to_f32(cand).to_bits() == bits { Some(cand) } else { None }
}

pub fn self_check() -> Result<(), String> {
    for h in 0..=65535u16 {
        let f = half_to_f32(h);
        let exp = (h >> 10) & 0x1F;
        let man = (h & 0x3FF) as f32;
        let sign = if h & 0x8000 != 0 { -1.0f32 } else { 1.0 };
        if exp == 31 {
            if man == 0.0 {
                if f != sign * f32::INFINITY { return Err(format!("half inf {:04x}", h)); }
            } else if !f.is_nan() {
                return Err(format!("half nan {:04x}", h));
            }
            continue;
        }
        let expect = if exp == 0 { sign * man * (2.0f32).powi(-24) } else { sign * (1.0 + man / 1024.0) * (2.0f32).powi(exp as i32 - 15) };
        if f.to_bits() != expect.to_bits() {
            return Err(format!("half {:04x}: {} vs {}", h, f, expect));
        }
        if f32_to_half_exact(f) != Some(h) {
            return Err(format!("half exact inverse {:04x}", h));
        }
    }
    Ok(())
}

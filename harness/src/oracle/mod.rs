//! Independent reference implementations. Each has a self-check run at start-up; a self-check failure
//! is an infrastructure error (exit 2), never a violation.
pub mod bigpi;
pub mod blowfish;
pub mod crc;
pub mod half;
pub mod sha1;

pub fn self_check() -> Result<(), String> {
    crc::self_check()?;
    sha1::self_check()?;
    half::self_check()?;
    Ok(())
}

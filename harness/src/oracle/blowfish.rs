//! Textbook Blowfish (Schneier 1993): 16-round Feistel with explicit swaps; tables from pi at run time.
use std::sync::OnceLock;

pub struct Tables {
    pub p: [u32; 18],
    pub s: [[u32; 256]; 4],
}

pub fn pi_tables() -> &'static Tables {
    static T: OnceLock<Tables> = OnceLock::new();
    T.get_or_init(|| {
        let w = super::bigpi::pi_frac_words(18 + 1024);
        let mut p = [0u32; 18];
        p.copy_from_slice(&w[..18]);
        let mut s = [[0u32; 256]; 4];
        for i in 0..4 {
            s[i].copy_from_slice(&w[18 + 256 * i..18 + 256 * (i + 1)]);
        }
        Tables { p, s }
    })
}

pub struct Blowfish {
    p: [u32; 18],
    s: [[u32; 256]; 4],
}

impl Blowfish {
    /// Standard key schedule: the key bytes are cycled, big-endian into 32-bit words.
    pub fn new(key: &[u8]) -> Blowfish {
        let t = pi_tables();
        let mut b = Blowfish { p: t.p, s: t.s };
        let mut k = 0usize;
        for i in 0..18 {
            let mut d = 0u32;
            for _ in 0..4 {
                d = (d << 8) | key[k % key.len()] as u32;
                k += 1;
            }
            b.p[i] ^= d;
        }
        let (mut l, mut r) = (0u32, 0u32);
        for i in 0..9 {
            let (a, c) = b.enc(l, r);
            b.p[2 * i] = a;
            b.p[2 * i + 1] = c;
            l = a;
            r = c;
        }
        for i in 0..4 {
            for j in 0..128 {
                let (a, c) = b.enc(l, r);
                b.s[i][2 * j] = a;
                b.s[i][2 * j + 1] = c;
                l = a;
                r = c;
            }
        }
        b
    }

    fn f(&self, x: u32) -> u32 {
        let a = (x >> 24) as usize;
        let b = ((x >> 16) & 0xff) as usize;
        let c = ((x >> 8) & 0xff) as usize;
        let d = (x & 0xff) as usize;
        (self.s[0][a].wrapping_add(self.s[1][b]) ^ self.s[2][c]).wrapping_add(self.s[3][d])
    }

    pub fn enc(&self, mut xl: u32, mut xr: u32) -> (u32, u32) {
        for i in 0..16 {
            xl ^= self.p[i];
            xr ^= self.f(xl);
            std::mem::swap(&mut xl, &mut xr);
        }
        std::mem::swap(&mut xl, &mut xr);
        xr ^= self.p[16];
        xl ^= self.p[17];
        (xl, xr)
    }

    pub fn dec(&self, mut xl: u32, mut xr: u32) -> (u32, u32) {
        for i in (2..18).rev() {
            xl ^= self.p[i];
            xr ^= self.f(xl);
            std::mem::swap(&mut xl, &mut xr);
        }
        std::mem::swap(&mut xl, &mut xr);
        xr ^= self.p[1];
        xl ^= self.p[0];
        (xl, xr)
    }
}

pub fn self_check() -> Result<(), String> {
    let t = pi_tables();
    if t.p[0] != 0x243f6a88 || t.p[17] != 0x8979fb1b || t.s[0][0] != 0xd1310ba6 || t.s[3][255] != 0x3ac372e6 {
        return Err(format!("pi tables wrong: {:08x} {:08x} {:08x} {:08x}", t.p[0], t.p[17], t.s[0][0], t.s[3][255]));
    }
    // Schneier's ECB vectors (key, plaintext, ciphertext), big-endian words
    let vecs: [(u64, u64, u64); 6] = [
        (0x0000000000000000, 0x0000000000000000, 0x4EF997456198DD78),
        (0xFFFFFFFFFFFFFFFF, 0xFFFFFFFFFFFFFFFF, 0x51866FD5B85ECB8A),
        (0x3000000000000000, 0x1000000000000001, 0x7D856F9A613063F2),
        (0x1111111111111111, 0x1111111111111111, 0x2466DD878B963C9D),
        (0x0123456789ABCDEF, 0x1111111111111111, 0x61F9C3802281B096),
        (0xFEDCBA9876543210, 0x0123456789ABCDEF, 0x0ACEAB0FC6A0A28D),
    ];
    for (k, p, c) in vecs {
        let b = Blowfish::new(&k.to_be_bytes());
        let (l, r) = b.enc((p >> 32) as u32, p as u32);
        if ((l as u64) << 32 | r as u64) != c {
            return Err(format!("blowfish vector key {:016x}", k));
        }
        let (l2, r2) = b.dec(l, r);
        if ((l2 as u64) << 32 | r2 as u64) != p {
            return Err(format!("blowfish decrypt vector key {:016x}", k));
        }
    }
    Ok(())
}

//! Straight FIPS 180-4 SHA-1.

pub fn sha1(data: &[u8]) -> [u8; 20] {
    let mut h: [u32; 5] = [0x67452301, 0xEFCDAB89, 0x98BADCFE, 0x10325476, 0xC3D2E1F0];
    let ml = (data.len() as u64).wrapping_mul(8);
    let mut msg = data.to_vec();
    msg.push(0x80);
    while msg.len() % 64 != 56 {
        msg.push(0);
    }
    msg.extend_from_slice(&ml.to_be_bytes());
    let mut w = [0u32; 80];
    for chunk in msg.chunks(64) {
        for i in 0..16 {
            w[i] = u32::from_be_bytes([chunk[4 * i], chunk[4 * i + 1], chunk[4 * i + 2], chunk[4 * i + 3]]);
        }
        for i in 16..80 {
            w[i] = (w[i - 3] ^ w[i - 8] ^ w[i - 14] ^ w[i - 16]).rotate_left(1);
        }
        let (mut a, mut b, mut c, mut d, mut e) = (h[0], h[1], h[2], h[3], h[4]);
        for i in 0..80 {
            let (f, k) = match i {
                0..=19 => ((b & c) | (!b & d), 0x5A827999u32),
                20..=39 => (b ^ c ^ d, 0x6ED9EBA1),
                40..=59 => ((b & c) | (b & d) | (c & d), 0x8F1BBCDC),
                _ => (b ^ c ^ d, 0xCA62C1D6),
            };
            let t = a.rotate_left(5).wrapping_add(f).wrapping_add(e).wrapping_add(k).wrapping_add(w[i]);
            e = d;
            d = c;
            c = b.rotate_left(30);
            b = a;
            a = t;
        }
        h[0] = h[0].wrapping_add(a);
        h[1] = h[1].wrapping_add(b);
        h[2] = h[2].wrapping_add(c);
        h[3] = h[3].wrapping_add(d);
        h[4] = h[4].wrapping_add(e);
    }
    let mut out = [0u8; 20];
    for i in 0..5 {
        out[4 * i..4 * i + 4].copy_from_slice(&h[i].to_be_bytes());
    }
    out
}

pub fn self_check() -> Result<(), String> {
    let hx = |b: [u8; 20]| crate::engine::util::hex(&b);
    let vecs: [(&[u8], &str); 3] = [
        (b"", "da39a3ee5e6b4b0d3255bfef95601890afd80709"),
        (b"abc", "a9993e364706816aba3e25717850c26c9cd0d89d"),
        (b"abcdbcdecdefdefgefghfghighijhijkijkljklmklmnlmnomnopnopq", "84983e441c3bd26ebaae4aa1f95129e5e54670f1"),
    ];
    for (m, d) in vecs {
        if hx(sha1(m)) != d {
            return Err(format!("sha1 vector {:?}", m));
        }
    }
    let a = vec![b'a'; 1_000_000];
    if hx(sha1(&a)) != "34aa973cd4c4daa4f61eeb2bdbad27316534016f" {
        return Err("sha1 million a".into());
    }
    Ok(())
}

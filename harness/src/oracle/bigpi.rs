//! Hexadecimal digits of pi by Machin's formula over a private fixed-point big integer.
//! pi = 16 atan(1/5) - 4 atan(1/239).  Words are big-endian: w[0] is the integer part.

type Big = Vec<u32>;

fn div_small(a: &mut Big, d: u32) -> bool {
    let mut rem: u64 = 0;
    let mut nonzero = false;
    for w in a.iter_mut() {
        let cur = (rem << 32) | *w as u64;
        *w = (cur / d as u64) as u32;
        rem = cur % d as u64;
        nonzero |= *w != 0;
    }
    nonzero
}

fn add(a: &mut Big, b: &Big) {
    let mut carry = 0u64;
    for i in (0..a.len()).rev() {
        let s = a[i] as u64 + b[i] as u64 + carry;
        a[i] = s as u32;
        carry = s >> 32;
    }
}

fn sub(a: &mut Big, b: &Big) {
    let mut borrow = 0i64;
    for i in (0..a.len()).rev() {
        let mut s = a[i] as i64 - b[i] as i64 - borrow;
        if s < 0 {
            s += 1 << 32;
            borrow = 1;
        } else {
            borrow = 0;
        }
        a[i] = s as u32;
    }
}

fn mul_small(a: &mut Big, m: u32) {
    let mut carry = 0u64;
    for i in (0..a.len()).rev() {
        let s = a[i] as u64 * m as u64 + carry;
        a[i] = s as u32;
        carry = s >> 32;
    }
}

fn atan_inv(x: u32, n: usize) -> Big {
    let mut sum: Big = vec![0; n];
    let mut term: Big = vec![0; n];
    term[0] = 1;
    div_small(&mut term, x);
    let mut k: u32 = 0;
    loop {
        let mut t = term.clone();
        if !div_small(&mut t, 2 * k + 1) {
            break;
        }
        if k % 2 == 0 {
            add(&mut sum, &t);
        } else {
            sub(&mut sum, &t);
        }
        if !div_small(&mut term, x * x) {
            break;
        }
        k += 1;
    }
    sum
}

/// The first `n_words` 32-bit words of the fractional part of pi.
pub fn pi_frac_words(n_words: usize) -> Vec<u32> {
    let n = n_words + 1 + 4; // integer word + guard words
    let mut a = atan_inv(5, n);
    mul_small(&mut a, 16);
    let mut b = atan_inv(239, n);
    mul_small(&mut b, 4);
    sub(&mut a, &b);
    assert_eq!(a[0], 3);
    a[1..=n_words].to_vec()
}

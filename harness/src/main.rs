mod engine;
mod build;
mod gen;
mod oracle;
mod props;

use engine::{Ctx, Tier};

#[global_allocator]
static GLOBAL: engine::alloc::Counting = engine::alloc::Counting;

fn usage() -> ! {
    eprintln!("usage: pv check <ID> [--tier quick|thorough]\n       pv replay <ID> <file>\n       pv selfcheck\n       pv list");
    std::process::exit(2);
}

fn main() {
    let args: Vec<String> = std::env::args().collect();
    if args.len() < 2 {
        usage();
    }
    let seed: u64 = std::env::var("VERIF_SEED").ok().and_then(|s| s.trim().parse::<i128>().ok()).map(|v| v as u64).unwrap_or(0);
    match args[1].as_str() {
        "worker" => engine::worker::worker_main(props::entries::lookup),
        "list" => {
            for p in props::all() {
                println!("{}", p.id);
            }
        }
        "selfcheck" => {
            if let Err(e) = oracle::self_check().and_then(|_| oracle::blowfish::self_check()) {
                eprintln!("INFRA-ERROR oracle self-check failed: {}", e);
                std::process::exit(2);
            }
            println!("oracle self-checks passed");
        }
        "check" => {
            if args.len() < 3 {
                usage();
            }
            let id = args[2].to_uppercase();
            let mut tier = match std::env::var("VERIF_TIER").ok().as_deref() {
                Some("thorough") => Tier::Thorough,
                _ => Tier::Quick,
            };
            let mut i = 3;
            while i < args.len() {
                if args[i] == "--tier" && i + 1 < args.len() {
                    tier = match args[i + 1].as_str() {
                        "quick" => Tier::Quick,
                        "thorough" => Tier::Thorough,
                        _ => usage(),
                    };
                    i += 1;
                }
                i += 1;
            }
            let p = match props::all().into_iter().find(|p| p.id == id) {
                Some(p) => p,
                None => {
                    eprintln!("unknown property {}", id);
                    std::process::exit(2);
                }
            };
            if std::env::var("VERIF_INNER").is_err() {
                std::process::exit(supervise(p.id, tier));
            }
            engine::panics::install_silent_hook();
            if let Err(e) = oracle::self_check() {
                eprintln!("INFRA-ERROR oracle self-check failed: {}", e);
                std::process::exit(2);
            }
            start_watchdog(tier);
            engine::set_global_tier(tier);
            let ctx = Ctx::new(p.id, tier, seed, false);
            let code = engine::run_property(&p, &ctx);
            engine::tmp::cleanup_root();
            std::process::exit(code);
        }
        "replay" => {
            if args.len() < 4 {
                usage();
            }
            let id = args[2].to_uppercase();
            let p = match props::all().into_iter().find(|p| p.id == id) {
                Some(p) => p,
                None => {
                    eprintln!("unknown property {}", id);
                    std::process::exit(2);
                }
            };
            if std::env::var("VERIF_INNER").is_err() {
                // run the replay in a child so that a case that kills the process is still reported
                use std::os::unix::process::ExitStatusExt;
                let st = std::process::Command::new(std::env::current_exe().unwrap()).args(["replay", &id, &args[3]]).env("VERIF_INNER", "1").status();
                match st {
                    Ok(s) if s.code().map(|c| (0..=2).contains(&c)).unwrap_or(false) => std::process::exit(s.code().unwrap()),
                    Ok(s) => {
                        println!("VIOLATION property={} replay={}", id, args[3]);
                        println!("  signature={}:process-killed/signal-{} :: executing this case terminates the process", id, s.signal().unwrap_or(0));
                        std::process::exit(1);
                    }
                    Err(e) => {
                        eprintln!("INFRA-ERROR replay: {}", e);
                        std::process::exit(2);
                    }
                }
            }
            engine::panics::install_silent_hook();
            let ctx = Ctx::new(p.id, Tier::Quick, seed, true);
            let r = engine::replay_file(&p, &ctx, std::path::Path::new(&args[3]));
            engine::tmp::cleanup_root();
            match r {
                Ok(Ok(())) => {
                    println!("replay passes: property={} file={}", id, args[3]);
                    std::process::exit(0);
                }
                Ok(Err((part, _case, f))) => {
                    println!("VIOLATION property={} replay={}", id, args[3]);
                    println!("  part={} signature={}:{} :: {}", part, id, f.slug, engine::truncate(&f.msg, 2000));
                    std::process::exit(1);
                }
                Err(e) => {
                    eprintln!("INFRA-ERROR replay: {}", e);
                    std::process::exit(2);
                }
            }
        }
        other => {
            if let Some(code) = props::extra_command(other, &args[2..]) {
                std::process::exit(code);
            }
            usage();
        }
    }
}

/// Supervisor: the check itself runs in a child process, so that a case which kills the process (stack overflow,
/// abort, allocation failure) is identified and reported instead of taking the check down with it.
fn supervise(id: &str, tier: Tier) -> i32 {
    use std::os::unix::process::ExitStatusExt;
    use std::process::{Command, Stdio};
    let exe = std::env::current_exe().expect("current_exe");
    let run = |journal: Option<&std::path::Path>, quiet: bool| {
        let mut c = Command::new(&exe);
        c.args(["check", id, "--tier", tier.name()]).env("VERIF_INNER", "1");
        if let Some(j) = journal {
            c.env("VERIF_JOURNAL", j);
        }
        if quiet {
            c.stdout(Stdio::null()).stderr(Stdio::null());
        }
        c.status()
    };
    let st = match run(None, false) {
        Ok(s) => s,
        Err(e) => {
            eprintln!("INFRA-ERROR cannot start the check process: {}", e);
            return 2;
        }
    };
    if let Some(code) = st.code() {
        if (0..=2).contains(&code) {
            return code;
        }
    }
    eprintln!("check process for {} terminated abnormally ({:?}, signal {:?}); re-running with a case journal", id, st.code(), st.signal());
    let dir = engine::tmp::root().join("journal");
    let _ = std::fs::create_dir_all(&dir);
    let again = run(Some(&dir), true);
    let mut candidates: Vec<std::path::PathBuf> = std::fs::read_dir(&dir).map(|rd| rd.filter_map(|e| e.ok()).map(|e| e.path()).collect()).unwrap_or_default();
    candidates.sort();
    let mut verdict = 2;
    if again.map(|s| s.code().map(|c| !(0..=2).contains(&c)).unwrap_or(true)).unwrap_or(false) {
        for cand in &candidates {
            let r = Command::new(&exe).args(["replay", id, cand.to_str().unwrap()]).env("VERIF_INNER", "1").stdout(Stdio::null()).stderr(Stdio::null()).status();
            let died = r.as_ref().map(|s| s.code().map(|c| !(0..=2).contains(&c)).unwrap_or(true)).unwrap_or(false);
            if died {
                let sig = r.ok().and_then(|s| s.signal()).unwrap_or(0);
                let text = std::fs::read_to_string(cand).unwrap_or_default();
                let mut v: serde_json::Value = serde_json::from_str(&text).unwrap_or(serde_json::Value::Null);
                let part = v.get("part").and_then(|p| p.as_str()).unwrap_or("?").to_string();
                if let Some(o) = v.as_object_mut() {
                    o.insert("signature".into(), serde_json::json!(format!("{}:process-killed/signal-{}", id, sig)));
                    o.insert("message".into(), serde_json::json!("executing this case terminates the process (stack overflow, abort or fatal signal) instead of returning"));
                }
                let out_dir = engine::util::verif_root().join("replays");
                let _ = std::fs::create_dir_all(&out_dir);
                let out = out_dir.join(format!("{}-{}-killed-{:016x}.json", id, part, engine::util::fnv64(text.as_bytes())));
                let _ = std::fs::write(&out, serde_json::to_string_pretty(&v).unwrap_or_default());
                println!("VIOLATION property={} replay={}", id, out.display());
                println!("  part={} signature={}:process-killed/signal-{} :: a generated case terminates the process", part, id, sig);
                verdict = 1;
                break;
            }
        }
    }
    if verdict == 2 {
        eprintln!("INCONCLUSIVE: the abnormal termination could not be attributed to a single case");
    }
    engine::tmp::cleanup_root();
    verdict
}

/// A run that exceeds a generous multiple of its expected time is inconclusive (exit 2), never a violation.
fn start_watchdog(tier: Tier) {
    let secs: u64 = std::env::var("VERIF_WATCHDOG_S").ok().and_then(|s| s.parse().ok()).unwrap_or(match tier {
        Tier::Quick => 1500,
        Tier::Thorough => 4 * 3600,
    });
    std::thread::spawn(move || {
        std::thread::sleep(std::time::Duration::from_secs(secs));
        eprintln!("INCONCLUSIVE: watchdog expired after {} s", secs);
        engine::tmp::cleanup_root();
        std::process::exit(2);
    });
}

mod engine;
mod build;
mod gen;
mod oracle;
mod props;

use engine::{Ctx, Tier};

fn usage() -> ! {
    eprintln!("usage: pv check <ID> [--tier quick|thorough]\n       pv replay <ID> <file>\n       pv selfcheck\n       pv list");
    std::process::exit(2);
}

fn main() {
    let args: Vec<String> = std::env::args().collect();
    if args.len() < 2 {
        usage();
    }
    let seed: u64 = std::env::var("VERIF_SEED").ok().and_then(|s| s.trim().parse::<i128>().ok()).map(|v| v as u64).unwrap_or(0);
    match args[1].as_str() {
        "list" => {
            for p in props::all() {
                println!("{}", p.id);
            }
        }
        "selfcheck" => {
            if let Err(e) = oracle::self_check().and_then(|_| oracle::blowfish::self_check()) {
                eprintln!("INFRA-ERROR oracle self-check failed: {}", e);
                std::process::exit(2);
            }
            println!("oracle self-checks passed");
        }
        "check" => {
            if args.len() < 3 {
                usage();
            }
            let id = args[2].to_uppercase();
            let mut tier = match std::env::var("VERIF_TIER").ok().as_deref() {
                Some("thorough") => Tier::Thorough,
                _ => Tier::Quick,
            };
            let mut i = 3;
            while i < args.len() {
                if args[i] == "--tier" && i + 1 < args.len() {
                    tier = match args[i + 1].as_str() {
                        "quick" => Tier::Quick,
                        "thorough" => Tier::Thorough,
                        _ => usage(),
                    };
                    i += 1;
                }
                i += 1;
            }
            let p = match props::all().into_iter().find(|p| p.id == id) {
                Some(p) => p,
                None => {
                    eprintln!("unknown property {}", id);
                    std::process::exit(2);
                }
            };
            engine::panics::install_silent_hook();
            if let Err(e) = oracle::self_check() {
                eprintln!("INFRA-ERROR oracle self-check failed: {}", e);
                std::process::exit(2);
            }
            start_watchdog(tier);
            let ctx = Ctx::new(p.id, tier, seed, false);
            let code = engine::run_property(&p, &ctx);
            engine::tmp::cleanup_root();
            std::process::exit(code);
        }
        "replay" => {
            if args.len() < 4 {
                usage();
            }
            let id = args[2].to_uppercase();
            let p = match props::all().into_iter().find(|p| p.id == id) {
                Some(p) => p,
                None => {
                    eprintln!("unknown property {}", id);
                    std::process::exit(2);
                }
            };
            engine::panics::install_silent_hook();
            let ctx = Ctx::new(p.id, Tier::Quick, seed, true);
            let r = engine::replay_file(&p, &ctx, std::path::Path::new(&args[3]));
            engine::tmp::cleanup_root();
            match r {
                Ok(Ok(())) => {
                    println!("replay passes: property={} file={}", id, args[3]);
                    std::process::exit(0);
                }
                Ok(Err((part, _case, f))) => {
                    println!("VIOLATION property={} replay={}", id, args[3]);
                    println!("  part={} signature={}:{} :: {}", part, id, f.slug, engine::truncate(&f.msg, 2000));
                    std::process::exit(1);
                }
                Err(e) => {
                    eprintln!("INFRA-ERROR replay: {}", e);
                    std::process::exit(2);
                }
            }
        }
        other => {
            if let Some(code) = props::extra_command(other, &args[2..]) {
                std::process::exit(code);
            }
            usage();
        }
    }
}

/// A run that exceeds a generous multiple of its expected time is inconclusive (exit 2), never a violation.
fn start_watchdog(tier: Tier) {
    let secs: u64 = std::env::var("VERIF_WATCHDOG_S").ok().and_then(|s| s.parse().ok()).unwrap_or(match tier {
        Tier::Quick => 1500,
        Tier::Thorough => 4 * 3600,
    });
    std::thread::spawn(move || {
        std::thread::sleep(std::time::Duration::from_secs(secs));
        eprintln!("INCONCLUSIVE: watchdog expired after {} s", secs);
        engine::tmp::cleanup_root();
        std::process::exit(2);
    });
}

//! Isolation worker: the same binary re-executed as `pv worker`. The parent streams cases (entry point name,
//! repetition count, byte arguments) over a pipe and reads one JSON line per case. A case that panics is caught
//! in the worker; a case that aborts, overflows the stack, exceeds its CPU budget or asks for memory out of
//! proportion kills the worker, which the parent observes (wait status, refusal line, stderr text) and attributes
//! to the case in flight.
use super::alloc;
use serde_json::{json, Value};
use std::cell::RefCell;
use std::io::{Read, Write};
use std::os::unix::io::AsRawFd;
use std::os::unix::process::ExitStatusExt;
use std::process::{Child, ChildStderr, ChildStdin, ChildStdout, Command, Stdio};

pub const MIN_PROPORTION: usize = 64 << 20;
pub const PROPORTION_FACTOR: usize = 256;
/// CPU seconds one case may use (inputs are at most 1 MiB; ordinary cases take micro- to milliseconds)
pub const CPU_BUDGET_S: i64 = 10;
/// files written by a case may not grow beyond this (EFBIG, reported to the library as an I/O error)
pub const FSIZE_LIMIT: u64 = 16 << 20;

#[derive(Clone, Debug)]
pub struct Request<'a> {
    pub entry: &'a str,
    /// > 1: leak probe -- the call is repeated and the residual heap growth reported
    pub reps: u32,
    pub args: Vec<&'a [u8]>,
}

#[derive(Clone, Debug, PartialEq)]
pub enum Outcome {
    /// returned a value (Some / Ok / best-effort value)
    Value,
    /// returned its ordinary failure (None / Err)
    Rejected,
    Panic { msg: String, file: String, line: u32 },
    /// the process died: signal, refusal record of the allocator if any, tail of stderr
    Died { signal: i32, refused: Option<(u64, String, u32)>, stderr: String },
    /// CPU budget exhausted (SIGPROF/SIGXCPU) or no answer within the wall-clock backstop
    Hang { how: String },
    /// harness-level problem (unknown entry, scratch dir): never a verdict about Physis
    Infra(String),
}

#[derive(Clone, Debug, Default)]
pub struct Stats {
    pub peak: u64,
    pub maxreq: u64,
    pub cpu_us: u64,
    /// residual heap growth over `reps` repetitions (leak probe), bytes
    pub growth: i64,
    /// free-form observations of the entry function (e.g. "ok-without-eof")
    pub notes: Vec<String>,
}

// ------------------------------------------------------------------------------------------------
// child side
// ------------------------------------------------------------------------------------------------

pub type EntryFn = fn(&[Vec<u8>], &mut Env) -> Result<bool, String>;

pub struct Env {
    pub scratch: std::path::PathBuf,
    pub notes: Vec<String>,
}

impl Env {
    /// empty per-case directory
    pub fn fresh_dir(&mut self, name: &str) -> Result<std::path::PathBuf, String> {
        let p = self.scratch.join(name);
        let _ = std::fs::remove_dir_all(&p);
        std::fs::create_dir_all(&p).map_err(|e| format!("scratch {}: {}", p.display(), e))?;
        Ok(p)
    }
    pub fn note(&mut self, s: &str) {
        self.notes.push(s.to_string());
    }
}

thread_local! {
    static LAST_PANIC: RefCell<Option<(String, String, u32)>> = const { RefCell::new(None) };
}

fn read_exact_or_eof(r: &mut impl Read, buf: &mut [u8]) -> bool {
    let mut got = 0;
    while got < buf.len() {
        match r.read(&mut buf[got..]) {
            Ok(0) => return false,
            Ok(n) => got += n,
            Err(e) if e.kind() == std::io::ErrorKind::Interrupted => {}
            Err(_) => return false,
        }
    }
    true
}

fn cpu_us() -> u64 {
    unsafe {
        let mut ru: libc::rusage = std::mem::zeroed();
        libc::getrusage(libc::RUSAGE_SELF, &mut ru);
        (ru.ru_utime.tv_sec as u64 + ru.ru_stime.tv_sec as u64) * 1_000_000 + ru.ru_utime.tv_usec as u64 + ru.ru_stime.tv_usec as u64
    }
}

fn set_cpu_timer(secs: i64) {
    unsafe {
        let it = libc::itimerval { it_interval: libc::timeval { tv_sec: 0, tv_usec: 0 }, it_value: libc::timeval { tv_sec: secs, tv_usec: 0 } };
        libc::setitimer(libc::ITIMER_PROF, &it, std::ptr::null_mut());
    }
}

pub fn worker_main(lookup: fn(&str) -> Option<EntryFn>) -> ! {
    unsafe {
        libc::prctl(libc::PR_SET_PDEATHSIG, libc::SIGKILL);
        let lim = |res, v: u64| {
            let r = libc::rlimit { rlim_cur: v, rlim_max: v };
            libc::setrlimit(res, &r);
        };
        lim(libc::RLIMIT_CORE, 0);
        lim(libc::RLIMIT_AS, 6 << 30);
        lim(libc::RLIMIT_FSIZE, FSIZE_LIMIT);
        libc::signal(libc::SIGXFSZ, libc::SIG_IGN);
        libc::signal(libc::SIGPIPE, libc::SIG_IGN);
    }
    let repo_src = format!("{}/src/", super::util::repo_root().display());
    let repo_src2 = repo_src.clone();
    std::panic::set_hook(Box::new(move |info| {
        alloc::exempt(|| {
            let message = if let Some(s) = info.payload().downcast_ref::<&str>() {
                s.to_string()
            } else if let Some(s) = info.payload().downcast_ref::<String>() {
                s.clone()
            } else {
                "<non-string panic>".to_string()
            };
            let (mut file, mut line) = info.location().map(|l| (l.file().to_string(), l.line())).unwrap_or_default();
            if let Some(rest) = file.strip_prefix(&repo_src2) {
                file = format!("src/{}", rest);
            } else if !file.starts_with("src/") {
                // raised inside std or a dependency: attribute to the first /repo frame of the call stack
                if let Some((f, l)) = alloc::first_repo_frame() {
                    file = f;
                    line = l;
                } else {
                    file = format!("?{}", file);
                }
            }
            LAST_PANIC.with(|p| *p.borrow_mut() = Some((message, file, line)));
        })
    }));
    let _ = repo_src;
    alloc::set_report_fd(1);
    let scratch = super::tmp::root();
    let _ = std::fs::create_dir_all(&scratch);
    let mut env = Env { scratch: scratch.clone(), notes: Vec::new() };
    let mut stdin = std::io::stdin().lock();
    let stdout = std::io::stdout();
    loop {
        let mut hdr = [0u8; 4];
        if !read_exact_or_eof(&mut stdin, &mut hdr) {
            break;
        }
        let total = u32::from_le_bytes(hdr) as usize;
        let mut body = vec![0u8; total];
        if !read_exact_or_eof(&mut stdin, &mut body) {
            break;
        }
        // body: u16 name_len, name, u32 reps, u32 nargs, (u32 len, bytes)*
        let mut at = 0usize;
        let rd32 = |b: &[u8], at: &mut usize| -> u32 {
            let v = u32::from_le_bytes([b[*at], b[*at + 1], b[*at + 2], b[*at + 3]]);
            *at += 4;
            v
        };
        let nl = u16::from_le_bytes([body[0], body[1]]) as usize;
        at += 2;
        let name = String::from_utf8_lossy(&body[at..at + nl]).to_string();
        at += nl;
        let reps = rd32(&body, &mut at).max(1);
        let nargs = rd32(&body, &mut at) as usize;
        let mut args: Vec<Vec<u8>> = Vec::with_capacity(nargs);
        let mut input_bytes = 0usize;
        for _ in 0..nargs {
            let l = rd32(&body, &mut at) as usize;
            args.push(body[at..at + l].to_vec());
            input_bytes += l;
            at += l;
        }
        drop(body);
        let out: Value = match lookup(&name) {
            None => json!({"o": "x", "msg": format!("unknown entry {}", name)}),
            Some(f) => {
                env.notes.clear();
                let limit = MIN_PROPORTION.max(PROPORTION_FACTOR.saturating_mul(input_bytes));
                let heap0 = if reps > 1 { alloc::malloc_in_use() as i64 } else { 0 };
                let c0 = cpu_us();
                let mut res: Result<Result<bool, String>, ()> = Ok(Ok(false));
                let mut peak = 0usize;
                let mut maxreq = 0usize;
                let mut heap_warm = heap0;
                for rep in 0..reps {
                    set_cpu_timer(CPU_BUDGET_S);
                    alloc::arm(limit);
                    let r = std::panic::catch_unwind(std::panic::AssertUnwindSafe(|| f(&args, &mut env)));
                    let (p, m) = alloc::disarm();
                    set_cpu_timer(0);
                    peak = peak.max(p);
                    maxreq = maxreq.max(m);
                    res = r.map_err(|_| ());
                    if res.is_err() {
                        break;
                    }
                    if reps > 1 && rep + 1 == (reps / 4).max(1) {
                        // the first calls fill caches, lazily initialised state and allocator arenas:
                        // the growth is measured over the last three quarters of the repetitions
                        heap_warm = alloc::malloc_in_use() as i64;
                    }
                }
                let growth = if reps > 1 { alloc::malloc_in_use() as i64 - heap_warm } else { 0 };
                let cpu = cpu_us() - c0;
                let mut v = match res {
                    Ok(Ok(true)) => json!({"o": "v"}),
                    Ok(Ok(false)) => json!({"o": "r"}),
                    Ok(Err(e)) => json!({"o": "x", "msg": e}),
                    Err(()) => {
                        let (msg, file, line) = LAST_PANIC.with(|p| p.borrow_mut().take()).unwrap_or_default();
                        json!({"o": "p", "msg": msg, "file": file, "line": line})
                    }
                };
                let o = v.as_object_mut().unwrap();
                o.insert("peak".into(), json!(peak));
                o.insert("maxreq".into(), json!(maxreq));
                o.insert("cpu_us".into(), json!(cpu));
                o.insert("growth".into(), json!(growth));
                if !env.notes.is_empty() {
                    o.insert("notes".into(), json!(env.notes));
                }
                v
            }
        };
        let mut line = serde_json::to_string(&out).unwrap_or_else(|_| "{\"o\":\"x\"}".into());
        line.push('\n');
        let mut so = stdout.lock();
        if so.write_all(line.as_bytes()).is_err() || so.flush().is_err() {
            break;
        }
    }
    let _ = std::fs::remove_dir_all(&scratch);
    std::process::exit(0);
}

// ------------------------------------------------------------------------------------------------
// parent side
// ------------------------------------------------------------------------------------------------

pub struct Worker {
    child: Child,
    stdin: ChildStdin,
    stdout: ChildStdout,
    stderr: ChildStderr,
    buf: Vec<u8>,
    scratch: std::path::PathBuf,
}

fn set_nonblocking(fd: i32) {
    unsafe {
        let fl = libc::fcntl(fd, libc::F_GETFL);
        libc::fcntl(fd, libc::F_SETFL, fl | libc::O_NONBLOCK);
    }
}

impl Worker {
    pub fn spawn() -> Result<Worker, String> {
        let exe = std::env::current_exe().map_err(|e| e.to_string())?;
        let mut child = Command::new(exe).arg("worker").stdin(Stdio::piped()).stdout(Stdio::piped()).stderr(Stdio::piped()).spawn().map_err(|e| e.to_string())?;
        let stdin = child.stdin.take().unwrap();
        let stdout = child.stdout.take().unwrap();
        let stderr = child.stderr.take().unwrap();
        set_nonblocking(stdout.as_raw_fd());
        set_nonblocking(stderr.as_raw_fd());
        let scratch = super::tmp::root_for_pid(child.id());
        Ok(Worker { child, stdin, stdout, stderr, buf: Vec::new(), scratch })
    }

    fn drain_stderr(&mut self) -> String {
        let mut out = Vec::new();
        let mut tmp = [0u8; 4096];
        loop {
            match self.stderr.read(&mut tmp) {
                Ok(0) => break,
                Ok(n) => {
                    out.extend_from_slice(&tmp[..n]);
                    if out.len() > 64 << 10 {
                        break;
                    }
                }
                Err(_) => break,
            }
        }
        String::from_utf8_lossy(&out).to_string()
    }

    /// read one line from the worker's result pipe; None on EOF (worker died); Err(()) on timeout
    fn read_line(&mut self, timeout_ms: i64) -> Result<Option<String>, ()> {
        let fd = self.stdout.as_raw_fd();
        let start = std::time::Instant::now();
        loop {
            if let Some(i) = self.buf.iter().position(|b| *b == b'\n') {
                let line: Vec<u8> = self.buf.drain(..=i).collect();
                return Ok(Some(String::from_utf8_lossy(&line[..line.len() - 1]).to_string()));
            }
            let left = timeout_ms - start.elapsed().as_millis() as i64;
            if left <= 0 {
                return Err(());
            }
            let mut pfd = libc::pollfd { fd, events: libc::POLLIN, revents: 0 };
            let r = unsafe { libc::poll(&mut pfd, 1, left.min(1000) as i32) };
            if r < 0 {
                continue;
            }
            if r == 0 {
                // keep the stderr pipe from filling up while we wait
                continue;
            }
            let mut tmp = [0u8; 65536];
            match self.stdout.read(&mut tmp) {
                Ok(0) => return Ok(None),
                Ok(n) => self.buf.extend_from_slice(&tmp[..n]),
                Err(e) if e.kind() == std::io::ErrorKind::WouldBlock || e.kind() == std::io::ErrorKind::Interrupted => {}
                Err(_) => return Ok(None),
            }
        }
    }

    fn send(&mut self, req: &Request) -> std::io::Result<()> {
        let mut body: Vec<u8> = Vec::with_capacity(32 + req.args.iter().map(|a| a.len() + 4).sum::<usize>());
        body.extend_from_slice(&(req.entry.len() as u16).to_le_bytes());
        body.extend_from_slice(req.entry.as_bytes());
        body.extend_from_slice(&req.reps.to_le_bytes());
        body.extend_from_slice(&(req.args.len() as u32).to_le_bytes());
        for a in &req.args {
            body.extend_from_slice(&(a.len() as u32).to_le_bytes());
            body.extend_from_slice(a);
        }
        let mut msg = Vec::with_capacity(body.len() + 4);
        msg.extend_from_slice(&(body.len() as u32).to_le_bytes());
        msg.extend_from_slice(&body);
        self.stdin.write_all(&msg)?;
        self.stdin.flush()
    }

    fn reap(&mut self) -> i32 {
        let _ = self.child.kill();
        let st = self.child.wait();
        let _ = std::fs::remove_dir_all(&self.scratch);
        match st {
            Ok(s) => s.signal().unwrap_or(0),
            Err(_) => 0,
        }
    }
}

impl Drop for Worker {
    fn drop(&mut self) {
        self.reap();
    }
}

thread_local! {
    static WORKER: RefCell<Option<Worker>> = const { RefCell::new(None) };
}

pub static SPAWNED: std::sync::atomic::AtomicU64 = std::sync::atomic::AtomicU64::new(0);

/// Execute one case in this thread's worker (spawned on demand, replaced after it died).
pub fn exec(req: &Request) -> (Outcome, Stats) {
    WORKER.with(|w| {
        let mut w = w.borrow_mut();
        if w.is_none() {
            match Worker::spawn() {
                Ok(n) => {
                    SPAWNED.fetch_add(1, std::sync::atomic::Ordering::Relaxed);
                    *w = Some(n)
                }
                Err(e) => return (Outcome::Infra(format!("cannot start worker: {}", e)), Stats::default()),
            }
        }
        let wk = w.as_mut().unwrap();
        let mut stats = Stats::default();
        let sent = wk.send(req);
        // wall-clock backstop only; the CPU budget is enforced inside the worker
        let backstop_ms = 1000 * (CPU_BUDGET_S * req.reps.max(1) as i64 * 6 + 60);
        let mut refused: Option<(u64, String, u32)> = None;
        let outcome = loop {
            if sent.is_err() {
                // worker already gone (died after its previous answer): treat like a death on this case
            }
            match wk.read_line(backstop_ms) {
                Ok(Some(line)) => {
                    let v: Value = match serde_json::from_str(&line) {
                        Ok(v) => v,
                        Err(_) => break Outcome::Infra(format!("unparsable worker answer: {}", super::truncate(&line, 200))),
                    };
                    if let Some(sz) = v.get("refused").and_then(|x| x.as_u64()) {
                        refused = Some((sz, v.get("file").and_then(|x| x.as_str()).unwrap_or("").to_string(), v.get("line").and_then(|x| x.as_u64()).unwrap_or(0) as u32));
                        continue;
                    }
                    stats.peak = v.get("peak").and_then(|x| x.as_u64()).unwrap_or(0);
                    stats.maxreq = v.get("maxreq").and_then(|x| x.as_u64()).unwrap_or(0);
                    stats.cpu_us = v.get("cpu_us").and_then(|x| x.as_u64()).unwrap_or(0);
                    stats.growth = v.get("growth").and_then(|x| x.as_i64()).unwrap_or(0);
                    if let Some(n) = v.get("notes").and_then(|x| x.as_array()) {
                        stats.notes = n.iter().filter_map(|x| x.as_str().map(|s| s.to_string())).collect();
                    }
                    break match v.get("o").and_then(|x| x.as_str()) {
                        Some("v") => Outcome::Value,
                        Some("r") => Outcome::Rejected,
                        Some("p") => Outcome::Panic {
                            msg: v.get("msg").and_then(|x| x.as_str()).unwrap_or("").to_string(),
                            file: v.get("file").and_then(|x| x.as_str()).unwrap_or("").to_string(),
                            line: v.get("line").and_then(|x| x.as_u64()).unwrap_or(0) as u32,
                        },
                        _ => Outcome::Infra(v.get("msg").and_then(|x| x.as_str()).unwrap_or("?").to_string()),
                    };
                }
                Ok(None) => {
                    // died
                    let mut wk = w.take().unwrap();
                    let st = wk.child.wait();
                    let err = wk.drain_stderr();
                    let signal = st.as_ref().ok().and_then(|s| s.signal()).unwrap_or(0);
                    let code = st.as_ref().ok().and_then(|s| s.code());
                    drop(wk);
                    if signal == libc::SIGPROF || signal == libc::SIGXCPU {
                        return (Outcome::Hang { how: format!("more than {} s of CPU time", CPU_BUDGET_S) }, stats);
                    }
                    if signal == 0 && code == Some(0) && sent.is_err() {
                        return (Outcome::Infra("worker exited before the case was sent".into()), stats);
                    }
                    return (Outcome::Died { signal: if signal != 0 { signal } else { -(code.unwrap_or(0)) }, refused, stderr: super::truncate(err.trim(), 400) }, stats);
                }
                Err(()) => {
                    let wk = w.take().unwrap();
                    drop(wk);
                    return (Outcome::Hang { how: "no answer within the wall-clock backstop (blocked?)".into() }, stats);
                }
            }
        };
        (outcome, stats)
    })
}

/// kill this thread's worker (end of a part)
pub fn shutdown_thread_worker() {
    WORKER.with(|w| {
        w.borrow_mut().take();
    });
}

//! Robustness verdicts: turn a worker outcome into a signature `(entry, file, enclosing item, class)` that is
//! stable under unrelated edits (no line numbers, no data-dependent message parts).
use super::worker::{Outcome, Stats};
use std::collections::HashMap;
use std::sync::{Mutex, OnceLock};

/// Reduce a panic message to a fixed vocabulary.
pub fn classify(msg: &str) -> String {
    let kind = |rest: &str| -> &'static str {
        if rest.contains("failed to fill whole buffer") || rest.contains("UnexpectedEof") {
            "eof"
        } else if rest.contains("no variants matched") || rest.contains("NoVariantMatch") || rest.contains("EnumErrors") {
            "no-variant"
        } else if rest.contains("Utf8Error") || rest.contains("FromUtf8Error") || rest.contains("invalid utf-8") {
            "utf8"
        } else if rest.contains("ParseIntError") {
            "parse-int"
        } else if rest.contains("ParseFloatError") {
            "parse-float"
        } else if rest.contains("BadMagic") || rest.contains("bad magic") {
            "magic"
        } else if rest.contains("AssertFail") || rest.contains("assertion") {
            "assert"
        } else if rest.contains("TryFromIntError") {
            "int-range"
        } else if rest.contains("NulError") {
            "nul"
        } else if rest.contains("Os {") || rest.contains("kind:") {
            "io"
        } else {
            "other"
        }
    };
    if msg.starts_with("called `Option::unwrap()` on a `None` value") {
        return "unwrap-none".into();
    }
    if let Some(rest) = msg.strip_prefix("called `Result::unwrap()` on an `Err` value: ") {
        return format!("unwrap-err/{}", kind(rest));
    }
    if msg.starts_with("index out of bounds") {
        return "index-oob".into();
    }
    if msg.starts_with("range end index")
        || msg.starts_with("range start index")
        || msg.starts_with("slice index starts at")
        || msg.starts_with("byte index")
        || msg.starts_with("begin <= end")
        || msg.starts_with("begin > end")
        || msg.contains("when slicing `")
        || msg.starts_with("start byte index")
        || msg.starts_with("end byte index")
        || msg.contains("is out of bounds of")
        || msg.contains("out of range for slice")
        || msg.contains("is not a char boundary")
        || msg.starts_with("mid > len")
        || msg.starts_with("source slice length")
        || msg.starts_with("destination and source slices have different lengths")
        || msg.starts_with("copy_from_slice")
    {
        return "slice-range".into();
    }
    if let Some(rest) = msg.strip_prefix("attempt to ") {
        let op = if rest.starts_with("add") {
            "add"
        } else if rest.starts_with("subtract") {
            "subtract"
        } else if rest.starts_with("multiply") {
            "multiply"
        } else if rest.starts_with("divide by zero") || rest.starts_with("calculate the remainder with a divisor of zero") {
            "div-zero"
        } else if rest.starts_with("divide") || rest.starts_with("calculate the remainder") {
            "divide"
        } else if rest.starts_with("shift") {
            "shift"
        } else if rest.starts_with("negate") {
            "negate"
        } else {
            "other"
        };
        return format!("arith-overflow/{}", op);
    }
    if msg == "capacity overflow" || msg.starts_with("capacity overflow") {
        return "capacity-overflow".into();
    }
    if msg.starts_with("assertion") {
        return "assert".into();
    }
    if msg.starts_with("internal error: entered unreachable code") {
        return "unreachable".into();
    }
    if msg.starts_with("not implemented") || msg.starts_with("not yet implemented") {
        return "unimplemented".into();
    }
    if msg.contains("already borrowed") || msg.contains("already mutably borrowed") {
        return "refcell-borrow".into();
    }
    // expect("static text") on Err: "static text: <Debug of error>"; explicit panic!("text {}", data)
    let (head, rest) = match msg.find(": ") {
        Some(i) => (&msg[..i], Some(&msg[i + 2..])),
        None => (msg, None),
    };
    let mut text: String = head.chars().filter(|c| !c.is_ascii_digit()).take(48).collect();
    text = text.trim().replace(['|', '"', '\\'], "");
    match rest {
        Some(r) if kind(r) != "other" => format!("expect/{}/{}", text, kind(r)),
        _ => format!("explicit/{}", text),
    }
}

struct FileItems {
    /// (line, name) of every `fn` / `struct` / `enum` header
    items: Vec<(u32, String)>,
    /// lines that are attributes, doc comments or blank (they belong to the item that follows)
    leading: Vec<bool>,
}

/// nearest enclosing item (`fn`, `struct`, `enum`) of a line in a repo source file; attribute lines (where derive
/// macros such as binrw's report their panics) belong to the item they decorate
pub fn enclosing_item(file: &str, line: u32) -> String {
    static CACHE: OnceLock<Mutex<HashMap<String, FileItems>>> = OnceLock::new();
    let cache = CACHE.get_or_init(|| Mutex::new(HashMap::new()));
    let mut c = cache.lock().unwrap();
    let fi = c.entry(file.to_string()).or_insert_with(|| {
        let path = super::util::repo_root().join(file);
        let mut items = Vec::new();
        let mut leading = Vec::new();
        if let Ok(text) = std::fs::read_to_string(&path) {
            for (i, l) in text.lines().enumerate() {
                let mut t = l.trim_start();
                leading.push(t.is_empty() || t.starts_with("#[") || t.starts_with("///") || t.starts_with("//"));
                loop {
                    let before = t;
                    for p in ["pub(crate) ", "pub(super) ", "pub ", "async ", "unsafe ", "const ", "extern \"C\" "] {
                        if let Some(r) = t.strip_prefix(p) {
                            t = r;
                        }
                    }
                    if before == t {
                        break;
                    }
                }
                for kw in ["fn ", "struct ", "enum "] {
                    if let Some(r) = t.strip_prefix(kw) {
                        let name: String = r.chars().take_while(|c| c.is_alphanumeric() || *c == '_').collect();
                        if !name.is_empty() {
                            items.push((i as u32 + 1, name));
                        }
                    }
                }
            }
        }
        FileItems { items, leading }
    });
    // an attribute line: look ahead to the decorated item
    let mut l = line;
    while l >= 1 && (l as usize) <= fi.leading.len() && fi.leading[l as usize - 1] {
        l += 1;
    }
    if l != line {
        if let Some((_, name)) = fi.items.iter().find(|(ln, _)| *ln == l) {
            return name.clone();
        }
    }
    let mut best = "?".to_string();
    for (ln, name) in fi.items.iter() {
        if *ln <= line {
            best = name.clone();
        } else {
            break;
        }
    }
    best
}

#[derive(Clone, Debug)]
pub struct Bad {
    /// signature slug: `<entry>|<outcome>|<file>|<item>|<class>`
    pub slug: String,
    pub detail: String,
}

/// None = the outcome satisfies "returns its ordinary failure or a value"
pub fn verdict(entry: &str, o: &Outcome, st: &Stats) -> Option<Bad> {
    let _ = st;
    match o {
        Outcome::Value | Outcome::Rejected | Outcome::Infra(_) => None,
        Outcome::Panic { msg, file, line } => {
            let item = if file.starts_with("src/") { enclosing_item(file, *line) } else { "?".into() };
            let class = classify(msg);
            Some(Bad { slug: format!("{}|panic|{}|{}|{}", entry, file, item, class), detail: format!("panicked: {} at {}:{}", super::truncate(msg, 300), file, line) })
        }
        Outcome::Died { signal, refused, stderr } => {
            if let Some((size, file, line)) = refused {
                let item = if file.starts_with("src/") { enclosing_item(file, *line) } else { "?".into() };
                Some(Bad {
                    slug: format!("{}|alloc-blowup|{}|{}", entry, file, item),
                    detail: format!("asked for {} bytes (limit max(64 MiB, 256 x input)) at {}:{}; the process aborts when the request is refused", size, file, line),
                })
            } else if stderr.contains("has overflowed its stack") {
                Some(Bad { slug: format!("{}|stack-overflow", entry), detail: "unbounded recursion: the stack overflowed (SIGABRT from the guard page handler)".into() })
            } else if stderr.contains("memory allocation of") {
                Some(Bad { slug: format!("{}|alloc-failed", entry), detail: format!("allocation failure aborted the process: {}", super::truncate(stderr, 200)) })
            } else {
                Some(Bad { slug: format!("{}|died/signal-{}", entry, signal), detail: format!("the process died with signal {}: {}", signal, super::truncate(stderr, 300)) })
            }
        }
        Outcome::Hang { how } => Some(Bad { slug: format!("{}|hang", entry), detail: format!("did not return: {}", how) }),
    }
}

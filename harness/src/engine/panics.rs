//! Silent panic hook + guard that turns a Physis panic on a valid generated input into a Failure.
use super::Failure;
use std::cell::RefCell;

#[derive(Clone, Debug, Default)]
pub struct PanicInfo {
    pub message: String,
    pub file: String,
    pub line: u32,
}

impl PanicInfo {
    pub fn describe(&self) -> String {
        format!("{} at {}:{}", self.message, self.file, self.line)
    }
}

thread_local! {
    static LAST: RefCell<Option<PanicInfo>> = const { RefCell::new(None) };
}

pub fn install_silent_hook() {
    std::panic::set_hook(Box::new(|info| {
        let message = if let Some(s) = info.payload().downcast_ref::<&str>() {
            s.to_string()
        } else if let Some(s) = info.payload().downcast_ref::<String>() {
            s.clone()
        } else {
            "<non-string panic>".to_string()
        };
        let (file, line) = info.location().map(|l| (l.file().to_string(), l.line())).unwrap_or_default();
        if std::env::var("VERIF_SHOW_PANICS").is_ok() {
            eprintln!("[panic] {} at {}:{}", message, file, line);
        }
        LAST.with(|l| *l.borrow_mut() = Some(PanicInfo { message, file, line }));
    }));
}

pub fn take_last() -> Option<PanicInfo> {
    LAST.with(|l| l.borrow_mut().take())
}

/// repo-relative file name of a panic location
pub fn rel_file(file: &str) -> String {
    if let Some(i) = file.find("/src/") {
        if file.starts_with("/repo") || file.contains("physis") {
            return file[i + 1..].to_string();
        }
    }
    // dependency sources: keep crate-relative tail
    if let Some(i) = file.find("/registry/src/") {
        let tail = &file[i + 14..];
        if let Some(j) = tail.find('/') {
            return format!("dep:{}", &tail[j + 1..]);
        }
    }
    file.to_string()
}

/// Call into Physis; a panic becomes Err(Failure) with slug `panic@<file>`.
pub fn guard<T>(what: &str, f: impl FnOnce() -> T) -> Result<T, Failure> {
    match std::panic::catch_unwind(std::panic::AssertUnwindSafe(f)) {
        Ok(v) => Ok(v),
        Err(_) => {
            let info = take_last().unwrap_or_default();
            Err(Failure { slug: format!("panic@{}", rel_file(&info.file)), msg: format!("{} panicked: {}", what, info.describe()) })
        }
    }
}

use std::path::PathBuf;

pub fn fnv64(b: &[u8]) -> u64 {
    let mut h: u64 = 0xcbf29ce484222325;
    for x in b {
        h ^= *x as u64;
        h = h.wrapping_mul(0x100000001b3);
    }
    h
}

pub fn splitmix64(x: u64) -> u64 {
    let mut z = x.wrapping_add(0x9E3779B97F4A7C15);
    z = (z ^ (z >> 30)).wrapping_mul(0xBF58476D1CE4E5B9);
    z = (z ^ (z >> 27)).wrapping_mul(0x94D049BB133111EB);
    z ^ (z >> 31)
}

/// /verif (overridable for tests of the harness itself)
pub fn verif_root() -> PathBuf {
    if let Ok(p) = std::env::var("VERIF_ROOT") {
        return PathBuf::from(p);
    }
    // the binary lives in <root>/harness/target/<profile>/pv; fall back to cwd
    if let Ok(exe) = std::env::current_exe() {
        let mut p = exe.clone();
        for _ in 0..4 {
            p.pop();
        }
        if p.join("properties.jsonl").exists() {
            return p;
        }
    }
    std::env::current_dir().unwrap_or_else(|_| PathBuf::from("."))
}

pub fn repo_root() -> PathBuf {
    PathBuf::from(std::env::var("VERIF_REPO").unwrap_or_else(|_| "/repo".to_string()))
}

pub fn hex(b: &[u8]) -> String {
    let mut s = String::with_capacity(b.len() * 2);
    for x in b {
        s.push_str(&format!("{:02x}", x));
    }
    s
}

pub fn hex_trunc(b: &[u8], n: usize) -> String {
    if b.len() <= n {
        hex(b)
    } else {
        format!("{}…(+{} bytes)", hex(&b[..n]), b.len() - n)
    }
}

pub fn unhex(s: &str) -> Option<Vec<u8>> {
    if s.len() % 2 != 0 {
        return None;
    }
    (0..s.len()).step_by(2).map(|i| u8::from_str_radix(&s[i..i + 2], 16).ok()).collect()
}

/// Byte vector that serialises as a hex string and prints compactly.
#[derive(Clone, PartialEq, Eq, Hash, Default)]
pub struct Bytes(pub Vec<u8>);

impl std::fmt::Debug for Bytes {
    fn fmt(&self, f: &mut std::fmt::Formatter<'_>) -> std::fmt::Result {
        write!(f, "x\"{}\"", hex_trunc(&self.0, 64))
    }
}

impl serde::Serialize for Bytes {
    fn serialize<S: serde::Serializer>(&self, s: S) -> Result<S::Ok, S::Error> {
        s.serialize_str(&hex(&self.0))
    }
}

impl<'de> serde::Deserialize<'de> for Bytes {
    fn deserialize<D: serde::Deserializer<'de>>(d: D) -> Result<Self, D::Error> {
        let s = String::deserialize(d)?;
        unhex(&s).map(Bytes).ok_or_else(|| serde::de::Error::custom("bad hex"))
    }
}

impl std::ops::Deref for Bytes {
    type Target = Vec<u8>;
    fn deref(&self) -> &Vec<u8> {
        &self.0
    }
}

/// Monotone index mapping for shrinking-friendly selection: i in 0..=65535 -> 0..len
pub fn pick_idx(i: u16, len: usize) -> usize {
    if len == 0 {
        0
    } else {
        ((i as usize) * len) >> 16
    }
}

/// Flat container for a small file tree: u32 count, then (u16 path length, path, u32 length, bytes)*.
pub fn pack_files(files: &[(String, Vec<u8>)]) -> Vec<u8> {
    let mut v = Vec::new();
    v.extend_from_slice(&(files.len() as u32).to_le_bytes());
    for (p, b) in files {
        v.extend_from_slice(&(p.len() as u16).to_le_bytes());
        v.extend_from_slice(p.as_bytes());
        v.extend_from_slice(&(b.len() as u32).to_le_bytes());
        v.extend_from_slice(b);
    }
    v
}

pub fn unpack_files(v: &[u8]) -> Option<Vec<(String, Vec<u8>)>> {
    let mut at = 0usize;
    let n = u32::from_le_bytes(v.get(0..4)?.try_into().ok()?) as usize;
    at += 4;
    let mut out = Vec::with_capacity(n.min(1024));
    for _ in 0..n {
        let pl = u16::from_le_bytes(v.get(at..at + 2)?.try_into().ok()?) as usize;
        at += 2;
        let p = String::from_utf8_lossy(v.get(at..at + pl)?).to_string();
        at += pl;
        let bl = u32::from_le_bytes(v.get(at..at + 4)?.try_into().ok()?) as usize;
        at += 4;
        let b = v.get(at..at + bl)?.to_vec();
        at += bl;
        out.push((p, b));
    }
    Some(out)
}

//! Per-process scratch directories (under /dev/shm when present), removed after use and at exit.
use std::path::{Path, PathBuf};
use std::sync::atomic::{AtomicU64, Ordering};

static COUNTER: AtomicU64 = AtomicU64::new(0);

pub fn root() -> PathBuf {
    root_for_pid(std::process::id())
}

pub fn root_for_pid(pid: u32) -> PathBuf {
    let base = if let Ok(t) = std::env::var("VERIF_TMP") {
        PathBuf::from(t)
    } else if Path::new("/dev/shm").is_dir() {
        PathBuf::from("/dev/shm")
    } else {
        std::env::temp_dir()
    };
    base.join(format!("pv-{}", pid))
}

pub struct TmpDir {
    pub path: PathBuf,
}

impl TmpDir {
    pub fn new(tag: &str) -> TmpDir {
        let n = COUNTER.fetch_add(1, Ordering::Relaxed);
        let path = root().join(format!("{}-{}", tag, n));
        std::fs::create_dir_all(&path).expect("cannot create scratch dir");
        TmpDir { path }
    }
    pub fn join(&self, p: impl AsRef<Path>) -> PathBuf {
        self.path.join(p)
    }
}

impl Drop for TmpDir {
    fn drop(&mut self) {
        let _ = std::fs::remove_dir_all(&self.path);
    }
}

pub fn cleanup_root() {
    let _ = std::fs::remove_dir_all(root());
}

//! Counting global allocator. Inactive (one relaxed load per call) unless ARMED, which only the isolation worker
//! sets around a call into Physis. While armed it tracks live and peak bytes and the largest single request, and
//! *refuses* (returns null, which makes Rust abort the process) any request that would take the live heap above
//! the per-case limit -- after writing one line describing the request and the first /repo frame of the call stack
//! to the worker's result pipe, so that the parent can attribute the abort.
use std::alloc::{GlobalAlloc, Layout, System};
use std::cell::Cell;
use std::sync::atomic::{AtomicBool, AtomicI32, AtomicUsize, Ordering};

pub struct Counting;

static ARMED: AtomicBool = AtomicBool::new(false);
static LIVE: AtomicUsize = AtomicUsize::new(0);
static PEAK: AtomicUsize = AtomicUsize::new(0);
static MAXREQ: AtomicUsize = AtomicUsize::new(0);
static LIMIT: AtomicUsize = AtomicUsize::new(usize::MAX);
/// fd on which a refusal is reported (-1: none)
static REPORT_FD: AtomicI32 = AtomicI32::new(-1);

thread_local! {
    static BUSY: Cell<bool> = const { Cell::new(false) };
}

pub fn arm(limit: usize) {
    LIVE.store(0, Ordering::Relaxed);
    PEAK.store(0, Ordering::Relaxed);
    MAXREQ.store(0, Ordering::Relaxed);
    LIMIT.store(limit, Ordering::Relaxed);
    ARMED.store(true, Ordering::SeqCst);
}

/// returns (peak live bytes, largest single request) since `arm`
pub fn disarm() -> (usize, usize) {
    ARMED.store(false, Ordering::SeqCst);
    (PEAK.load(Ordering::Relaxed), MAXREQ.load(Ordering::Relaxed))
}

/// run `f` with accounting suspended for this thread (panic hook, diagnostics)
pub fn exempt<T>(f: impl FnOnce() -> T) -> T {
    let prev = BUSY.with(|b| b.replace(true));
    let r = f();
    BUSY.with(|b| b.set(prev));
    r
}

pub fn set_report_fd(fd: i32) {
    REPORT_FD.store(fd, Ordering::Relaxed);
}

/// first frame of the current call stack that lies in /repo/src, as "src/x.rs:LINE"; also used by the panic hook
pub fn first_repo_frame() -> Option<(String, u32)> {
    let bt = std::backtrace::Backtrace::force_capture();
    let text = bt.to_string();
    let root = format!("{}/src/", super::util::repo_root().display());
    for line in text.lines() {
        let t = line.trim_start();
        if let Some(rest) = t.strip_prefix("at ") {
            if let Some(tail) = rest.strip_prefix(&root) {
                let mut it = tail.split(':');
                let file = format!("src/{}", it.next().unwrap_or(""));
                let ln = it.next().and_then(|x| x.parse().ok()).unwrap_or(0);
                return Some((file, ln));
            }
        }
    }
    None
}

#[cold]
fn refuse(size: usize) {
    // nested allocations made while describing the refusal go straight to the system allocator
    let nested = BUSY.with(|b| b.replace(true));
    if nested {
        return;
    }
    ARMED.store(false, Ordering::SeqCst);
    let fd = REPORT_FD.load(Ordering::Relaxed);
    if fd >= 0 {
        let (file, line) = first_repo_frame().unwrap_or_default();
        let msg = format!("{{\"refused\":{},\"live\":{},\"file\":\"{}\",\"line\":{}}}\n", size, LIVE.load(Ordering::Relaxed), file, line);
        unsafe {
            libc::write(fd, msg.as_ptr() as *const libc::c_void, msg.len());
        }
    }
    BUSY.with(|b| b.set(false));
}

#[inline]
fn on_alloc(size: usize) -> bool {
    if !ARMED.load(Ordering::Relaxed) {
        return true;
    }
    if BUSY.with(|b| b.get()) {
        return true;
    }
    let live = LIVE.load(Ordering::Relaxed);
    if size > LIMIT.load(Ordering::Relaxed) || live.saturating_add(size) > LIMIT.load(Ordering::Relaxed) {
        refuse(size);
        return false;
    }
    let now = LIVE.fetch_add(size, Ordering::Relaxed) + size;
    PEAK.fetch_max(now, Ordering::Relaxed);
    MAXREQ.fetch_max(size, Ordering::Relaxed);
    true
}

#[inline]
fn on_free(size: usize) {
    if ARMED.load(Ordering::Relaxed) && !BUSY.with(|b| b.get()) {
        // blocks allocated before arming may be freed while armed: saturate
        let _ = LIVE.fetch_update(Ordering::Relaxed, Ordering::Relaxed, |v| Some(v.saturating_sub(size)));
    }
}

unsafe impl GlobalAlloc for Counting {
    unsafe fn alloc(&self, l: Layout) -> *mut u8 {
        if !on_alloc(l.size()) {
            return std::ptr::null_mut();
        }
        System.alloc(l)
    }
    unsafe fn alloc_zeroed(&self, l: Layout) -> *mut u8 {
        if !on_alloc(l.size()) {
            return std::ptr::null_mut();
        }
        System.alloc_zeroed(l)
    }
    unsafe fn dealloc(&self, p: *mut u8, l: Layout) {
        on_free(l.size());
        System.dealloc(p, l)
    }
    unsafe fn realloc(&self, p: *mut u8, l: Layout, new_size: usize) -> *mut u8 {
        if new_size > l.size() {
            if !on_alloc(new_size - l.size()) {
                return std::ptr::null_mut();
            }
        } else {
            on_free(l.size() - new_size);
        }
        System.realloc(p, l, new_size)
    }
}

/// glibc's own view of the heap in use (covers allocations that bypass the Rust allocator, e.g. zlib-rs)
pub fn malloc_in_use() -> usize {
    unsafe {
        let mi = libc::mallinfo2();
        mi.uordblks + mi.hblkhd
    }
}

//! Engine: context, counters, generated/enumerated part runner, failure handling, evidence.

pub mod alloc;
pub mod findings;
pub mod panics;
pub mod robust;
pub mod worker;
pub mod tmp;
pub mod util;

use proptest::strategy::{BoxedStrategy, Strategy, ValueTree};
use proptest::test_runner::{Config, RngSeed, TestCaseError, TestError, TestRunner};
use serde::de::DeserializeOwned;
use serde::Serialize;
use serde_json::{json, Value};
use std::cell::Cell;
use std::collections::{BTreeMap, HashSet};
use std::fmt::Debug;
use std::sync::atomic::{AtomicBool, AtomicU64, Ordering};
use std::sync::Mutex;
use std::time::Instant;

#[derive(Clone, Copy, PartialEq, Eq, Debug)]
pub enum Tier {
    Quick,
    Thorough,
}

static GLOBAL_TIER: std::sync::OnceLock<Tier> = std::sync::OnceLock::new();

/// tier of this process (set once by `pv check`; quick for replays and tools)
pub fn set_global_tier(t: Tier) {
    let _ = GLOBAL_TIER.set(t);
}

pub fn global_tier() -> Tier {
    *GLOBAL_TIER.get().unwrap_or(&Tier::Quick)
}

impl Tier {
    pub fn name(self) -> &'static str {
        match self {
            Tier::Quick => "quick",
            Tier::Thorough => "thorough",
        }
    }
    pub fn pick<T>(self, q: T, t: T) -> T {
        match self {
            Tier::Quick => q,
            Tier::Thorough => t,
        }
    }
}

/// A property failure. `slug` identifies *what* failed in a way that is stable under shrinking and is
/// the key into known-findings.json; `msg` is the human-readable detail.
#[derive(Clone, Debug)]
pub struct Failure {
    pub slug: String,
    pub msg: String,
}

pub type PResult = Result<(), Failure>;

pub fn fail<T>(slug: &str, msg: impl Into<String>) -> Result<T, Failure> {
    Err(Failure { slug: slug.to_string(), msg: msg.into() })
}

#[macro_export]
macro_rules! ensure {
    ($cond:expr, $slug:expr, $($arg:tt)*) => {
        if !($cond) {
            return Err($crate::engine::Failure { slug: $slug.to_string(), msg: format!($($arg)*) });
        }
    };
}

#[macro_export]
macro_rules! ensure_eq {
    ($a:expr, $b:expr, $slug:expr, $($arg:tt)*) => {
        {
            let (a, b) = (&$a, &$b);
            if a != b {
                let mut left = format!("{:?}", a);
                let mut right = format!("{:?}", b);
                if left.len() > 600 { left.truncate(600); left.push_str("…"); }
                if right.len() > 600 { right.truncate(600); right.push_str("…"); }
                return Err($crate::engine::Failure { slug: $slug.to_string(), msg: format!("{}: physis={} expected={}", format!($($arg)*), left, right) });
            }
        }
    };
}

/// Journal mode (set by the supervisor after an abnormal termination): every case is written to a per-thread
/// file before it is executed, so that the case that kills the process can be identified afterwards.
pub fn journal_dir() -> Option<&'static std::path::PathBuf> {
    static DIR: std::sync::OnceLock<Option<std::path::PathBuf>> = std::sync::OnceLock::new();
    DIR.get_or_init(|| std::env::var("VERIF_JOURNAL").ok().map(std::path::PathBuf::from)).as_ref()
}

fn journal<C: Serialize>(id: &str, part: &str, c: &C) {
    if let Some(dir) = journal_dir() {
        thread_local! {
            static TID: u64 = {
                static NEXT: AtomicU64 = AtomicU64::new(0);
                NEXT.fetch_add(1, Ordering::Relaxed)
            };
        }
        let tid = TID.with(|t| *t);
        let body = json!({"property": id, "part": part, "case": serde_json::to_value(c).unwrap_or(Value::Null)});
        let _ = std::fs::write(dir.join(format!("thread-{}.json", tid)), serde_json::to_vec(&body).unwrap_or_default());
    }
}

thread_local! {
    /// false while proptest is shrinking (closure re-runs must not be counted)
    static COUNTING: Cell<bool> = const { Cell::new(true) };
}

thread_local! {
    /// fuller description of the failing case (e.g. with the materialised input bytes) for the replay file
    static CASE_DETAIL: std::cell::RefCell<Option<Value>> = const { std::cell::RefCell::new(None) };
}

pub fn set_case_detail(v: Value) {
    CASE_DETAIL.with(|c| *c.borrow_mut() = Some(v));
}

fn counting() -> bool {
    COUNTING.with(|c| c.get())
}

pub struct Violation {
    pub part: String,
    pub slug: String,
    pub msg: String,
    pub replay: String,
}

pub struct Ctx {
    pub id: &'static str,
    pub tier: Tier,
    pub seed: u64,
    /// replay mode: no allow-list, no counting requirements
    pub strict: bool,
    pub level: &'static str,
    start: Instant,
    evals: AtomicU64,
    nontrivial: Mutex<HashSet<u64>>,
    classes: Mutex<BTreeMap<String, u64>>,
    samples: Mutex<Vec<Value>>,
    pub violations: Mutex<Vec<Violation>>,
    known_hits: Mutex<BTreeMap<String, u64>>,
    excluded_known: AtomicU64,
    exhaustive_parts: Mutex<Vec<String>>,
    part_counts: Mutex<BTreeMap<String, u64>>,
    pub infra_error: AtomicBool,
    pub findings: findings::KnownFindings,
    pub rule: Mutex<String>,
    pub assumptions: Mutex<Vec<String>>,
    pub extra: Mutex<BTreeMap<String, Value>>,
    max_samples: usize,
}

impl Ctx {
    pub fn new(id: &'static str, tier: Tier, seed: u64, strict: bool) -> Ctx {
        Ctx {
            id,
            tier,
            seed,
            strict,
            level: if id == "C17" || id == "C18" { "fault_enumeration" } else { "exploration" },
            start: Instant::now(),
            evals: AtomicU64::new(0),
            nontrivial: Mutex::new(HashSet::new()),
            classes: Mutex::new(BTreeMap::new()),
            samples: Mutex::new(Vec::new()),
            violations: Mutex::new(Vec::new()),
            known_hits: Mutex::new(BTreeMap::new()),
            excluded_known: AtomicU64::new(0),
            exhaustive_parts: Mutex::new(Vec::new()),
            part_counts: Mutex::new(BTreeMap::new()),
            infra_error: AtomicBool::new(false),
            findings: findings::KnownFindings::load(),
            rule: Mutex::new(String::new()),
            assumptions: Mutex::new(Vec::new()),
            extra: Mutex::new(BTreeMap::new()),
            max_samples: 6,
        }
    }

    pub fn quick(&self) -> bool {
        self.tier == Tier::Quick
    }

    /// one executed case
    pub fn eval(&self) {
        if counting() {
            self.evals.fetch_add(1, Ordering::Relaxed);
        }
    }
    pub fn evals_add(&self, n: u64) {
        if counting() {
            self.evals.fetch_add(n, Ordering::Relaxed);
        }
    }
    /// record a non-trivial case by the hash of its canonical bytes
    pub fn nontrivial(&self, bytes: &[u8]) {
        if counting() {
            self.nontrivial.lock().unwrap().insert(util::fnv64(bytes));
        }
    }
    pub fn nontrivial_hash(&self, h: u64) {
        if counting() {
            self.nontrivial.lock().unwrap().insert(h);
        }
    }
    pub fn class(&self, name: &str) {
        if counting() {
            *self.classes.lock().unwrap().entry(name.to_string()).or_insert(0) += 1;
        }
    }
    pub fn class_n(&self, name: &str, n: u64) {
        if counting() {
            *self.classes.lock().unwrap().entry(name.to_string()).or_insert(0) += n;
        }
    }
    pub fn classf(&self, name: String) {
        if counting() {
            *self.classes.lock().unwrap().entry(name).or_insert(0) += 1;
        }
    }
    pub fn excluded(&self, n: u64) {
        if counting() {
            self.excluded_known.fetch_add(n, Ordering::Relaxed);
        }
    }
    pub fn want_sample(&self) -> bool {
        counting() && self.samples.lock().unwrap().len() < self.max_samples
    }
    pub fn sample_count(&self) -> usize {
        self.samples.lock().unwrap().len()
    }
    pub fn sample(&self, v: Value) {
        if counting() {
            let mut s = self.samples.lock().unwrap();
            if s.len() < self.max_samples {
                s.push(v);
            }
        }
    }
    pub fn set_rule(&self, r: &str) {
        *self.rule.lock().unwrap() = r.to_string();
    }
    pub fn assume(&self, a: &str) {
        self.assumptions.lock().unwrap().push(a.to_string());
    }
    pub fn exhaustive(&self, part: &str) {
        self.exhaustive_parts.lock().unwrap().push(part.to_string());
    }
    pub fn extra(&self, k: &str, v: Value) {
        self.extra.lock().unwrap().insert(k.to_string(), v);
    }
    pub fn infra(&self, msg: &str) {
        eprintln!("INFRA-ERROR property={} {}", self.id, msg);
        self.infra_error.store(true, Ordering::SeqCst);
    }

    /// Shard seed: pure function of (VERIF_SEED, property, part, shard).
    pub fn shard_seed(&self, part: &str, shard: u64) -> u64 {
        let mut h = util::splitmix64(self.seed ^ 0x9E37_79B9_7F4A_7C15);
        h = util::splitmix64(h ^ util::fnv64(self.id.as_bytes()));
        h = util::splitmix64(h ^ util::fnv64(part.as_bytes()));
        util::splitmix64(h ^ shard)
    }

    /// Handle a failed case: decide known finding vs violation, write the replay file, print the line.
    pub fn report(&self, part: &str, case: Value, f: &Failure) {
        let case = CASE_DETAIL.with(|c| c.borrow_mut().take()).unwrap_or(case);
        let sig = format!("{}:{}", self.id, f.slug);
        if !self.strict {
            if let Some(k) = self.findings.lookup(self.id, &sig) {
                let mut hits = self.known_hits.lock().unwrap();
                if !hits.keys().any(|h| h == &k.signature || self.findings.lookup(self.id, h).map(|x| x.signature == k.signature).unwrap_or(false)) {
                    println!("KNOWN-FINDING: property={} {} [{}]", self.id, k.what, k.signature);
                }
                *hits.entry(sig.clone()).or_insert(0) += 1;
                return;
            }
        }
        {
            // evidence always carries at least one written-out case, also when the run ends in a violation
            let mut s = self.samples.lock().unwrap();
            if s.len() < self.max_samples + 2 {
                let text = serde_json::to_string(&case).unwrap_or_default();
                s.push(json!({"failing_case": truncate(&text, 2000), "signature": sig}));
            }
        }
        let body = json!({"property": self.id, "part": part, "signature": sig, "message": f.msg, "case": case});
        let text = serde_json::to_string_pretty(&body).unwrap();
        let h = util::fnv64(text.as_bytes());
        let dir = util::verif_root().join("replays");
        let _ = std::fs::create_dir_all(&dir);
        let path = dir.join(format!("{}-{}-{:016x}.json", self.id, part, h));
        let _ = std::fs::write(&path, &text);
        let mut v = self.violations.lock().unwrap();
        // one line per distinct signature per part
        if !v.iter().any(|x| x.slug == f.slug && x.part == part) {
            println!("VIOLATION property={} replay={}", self.id, path.display());
            println!("  part={} signature={} :: {}", part, sig, truncate(&f.msg, 1500));
        }
        v.push(Violation { part: part.to_string(), slug: f.slug.clone(), msg: f.msg.clone(), replay: path.display().to_string() });
    }

    /// Print a KNOWN-FINDING line for a listed finding that a dedicated probe has just re-confirmed.
    pub fn known_probe_hit(&self, sig_slug: &str) -> bool {
        let sig = format!("{}:{}", self.id, sig_slug);
        if let Some(k) = self.findings.lookup(self.id, &sig) {
            let mut hits = self.known_hits.lock().unwrap();
            // one line per listed finding (a listed signature may cover several concrete ones)
            if !hits.keys().any(|h| h == &k.signature || self.findings.lookup(self.id, h).map(|x| x.signature == k.signature).unwrap_or(false)) {
                println!("KNOWN-FINDING: property={} {} [{}]", self.id, k.what, k.signature);
            }
            *hits.entry(sig.clone()).or_insert(0) += 1;
            true
        } else {
            false
        }
    }

    pub fn finish(&self) -> i32 {
        let wall = self.start.elapsed().as_secs_f64();
        let nviol = self.violations.lock().unwrap().len();
        let cov = {
            let mut m = serde_json::Map::new();
            m.insert("evaluations".into(), json!(self.evals.load(Ordering::Relaxed)));
            m.insert("distinct_nontrivial".into(), json!(self.nontrivial.lock().unwrap().len()));
            m.insert("rule".into(), json!(self.rule.lock().unwrap().clone()));
            m.insert("samples".into(), Value::Array(self.samples.lock().unwrap().clone()));
            m.insert("classes".into(), json!(*self.classes.lock().unwrap()));
            m.insert("parts".into(), json!(*self.part_counts.lock().unwrap()));
            m.insert("exhaustive_parts".into(), json!(*self.exhaustive_parts.lock().unwrap()));
            m.insert("excluded_known".into(), json!(self.excluded_known.load(Ordering::Relaxed)));
            m.insert("known_findings_hit".into(), json!(*self.known_hits.lock().unwrap()));
            for (k, v) in self.extra.lock().unwrap().iter() {
                m.insert(k.clone(), v.clone());
            }
            let v = self.violations.lock().unwrap();
            if !v.is_empty() {
                m.insert(
                    "violation_details".into(),
                    Value::Array(v.iter().take(20).map(|x| json!({"part": x.part, "signature": format!("{}:{}", self.id, x.slug), "message": truncate(&x.msg, 600), "replay": x.replay})).collect()),
                );
            }
            Value::Object(m)
        };
        let ev = json!({
            "property_id": self.id,
            "tier": self.tier.name(),
            "seed": self.seed,
            "level": self.level,
            "coverage": cov,
            "assumptions": *self.assumptions.lock().unwrap(),
            "wall_s": (wall * 1000.0).round() / 1000.0,
            "violations": nviol,
        });
        if !self.strict {
            let dir = util::verif_root().join("evidence");
            let _ = std::fs::create_dir_all(&dir);
            let p = dir.join(format!("{}.json", self.id));
            if let Err(e) = std::fs::write(&p, serde_json::to_string_pretty(&ev).unwrap()) {
                eprintln!("INFRA-ERROR cannot write evidence {}: {}", p.display(), e);
                return 2;
            }
        }
        let evals = self.evals.load(Ordering::Relaxed);
        let nt = self.nontrivial.lock().unwrap().len();
        println!(
            "SUMMARY property={} tier={} seed={} evaluations={} distinct_nontrivial={} violations={} known_findings_hit={} wall_s={:.1}",
            self.id,
            self.tier.name(),
            self.seed,
            evals,
            nt,
            nviol,
            self.known_hits.lock().unwrap().len(),
            wall
        );
        if nviol > 0 {
            1
        } else if self.infra_error.load(Ordering::SeqCst) {
            2
        } else {
            0
        }
    }
}

pub fn truncate(s: &str, n: usize) -> String {
    if s.len() <= n {
        s.to_string()
    } else {
        let mut e = n;
        while !s.is_char_boundary(e) {
            e -= 1;
        }
        format!("{}…", &s[..e])
    }
}

// ------------------------------------------------------------------------------------------------
// Parts
// ------------------------------------------------------------------------------------------------

pub enum Driver<C> {
    /// proptest-generated: strategy constructor and case counts (quick, thorough)
    Gen(fn(&Ctx) -> BoxedStrategy<C>, u32, u32),
    /// enumerated finite domain
    Enum(fn(&Ctx) -> Vec<C>),
}

pub struct Part<C> {
    pub name: &'static str,
    pub driver: Driver<C>,
    pub prop: fn(&C, &Ctx) -> PResult,
    pub exhaustive: bool,
}

pub trait AnyPart: Sync {
    fn name(&self) -> &'static str;
    fn run(&self, ctx: &Ctx);
    fn replay(&self, ctx: &Ctx, case: &Value) -> Result<PResult, String>;
}

pub fn threads() -> usize {
    std::env::var("VERIF_THREADS").ok().and_then(|s| s.parse().ok()).unwrap_or_else(|| std::thread::available_parallelism().map(|n| n.get()).unwrap_or(4).min(16))
}

/// Run `prop` on a case, converting an unexpected harness panic into an infra error and a Physis panic
/// (raised inside `panics::guard`) that was not turned into a Failure by the property into a failure.
/// every 32nd case of a functional check runs on a thread of its own (see `run_case_fresh`)
const FRESH_EVERY: u64 = 32;

/// The isolation-worker checks (C17, C18) already run every call in another process.
fn fresh_threads_apply(ctx: &Ctx) -> bool {
    ctx.id != "C17" && ctx.id != "C18" && std::env::var("VERIF_NO_FRESH_THREADS").is_err()
}

/// Run a case on a newly spawned thread: the calls into Physis are then the first that thread ever makes, so a result that
/// depends on per-thread state left behind by earlier calls (a cache, a memo, a scratch buffer) differs from the oracle's.
pub fn run_case_fresh<C: Sync>(ctx: &Ctx, prop: fn(&C, &Ctx) -> PResult, c: &C) -> PResult {
    let counting = counting();
    let (r, detail) = std::thread::scope(|s| {
        s.spawn(move || {
            COUNTING.with(|x| x.set(counting));
            let r = run_case(ctx, prop, c);
            (r, CASE_DETAIL.with(|d| d.borrow_mut().take()))
        })
        .join()
        .unwrap_or_else(|_| (Err(Failure { slug: "harness-panic".into(), msg: "the thread running the case panicked".into() }), None))
    });
    CASE_DETAIL.with(|d| *d.borrow_mut() = detail);
    r
}

pub fn run_case<C>(ctx: &Ctx, prop: fn(&C, &Ctx) -> PResult, c: &C) -> PResult {
    CASE_DETAIL.with(|c| *c.borrow_mut() = None);
    let r = std::panic::catch_unwind(std::panic::AssertUnwindSafe(|| prop(c, ctx)));
    match r {
        Ok(r) => r,
        Err(_) => {
            let info = panics::take_last();
            Err(Failure { slug: "harness-panic".into(), msg: format!("panic outside a Physis call: {}", info.map(|i| i.describe()).unwrap_or_default()) })
        }
    }
}

impl<C> AnyPart for Part<C>
where
    C: Debug + Clone + Serialize + DeserializeOwned + Send + Sync + 'static,
{
    fn name(&self) -> &'static str {
        self.name
    }

    fn replay(&self, ctx: &Ctx, case: &Value) -> Result<PResult, String> {
        let c: C = serde_json::from_value(case.clone()).map_err(|e| format!("cannot decode case for part {}: {}", self.name, e))?;
        ctx.eval();
        let r = run_case(ctx, self.prop, &c);
        if r.is_ok() && fresh_threads_apply(ctx) {
            // a replayed case is run both ways: on this thread and as the first work of a new one
            return Ok(run_case_fresh(ctx, self.prop, &c));
        }
        Ok(r)
    }

    fn run(&self, ctx: &Ctx) {
        let before = ctx.evals.load(Ordering::Relaxed);
        match &self.driver {
            Driver::Enum(mk) => {
                let cases = mk(ctx);
                let n = threads().min(cases.len().max(1));
                let next = AtomicU64::new(0);
                let stop = AtomicBool::new(false);
                std::thread::scope(|s| {
                    for _ in 0..n {
                        s.spawn(|| loop {
                            let i = next.fetch_add(1, Ordering::Relaxed) as usize;
                            if i >= cases.len() || stop.load(Ordering::Relaxed) {
                                break;
                            }
                            ctx.eval();
                            journal(ctx.id, self.name, &cases[i]);
                            let fresh = fresh_threads_apply(ctx) && i as u64 % FRESH_EVERY == FRESH_EVERY - 1;
                            if fresh {
                                ctx.class("engine:case-run-on-a-fresh-thread");
                            }
                            if let Err(f) = if fresh { run_case_fresh(ctx, self.prop, &cases[i]) } else { run_case(ctx, self.prop, &cases[i]) } {
                                if f.slug == "harness-panic" {
                                    ctx.infra(&f.msg);
                                }
                                ctx.report(self.name, serde_json::to_value(&cases[i]).unwrap_or(Value::Null), &f);
                                // keep going: enumerations report every distinct signature, but cap the noise
                                if ctx.violations.lock().unwrap().len() > 50 {
                                    stop.store(true, Ordering::Relaxed);
                                }
                            }
                        });
                    }
                });
                if self.exhaustive {
                    ctx.exhaustive(self.name);
                }
            }
            Driver::Gen(mk, q, t) => {
                let total = ctx.tier.pick(*q, *t) as u64;
                let total = (total as f64 * case_scale()).ceil() as u64;
                let n = (threads() as u64).min(total.max(1));
                std::thread::scope(|s| {
                    for shard in 0..n {
                        let cases = total / n + if shard < total % n { 1 } else { 0 };
                        if cases == 0 {
                            continue;
                        }
                        s.spawn(move || {
                            COUNTING.with(|c| c.set(true));
                            let cfg = Config {
                                cases: cases as u32,
                                failure_persistence: None,
                                rng_seed: RngSeed::Fixed(ctx.shard_seed(self.name, shard)),
                                max_shrink_iters: 4096,
                                // shrinking only decides how small the replay file is, never the verdict: bound it, so that a
                                // failure whose every re-run is expensive (a hang costs its whole CPU budget) is still
                                // reported within minutes
                                max_shrink_time: 120_000,
                                max_global_rejects: 65536,
                                ..Config::default()
                            };
                            let mut runner = TestRunner::new(cfg);
                            let strat = mk(ctx);
                            // every 32nd case of the shard runs on a fresh thread; once a case has failed, its re-runs
                            // (shrinking, the final report) keep the mode the failure was found in
                            let apply = fresh_threads_apply(ctx);
                            let case_no = Cell::new(0u64);
                            let failed_mode: Cell<Option<bool>> = Cell::new(None);
                            let run = |c: &C| -> PResult {
                                let fresh = match failed_mode.get() {
                                    Some(m) => m,
                                    None => {
                                        let k = case_no.get();
                                        case_no.set(k + 1);
                                        apply && k % FRESH_EVERY == FRESH_EVERY - 1
                                    }
                                };
                                if fresh && failed_mode.get().is_none() {
                                    ctx.class("engine:case-run-on-a-fresh-thread");
                                }
                                let r = if fresh { run_case_fresh(ctx, self.prop, c) } else { run_case(ctx, self.prop, c) };
                                if r.is_err() && failed_mode.get().is_none() {
                                    failed_mode.set(Some(fresh));
                                }
                                r
                            };
                            let r = runner.run(&strat, |c| {
                                ctx.eval();
                                journal(ctx.id, self.name, &c);
                                match run(&c) {
                                    Ok(()) => Ok(()),
                                    Err(f) => {
                                        // everything after the first failure is shrinking: stop counting
                                        COUNTING.with(|c| c.set(false));
                                        Err(TestCaseError::fail(format!("{}: {}", f.slug, truncate(&f.msg, 300))))
                                    }
                                }
                            });
                            COUNTING.with(|c| c.set(true));
                            match r {
                                Ok(()) => {}
                                Err(TestError::Fail(_, minimal)) => {
                                    COUNTING.with(|c| c.set(false));
                                    let res = run(&minimal);
                                    COUNTING.with(|c| c.set(true));
                                    match res {
                                        Err(f) => {
                                            if f.slug == "harness-panic" {
                                                ctx.infra(&f.msg);
                                            }
                                            ctx.report(self.name, serde_json::to_value(&minimal).unwrap_or(Value::Null), &f)
                                        }
                                        Ok(()) => ctx.infra(&format!("part {}: shrunk case no longer fails (non-deterministic property?)", self.name)),
                                    }
                                }
                                Err(TestError::Abort(why)) => ctx.infra(&format!("part {}: proptest aborted: {}", self.name, why)),
                            }
                        });
                    }
                });
            }
        }
        let after = ctx.evals.load(Ordering::Relaxed);
        ctx.part_counts.lock().unwrap().insert(self.name.to_string(), after - before);
    }
}

fn case_scale() -> f64 {
    std::env::var("VERIF_SCALE").ok().and_then(|s| s.parse().ok()).unwrap_or(1.0)
}

/// Draw one value from a strategy with a fixed seed (used for deterministic seed files of sweeps).
pub fn draw_fixed<C: Debug>(strat: &BoxedStrategy<C>, seed: u64) -> C {
    let cfg = Config { rng_seed: RngSeed::Fixed(seed), failure_persistence: None, ..Config::default() };
    let mut runner = TestRunner::new(cfg);
    strat.new_tree(&mut runner).expect("strategy failed").current()
}

pub struct Property {
    pub id: &'static str,
    pub parts: Vec<Box<dyn AnyPart>>,
    pub rule: &'static str,
    pub assumptions: &'static [&'static str],
    /// run before the parts (oracle self-checks, known-finding probes)
    pub pre: Option<fn(&Ctx)>,
    /// run after the parts (development-time dumps)
    pub post: Option<fn(&Ctx)>,
}

pub fn run_property(p: &Property, ctx: &Ctx) -> i32 {
    ctx.set_rule(p.rule);
    for a in p.assumptions {
        ctx.assume(a);
    }
    // replay tier: committed corpus cases
    let dir = util::verif_root().join("corpus").join(p.id);
    if let Ok(rd) = std::fs::read_dir(&dir) {
        let mut files: Vec<_> = rd.filter_map(|e| e.ok()).map(|e| e.path()).filter(|p| p.extension().map(|e| e == "json").unwrap_or(false)).collect();
        files.sort();
        let mut n = 0u64;
        for f in files {
            match replay_file(p, ctx, &f) {
                Ok(Ok(())) => {}
                Ok(Err((part, case, fl))) => ctx.report(&part, case, &fl),
                Err(e) => ctx.infra(&format!("corpus file {}: {}", f.display(), e)),
            }
            n += 1;
        }
        ctx.part_counts.lock().unwrap().insert("corpus-replay".into(), n);
    }
    if let Some(pre) = p.pre {
        pre(ctx);
    }
    let only = std::env::var("VERIF_PART").ok();
    for part in &p.parts {
        if let Some(o) = &only {
            if o != part.name() {
                continue;
            }
        }
        // a run that has already shown more than 50 violations reports them instead of looking for more (harvest mode
        // collects signatures, not violations, and always runs every part)
        if ctx.violations.lock().unwrap().len() > 50 {
            eprintln!("  part {} skipped: more than 50 violations already shown", part.name());
            continue;
        }
        let t = Instant::now();
        part.run(ctx);
        if std::env::var("VERIF_VERBOSE").is_ok() {
            eprintln!("  part {} done in {:.1}s", part.name(), t.elapsed().as_secs_f64());
        }
    }
    if let Some(post) = p.post {
        post(ctx);
    }
    ctx.finish()
}

pub fn replay_file(p: &Property, ctx: &Ctx, path: &std::path::Path) -> Result<Result<(), (String, Value, Failure)>, String> {
    let text = std::fs::read_to_string(path).map_err(|e| e.to_string())?;
    let v: Value = serde_json::from_str(&text).map_err(|e| e.to_string())?;
    let part = v.get("part").and_then(|x| x.as_str()).ok_or("no part")?.to_string();
    let case = v.get("case").ok_or("no case")?.clone();
    for pt in &p.parts {
        if pt.name() == part {
            return match pt.replay(ctx, &case)? {
                Ok(()) => Ok(Ok(())),
                Err(f) => Ok(Err((part, case, f))),
            };
        }
    }
    Err(format!("unknown part {}", part))
}

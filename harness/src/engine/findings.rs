//! known-findings.json: committed, read-only at run time.
use serde::Deserialize;

#[derive(Deserialize, Clone, Debug)]
pub struct Finding {
    pub property: String,
    /// "<ID>:<slug>"
    pub signature: String,
    pub what: String,
}

#[derive(Deserialize, Clone, Debug, Default)]
pub struct KnownFindings {
    #[serde(default)]
    pub findings: Vec<Finding>,
    #[serde(default)]
    pub fixed: Vec<String>,
}

impl KnownFindings {
    pub fn load() -> KnownFindings {
        let p = super::util::verif_root().join("known-findings.json");
        match std::fs::read_to_string(&p) {
            Ok(t) => match serde_json::from_str(&t) {
                Ok(k) => k,
                Err(e) => {
                    eprintln!("INFRA-ERROR known-findings.json does not parse: {}", e);
                    std::process::exit(2);
                }
            },
            Err(_) => KnownFindings::default(),
        }
    }
    /// exact match, or prefix match for a listed signature that ends in '*' (a finding that names a whole module)
    pub fn lookup(&self, prop: &str, sig: &str) -> Option<&Finding> {
        self.findings.iter().find(|f| f.property == prop && (f.signature == sig || f.signature.strip_suffix('*').map(|p| sig.starts_with(p)).unwrap_or(false)))
    }
    pub fn is_listed(&self, prop: &str, slug: &str) -> bool {
        let sig = format!("{}:{}", prop, slug);
        self.lookup(prop, &sig).is_some()
    }
}

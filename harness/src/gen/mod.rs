//! Shared proptest strategies.
use proptest::collection::vec;
use proptest::prelude::*;

/// Lengths biased toward small values but reaching `max`.
pub fn biased_len(max: usize) -> BoxedStrategy<usize> {
    let small = max.min(16);
    let mid = max.min(300);
    prop_oneof![
        4 => 0..=small,
        3 => 0..=mid,
        1 => 0..=max,
    ]
    .boxed()
}

pub fn bytes(max: usize) -> BoxedStrategy<Vec<u8>> {
    biased_len(max).prop_flat_map(|n| vec(any::<u8>(), n)).boxed()
}

pub fn bytes_exact(n: usize) -> BoxedStrategy<Vec<u8>> {
    vec(any::<u8>(), n).boxed()
}

/// ASCII (0..=127) strings of biased length.
pub fn ascii_any(max: usize) -> BoxedStrategy<String> {
    biased_len(max).prop_flat_map(|n| vec(0u8..128, n)).prop_map(|v| String::from_utf8(v).unwrap()).boxed()
}

/// Strings over an explicit alphabet.
pub fn from_alphabet(alpha: &'static str, min: usize, max: usize) -> BoxedStrategy<String> {
    let chars: Vec<char> = alpha.chars().collect();
    vec(any::<u16>(), min..=max).prop_map(move |ix| ix.into_iter().map(|i| chars[crate::engine::util::pick_idx(i, chars.len())]).collect()).boxed()
}

/// Long ASCII strings (letters, digits, blanks) generated from a seed: lengths around 4 KiB, 8 KiB and 64 KiB - where a reader
/// that looks at its input in pieces changes from one piece to the next - and free lengths up to 20 000.
pub fn long_ascii() -> BoxedStrategy<String> {
    (prop_oneof![3 => 4080usize..4110, 1 => 8180usize..8200, 1 => 1000usize..20_000, 1 => 65_530usize..65_540], any::<u64>())
        .prop_map(|(n, seed)| {
            let alpha = b"abcdefghijklmnopqrstuvwxyzABCDEFGHIJKLMNOPQRSTUVWXYZ0123456789 _-";
            let mut x = seed;
            let mut s = String::with_capacity(n);
            while s.len() < n {
                x = crate::engine::util::splitmix64(x);
                for k in 0..8 {
                    if s.len() < n {
                        s.push(alpha[((x >> (8 * k)) & 0xff) as usize % alpha.len()] as char);
                    }
                }
            }
            s
        })
        .boxed()
}

#!/usr/bin/env python3
"""tools/seedtable.py : write seeded/INDEX.md - one row per seeded change of every round, from the meta.json files."""
import json, os, re
root = '/verif/seeded'
rows = {}
for d in sorted(os.listdir(root)):
    mp = f'{root}/{d}/meta.json'
    if not os.path.exists(mp):
        continue
    m = json.load(open(mp))
    rnd = m.get('round', 1)
    det = m.get('detection', {})
    fp = det.get('first_pass_exit')
    first = '-' if fp is None else ('caught' if fp == 1 else '**missed**')
    now = 'caught' if det.get('caught') else ('**not decided**' if det.get('remark') else '**missed**')
    title = m.get('breaks', '')
    title = re.sub(r'^C\d\d\s*[/-]?\s*(r(ound )?\d+\s*[/,-]?\s*)?(change )?[abc]?\s*[-—:(]*\s*', '', title, flags=re.I).strip()
    sig = ', '.join(s.split(':', 1)[-1] for s in det.get('signatures', []))[:110]
    rows.setdefault(rnd, []).append(f"| {d} | {title[:150]} | {first} | {now} | `{sig}` |" if sig else f"| {d} | {title[:150]} | {first} | {now} | |")
out = ['# Independently seeded changes: which check catches which', '',
       'One row per change; detections are at the **quick** tier, seed 0. "first pass" is the verdict of the check as it stood when the',
       'change was delivered, "now" after the extensions described in DESIGN.md section 7. Each directory holds patch.diff, demo.rs,',
       'notes.md and meta.json (what the change needs in order to manifest, what was run, remarks for changes that are not decided).', '']
for rnd in sorted(rows):
    n = len(rows[rnd])
    caught = sum('| caught |' in r.split('|', 4)[4] for r in rows[rnd])
    out += [f'## Round {rnd} ({n} changes)', '', '| change | what it does | first pass | now | signature(s) reported |', '|---|---|---|---|---|'] + rows[rnd] + ['']
open(f'{root}/INDEX.md', 'w').write('\n'.join(out))
print('\n'.join(f'round {r}: {len(rows[r])}' for r in sorted(rows)))

#!/usr/bin/env python3
"""tools/seedmeta.py <round> : write seeded/<ID>-r<round><x>/meta.json from the notes and the three logs of that round
(seeded/verify-round<N>.log, seeded/seedrun-round<N>-first-pass.log, seeded/seedrun-round<N>-final.log)."""
import json, os, re, subprocess, sys
rnd = int(sys.argv[1])
root = '/verif/seeded'
head = subprocess.check_output(['git', '-C', '/repo', 'rev-parse', '--short', 'HEAD']).decode().strip()
def parse_runs(path):
    out = {}
    for l in open(path):
        m = re.match(r'(C\d\d) (\S+) tier=(\w+) exit=(\d+) (?:wall_s=([\d.]+))? ?(.*)', l.strip())
        if not m:
            continue
        pid, patch, tier, code, wall, sigs = m.groups()
        x = re.search(r'([abc])\.patch\.diff|-r\d+([abc])/patch\.diff', patch)
        letter = x.group(1) or x.group(2)
        out[(pid, letter)] = dict(exit=int(code), wall=float(wall) if wall else None, sigs=[s.split('=', 1)[1] for s in sigs.split() if s.startswith('signature=')])
    return out
first = parse_runs(f'{root}/seedrun-round{rnd}-first-pass.log')
final = parse_runs(f'{root}/seedrun-round{rnd}-final.log')
verify = {}
for l in open(f'{root}/verify-round{rnd}.log'):
    p = l.split()
    if len(p) >= 3 and re.match(r'C\d\d$', p[0]):
        verify[(p[0], p[1])] = ' '.join(p[2:])
notes_override = json.load(open(f'{root}/round{rnd}-remarks.json')) if os.path.exists(f'{root}/round{rnd}-remarks.json') else {}
for d in sorted(os.listdir(root)):
    m = re.match(rf'(C\d\d)-r{rnd}([abc])$', d)
    if not m:
        continue
    pid, x = m.groups()
    notes = open(f'{root}/{d}/notes.md').read()
    lines = [l.strip() for l in notes.splitlines() if l.strip()]
    title = lines[0].lstrip('# ').strip()
    need = next((l for l in lines if re.search(r'need(s|ed)?( to manifest)?\b', l, re.I)), '')
    fp, fn = first.get((pid, x)), final.get((pid, x))
    cmd = (f'tools/seedrun.sh {pid} /verif/seeded/{d}/patch.diff  (git -C /repo apply; ./check {pid} quick; git -C /repo checkout -- .; ./check build)' if rnd < 8 else
           f'side copy (DESIGN.md 10.8): git -C <scratch worktree of /repo> apply /verif/seeded/{d}/patch.diff; VERIF_REPO=<worktree> ./check {pid} quick in a copy of /verif whose harness depends on that worktree; git checkout -- .')
    det = dict(command=cmd,
               exit=fn['exit'] if fn else None, caught=bool(fn and fn['exit'] == 1), signatures=fn['sigs'] if fn else [], wall_s=fn['wall'] if fn else None,
               first_pass_exit=fp['exit'] if fp else None)
    if fp and fp['exit'] == 0 and fn and fn['exit'] == 1:
        det['first_pass'] = 'MISSED by the property\'s own check as it was when the change was delivered; generator / sweep / oracle extended afterwards (DESIGN.md section 7, table of that round), no oracle loosened'
    if d in notes_override:
        det['remark'] = notes_override[d]
    meta = dict(property=pid, change=d, round=rnd,
                source='independent sub-agent given only the property record, a private worktree of /repo at its repaired HEAD, and the one-line titles of the earlier rounds\' changes for this property (nothing from /verif)',
                breaks=title, needs_to_manifest=need,
                files=dict(patch='patch.diff', demonstration='demo.rs (drop into the crate as tests/seed_demo.rs)', notes='notes.md'),
                verified_at_repo_head=head,
                verification=dict(command=f'tools/verify_seed.sh {pid} {x} <dir>  (scratch worktree /tmp/seed/{pid} at /repo HEAD: git apply; cargo test --workspace --no-fail-fast --offline with tests/seed_demo.rs in place; git apply -R; cargo test --offline --test seed_demo)',
                                  result=verify.get((pid, x), 'not recorded'),
                                  meaning='patch applies; repository suite passes with it (known-flaky patch::tests re-run single-threaded); demonstration fails with the change and passes without it'),
                detection=det)
    json.dump(meta, open(f'{root}/{d}/meta.json', 'w'), indent=1)
    print(d, 'caught' if det['caught'] else 'NOT CAUGHT', det['signatures'][:2])

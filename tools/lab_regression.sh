#!/bin/bash
# /tmp/lab/reg.sh <lab> <listfile>: run every listed seeded change on one lane, append to the regression log
LAB=$1; LIST=$2
while read -r id patch; do
  [ -z "$id" ] && continue
  ( flock 9; /tmp/lab/seedrun.sh $id $patch quick $LAB 2>&1 | tail -1 >> /verif/seeded/seedrun-regression-3.log ) 9>$LAB/lock
done < $LIST
echo "lane $LAB done" >> /tmp/lab/reg-done.txt

#!/usr/bin/env python3
"""tools/compose_final.py <round> : complete seeded/seedrun-round<N>-final.log - the changes that were caught on the first pass
were not run again on their own; their line is taken from the regression pass over all rounds (seeded/seedrun-regression-3.log),
which ran every change against the final checks."""
import re, sys
rnd = sys.argv[1]
root = '/verif/seeded'
def load(path):
    out = {}
    try:
        for l in open(path):
            m = re.match(r'(C\d\d) (C\d\d-r%s[abc])/patch\.diff ' % rnd, l)
            if m:
                out[m.group(2)] = l.rstrip('\n')
    except FileNotFoundError:
        pass
    return out
final = load(f'{root}/seedrun-round{rnd}-final.log')
reg = load(f'{root}/seedrun-regression-3.log')
first = load(f'{root}/seedrun-round{rnd}-first-pass.log')
missing = []
lines = []
for k in sorted(first):
    if k in final:
        lines.append(final[k])
    elif k in reg:
        lines.append(reg[k])
    else:
        missing.append(k)
open(f'{root}/seedrun-round{rnd}-final.log', 'w').write('\n'.join(lines) + '\n')
print(f'round {rnd}: {len(lines)} lines, missing {missing}')

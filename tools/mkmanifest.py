#!/usr/bin/env python3
"""Regenerates /verif/MANIFEST.json from the table below (single source of truth for the interface)."""
import json, os, sys
ROOT = os.path.dirname(os.path.dirname(os.path.abspath(__file__)))

# id -> (technique, level text, level note, design ref)
CLAIMED = {
 "C01": ("model-based property testing (proptest): generated installations + query histories vs. a stateless lookup model with own JAMCRC; reversed-history metamorphic replay; covering sweep over (category, expansion, chunk, platform)",
         "Generated-input search over archive layouts and query histories; every answer of exists/find_offset/extract compared with an independent reference model; extract proves dat file and offset through content that embeds its own location.",
         "Trusts the harness's SqPack encoder (written from the format) and CRC; CRC collisions between generated paths ignored.", "5/C01"),
 "C02": ("round-trip property testing (proptest): own SqPack/deflate (miniz_oxide) encoder -> Physis extraction -> byte comparison / header validity predicate",
         "Generated-input search over entry kinds, block splits and per-block raw/stored/fixed/dynamic deflate streams; extracted bytes compared with the packed content (model entries through a validity predicate over the synthesised header).",
         "Trusts miniz_oxide as an independent deflater (self-checked) and the harness's entry encoder.", "5/C02"),
 "C03": ("model-based property testing (proptest) + bounded-exhaustive enumeration: generated chunk sequences / patch chains applied by Physis to a scratch tree, compared with an in-memory file-system model of the reference ZiPatch semantics",
         "Generated-input search over chunk sequences and patch chains plus all sequences of length <= 2 (<= 3 thorough) over a concrete 12-chunk alphabet; resulting tree compared file-by-file with a reference model.",
         "Trusts the harness's ZiPatch encoder and file-system model (written from the format and XIVLauncher's semantics); directory effects asserted only as required <= actual <= allowed.", "5/C03"),
 "C04": ("round-trip property testing (proptest): generated tree pairs (A, B) -> ZiPatch::create -> ZiPatch::apply on a copy of A -> comparison with B; read-only check on A and B",
         "Generated-input search over pairs of directory trees with every overlap kind and block-alignment-boundary sizes; the patched copy must equal B's non-empty files exactly.",
         "Trusts the harness's tree walker/comparator; empty B-side files may be absent or empty.", "5/C04"),
 "C05": ("round-trip property testing (proptest): own big-endian EXH/EXD/EXL encoder -> Physis read_row / sheet lookup through a generated archive -> comparison with the generated cell values",
         "Generated-input search over schemas (all 19 column types, arbitrary offsets), row sets (sub-rows, string heaps, extreme values) and archive layouts; every cell compared with the stored value.",
         "Trusts the harness's Excel encoder (written from the format description, junk-filled gaps).", "5/C05"),
 "C11": ("property-based differential testing (proptest) against a textbook Blowfish with pi-derived tables; published vectors enumerated",
         "Generated-input search: thousands of random keys/messages per run compared block-by-block with an independent reference whose tables are computed from pi at run time; held on everything explored, not a proof.",
         "Trusts the harness's reference Blowfish and pi computation (self-checked against Schneier's vectors and table end words at start-up).", "5/C11"),
 "C12": ("property-based differential testing (proptest) against bitwise CRC and FIPS SHA-1; exhaustive by length 0..300; case-flip metamorphic relation",
         "Generated-input search over ASCII strings and files on every SHA-1 padding boundary, compared with independent implementations; lengths 0..300 enumerated exhaustively.",
         "Trusts the harness's own CRC/SHA-1 (validated against published check values at start-up).", "5/C12"),
 "C15": ("exhaustive enumeration of the finite domains with structural oracles (tribe codes 2r-1/2r, injectivity maps, documented name patterns) and a differential check of Repository file names against the files ZiPatch::apply creates",
         "Complete enumeration: all 256 race/tribe/gender triples, all 100 000 (id, slot), all permutations of repository sets, all 60 000 file-name combinations cross-checked against patch application.",
         "Trusts that tribe/race enums carry game codes allocated in race order (structural oracle).", "5/C15"),
}
PENDING = {}
props = [json.loads(l) for l in open(os.path.join(ROOT, "properties.jsonl"))]
checks, na = [], []
for p in props:
    i = p["id"]
    if i in CLAIMED:
        tech, text, note, ref = CLAIMED[i]
        checks.append({
            "property_id": i,
            "quick_cmd": f"./check {i} quick",
            "thorough_cmd": f"./check {i} thorough",
            "evidence_file": f"/verif/evidence/{i}.json",
            "replay_cmd_template": f"./check replay {i} {{path}}",
            "engine": "pv",
            "level_claimed": {"category": "fault_enumeration" if i in ("C17", "C18") else "exploration", "text": text, "design_ref": f"DESIGN.md section {ref}"},
            "level_note": note,
            "technique": tech,
        })
    else:
        na.append({"property_id": i, "reason": PENDING.get(i, "check not built yet in this session (planned: generated-input search as described in DESIGN.md section 5); not claimed until its check exists and is silent on the unchanged tree")})
m = {
 "version": 1,
 "setup_cmd": "./check build",
 "hooks": {"guard": "physis_verif", "enable": "none needed: all observations go through the public API; no guarded source changes exist", "baseline_off_cmd": "cd /repo && cargo test --workspace --no-fail-fast --offline", "source_commits": [], "add_only": True},
 "engines": [{"name": "pv", "path": "/verif/harness", "serves_properties": [c["property_id"] for c in checks], "kind_free_text": "Rust binary: proptest 1.11 TestRunner (fixed seeds, sharded), enumerators for finite sub-domains, independent encoders/oracles, isolation worker subprocesses for robustness properties"}],
 "checks": checks,
 "not_applicable": na,
 "notes": "VERIF_SEED selects the PRNG seed (default 0); work is fixed by case count. Exit 0 held / 1 VIOLATION / 2 inconclusive or infrastructure error. known-findings.json is read-only at run time.",
}
json.dump(m, open(os.path.join(ROOT, "MANIFEST.json"), "w"), indent=1)
print("claimed", len(checks), "not_applicable", len(na))

#!/bin/bash
# /tmp/lab/seedrun.sh <ID> <patch.diff> [tier] [lab]: like tools/seedrun.sh but on the side copy (lab), leaving /repo and /verif alone
set -u
ID=$1; PATCH=$2; TIER=${3:-quick}; LAB=${4:-/tmp/lab}
cd $LAB/verif || exit 2
if [ -n "$(git -C $LAB/physis status --porcelain --untracked-files=no)" ]; then echo "$ID $PATCH lab-not-clean"; exit 2; fi
if ! git -C $LAB/physis apply "$PATCH"; then echo "$ID $PATCH apply-failed"; exit 2; fi
out=$( (export VERIF_REPO=$LAB/physis; timeout 1800 ./check "$ID" "$TIER") 2>&1 ); code=$?
git -C $LAB/physis checkout -- .
sigs=$(echo "$out" | grep -o "signature=[^ ]*" | sort -u | tr '\n' ' ')
secs=$(echo "$out" | grep -o "wall_s=[0-9.]*" | tail -1)
echo "$ID $(basename $(dirname $PATCH))/$(basename $PATCH) tier=$TIER exit=$code $secs $sigs"

#!/usr/bin/env python3
"""Sensitivity testing: apply one hand-written mutation to /repo, run checks, restore.
usage: tools/mut.py NAME FILE OLD NEW CHECK[,CHECK...] [--tests]
  Replaces the first occurrence of OLD by NEW in /repo/FILE (must exist exactly >=1), saves the diff as
  mutants/NAME.diff, optionally runs the repository's own test-suite (the mutant must pass it to be "realistic"),
  runs ./check <ID> quick for each ID, appends the verdict to mutants/LOG.md and restores the tree.
"""
import subprocess, sys, os, time, re
ROOT = os.path.dirname(os.path.dirname(os.path.abspath(__file__)))
def sh(cmd, **kw):
    return subprocess.run(cmd, shell=True, capture_output=True, text=True, **kw)
def main():
    args = [a for a in sys.argv[1:] if not a.startswith('--')]
    run_tests = '--tests' in sys.argv
    name, file, old, new, checks = args[:5]
    st = sh('git -C /repo status --porcelain').stdout.strip()
    if st:
        print('repo not clean:', st); sys.exit(2)
    p = os.path.join('/repo', file)
    s = open(p).read()
    if old not in s:
        print('OLD not found in', file); sys.exit(2)
    open(p, 'w').write(s.replace(old, new, 1))
    try:
        diff = sh('git -C /repo diff').stdout
        os.makedirs(os.path.join(ROOT, 'mutants'), exist_ok=True)
        open(os.path.join(ROOT, 'mutants', name + '.diff'), 'w').write(diff)
        tests = 'not run'
        if run_tests:
            r = sh('cd /repo && cargo test --workspace --no-fail-fast --offline 2>&1 | grep -E "^test result|^error"')
            tests = 'pass' if ('failed' not in r.stdout.replace('0 failed', '') and 'error' not in r.stdout and r.stdout.strip()) else 'FAIL: ' + r.stdout.strip()[:300]
        lines = []
        for c in checks.split(','):
            t = time.time()
            r = sh(f'cd {ROOT} && ./check {c} quick')
            dt = time.time() - t
            sigs = sorted(set(re.findall(r'signature=(\S+)', r.stdout)))
            verdict = {0: 'MISSED (exit 0)', 1: 'caught'}.get(r.returncode, f'exit {r.returncode}: ' + (r.stderr.strip().splitlines() or [''])[-1][:200])
            lines.append(f'| {name} | {file} | {c} | {verdict} | {", ".join(sigs)[:300]} | {dt:.0f}s | repo tests: {tests} |')
            print(lines[-1])
        with open(os.path.join(ROOT, 'mutants', 'LOG.md'), 'a') as f:
            for l in lines: f.write(l + '\n')
    finally:
        sh('git -C /repo checkout -- .')
main()

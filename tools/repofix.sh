#!/bin/bash
# tools/repofix.sh "<commit message>" : run the repository's own suite on /repo's working tree and commit if it passes
# (the two patch::tests are known-flaky when run in parallel: they are re-run single-threaded)
set -u
cd /repo || exit 2
out=$(CARGO_NET_OFFLINE=true cargo test --workspace --no-fail-fast --offline 2>&1)
fails=$(echo "$out" | grep -E "^test .* FAILED" | grep -v "^test result\|patch::tests::test_add_file_op\|patch::tests::test_invalid")
if echo "$out" | grep -q "error\[" || echo "$out" | grep -q "^error: could not compile"; then echo "$out" | grep -A12 "^error" | head -60; exit 1; fi
if [ -n "$fails" ]; then echo "$fails"; exit 1; fi
if echo "$out" | grep -qE "^test patch::tests::.* FAILED"; then
  out2=$(CARGO_NET_OFFLINE=true cargo test --offline --lib patch::tests -- --test-threads=1 2>&1)
  if echo "$out2" | grep -qE "FAILED"; then echo "$out2" | tail -30; exit 1; fi
fi
echo "$out" | grep -E "^test result" | head -2
git add -A src && git commit -qm "$1" && git log --oneline | head -1

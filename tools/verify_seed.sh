#!/bin/bash
# tools/verify_seed.sh <ID> <x> [outdir]: confirm a seeded change in its scratch worktree /tmp/seed/<ID> (at /repo's HEAD):
# the patch applies, the repository's suite still passes with it, the demonstration fails with it and passes without it.
set -u
ID=$1; X=$2; OUT=${3:-/tmp/seed/$ID-out}
WT=/tmp/seed/$ID
export CARGO_NET_OFFLINE=true
cd "$WT" || { echo "$ID $X no-worktree"; exit 2; }
git checkout -q -- . ; rm -f tests/seed_demo.rs
git checkout -q --detach "$(git -C /repo rev-parse HEAD)" || { echo "$ID $X checkout-failed"; exit 2; }
if ! git apply "$OUT/$X.patch.diff" 2>/tmp/seed/$ID.$X.apply.err; then echo "$ID $X APPLY-FAILED $(head -2 /tmp/seed/$ID.$X.apply.err | tr '\n' ' ')"; exit 1; fi
cp "$OUT/$X.demo.rs" tests/seed_demo.rs
log=/tmp/seed/$ID.$X.with.log
cargo test --workspace --no-fail-fast --offline >"$log" 2>&1
if grep -q "^error: could not compile\|^error\[E" "$log"; then echo "$ID $X COMPILE-FAILED"; git checkout -q -- .; rm -f tests/seed_demo.rs; exit 1; fi
# suite: failures outside the demo and outside the two known-flaky tests
# (unit tests are printed as "test module::path ... FAILED"; demo tests have no "physis::" prefix, so separate by binary section)
suite_fail=$(awk '/Running unittests src\/lib.rs/{s=1} /Running tests\//{s=0} s && /^test .* FAILED$/ {print}' "$log" | grep -v "patch::tests::test_add_file_op\|patch::tests::test_invalid")
if grep -q "^test patch::tests::.* FAILED" "$log"; then
  if ! cargo test --offline --lib patch::tests -- --test-threads=1 >/tmp/seed/$ID.$X.flaky.log 2>&1; then suite_fail="$suite_fail patch::tests(single-threaded)"; fi
fi
demo_with=$(awk '/Running tests\/seed_demo.rs/{s=1;next} /Running /{s=0} s && /^test result/ {print}' "$log")
git apply -R "$OUT/$X.patch.diff"
log2=/tmp/seed/$ID.$X.without.log
cargo test --offline --test seed_demo >"$log2" 2>&1
demo_without=$(grep "^test result" "$log2" | head -1)
rm -f tests/seed_demo.rs; git checkout -q -- .
sw=BAD; case "$demo_with" in *FAILED*) sw=fails-with;; esac
so=BAD; case "$demo_without" in *"test result: ok"*) so=passes-without;; esac
ss=suite-ok; [ -n "$suite_fail" ] && ss="SUITE-FAILS($suite_fail)"
echo "$ID $X applies $ss demo:$sw demo:$so"

#!/bin/bash
# tools/seedrun.sh <ID> <patch.diff> [tier] : apply a seeded change to /repo, run the property's check, undo it.
# prints one line: <ID> <patch> exit=<code> <signatures>
set -u
ID=$1; PATCH=$2; TIER=${3:-quick}
cd /verif || exit 2
if [ -n "$(git -C /repo status --porcelain --untracked-files=no)" ]; then echo "$ID $PATCH /repo-not-clean"; exit 2; fi
if ! git -C /repo apply "$PATCH"; then echo "$ID $PATCH apply-failed"; exit 2; fi
out=$( (ulimit -v 32000000; timeout 1800 ./check "$ID" "$TIER") 2>&1 ); code=$?
git -C /repo checkout -- .
# leave a binary built from the clean tree behind (runs that call harness/target/verif/pv directly must never see the patch)
./check build >/dev/null 2>&1
sigs=$(echo "$out" | grep -o "signature=[^ ]*" | sort -u | tr '\n' ' ')
secs=$(echo "$out" | grep -o "wall_s=[0-9.]*" | tail -1)
echo "$ID $(basename $(dirname $PATCH))/$(basename $PATCH) tier=$TIER exit=$code $secs $sigs"
